#!/bin/bash
# tools/seed_recheck.sh <props...> : run every kept seeded change of the given properties again (current checks, current /repo tree)
cd "$(dirname "$0")/.."
for p in "$@"; do
  for d in seeded/$p-*; do
    id=$(basename $d)
    python3 tools/seed_eval.py $d $id $p >/dev/null 2>&1
    python3 tools/seed_status.py $id
  done
done
