#!/usr/bin/env python3
"""Print the markdown table of seeded changes (DESIGN.md section 8.5) from seeded/*/meta.json."""
import json, os, glob
ROOT = os.path.dirname(os.path.dirname(os.path.abspath(__file__)))
def short(t, n):
    t = ' '.join(str(t).split())
    return (t[:n].rsplit(' ', 1)[0] + ' …') if len(t) > n else t
print('| id | files | change | needs | first run | now caught by |')
print('|---|---|---|---|---|---|')
for d in sorted(glob.glob(os.path.join(ROOT, 'seeded', '*'))):
    m = json.load(open(os.path.join(d, 'meta.json')))
    evs = m.get('evaluation', [])
    runs = [x for ev in evs for x in ev['ran']]
    first = runs[0] if runs else None
    last_caught = [x for x in runs if x['caught']]
    pid = os.path.basename(d).split('-')[0]
    own_runs = [x for x in runs if x['check'] == pid]
    if own_runs:
        now = own_runs[-1] if own_runs[-1]['caught'] else None          # the LATEST run of its own check decides
    else:
        now = last_caught[-1] if last_caught else None
    files = ', '.join(os.path.basename(f) for f in m.get('files', []))
    if m.get('judged') and not now:
        now_txt = 'not caught -- a documented limit (reason in `seeded/%s/meta.json`, "judged")' % os.path.basename(d)
    elif m.get('superseded'):
        now_txt = 'superseded by a repair of the line it edits (kept as history)'
    else:
        now_txt = ('%s %s: %s' % (now['check'], now['tier'], ', '.join('`%s`' % x for x in now['monitors'][:3]))) if now else '**not caught**'
    print('| %s | %s | %s | %s | %s | %s |' % (
        os.path.basename(d), files, short(m.get('summary', ''), 170).replace('|', '/'),
        short(m.get('needs_to_manifest', ''), 170).replace('|', '/'),
        ('caught' if first and first['caught'] else ('INCONCLUSIVE' if first and first.get('rc') == 2 else 'MISSED')) if first else '-',
        now_txt))
