#!/bin/bash
# Run the repository's baseline (guard OFF) and compare with BASELINE.json stable_pass.
OUT=${1:-/tmp/taurex-baseline.junit.xml}
cd /repo && env -u TAUREX3_VERIF /venv/bin/python -m pytest -ra -q -p no:cacheprovider --timeout=900 --continue-on-collection-errors --junitxml=$OUT > /tmp/taurex-baseline.log 2>&1
python3 - "$OUT" <<'PY'
import json,sys,xml.etree.ElementTree as ET
base=json.load(open('/root/.vp/BASELINE.json'))
t=ET.parse(sys.argv[1]).getroot()
res={}
for tc in t.iter('testcase'):
    name=tc.get('classname','')+'::'+tc.get('name')
    bad=any(c.tag in('failure','error') for c in tc)
    skipped=any(c.tag=='skipped' for c in tc)
    res[name]='fail' if bad else ('skip' if skipped else 'pass')
missing=[s for s in base['stable_pass'] if res.get(s)!='pass']
newpass=[n for n,v in res.items() if v=='pass' and n not in base['stable_pass']]
print('stable_pass now failing/missing:',len(missing),missing[:20])
print('total pass',sum(v=='pass' for v in res.values()),'fail',sum(v=='fail' for v in res.values()))
print('newly passing (not in stable list):',len(newpass))
PY
