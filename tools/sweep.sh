#!/bin/bash
# tools/sweep.sh <tier> "<seeds>" <props...> : run checks over seeds, print one line per run (never stops at a failure)
TIER=$1; SEEDS="$2"; shift 2
cd "$(dirname "$0")/.."
for p in "$@"; do for s in $SEEDS; do
  out=$(VERIF_SEED=$s ./check $p --tier $TIER 2>&1 | grep -E " HELD | VIOLATED | INCONCLUSIVE |failed monitor|^INCONCLUSIVE|VIOLATION" | head -4 | cut -c1-260)
  echo "[$p seed=$s $TIER] $out"
done; done
