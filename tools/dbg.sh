#!/bin/bash
# tools/dbg.sh <python-file-or-->  : run python with the check environment
HERE="$(cd "$(dirname "$0")/.." && pwd)"
export VMON_REPO="${VMON_REPO:-/repo}"
export PYTHONPATH="$VMON_REPO:$HERE:$HERE/.deps" PYTHONDONTWRITEBYTECODE=1 PYTHONHASHSEED=0 TAUREX3_VERIF=1 NUMBA_DISABLE_PERFORMANCE_WARNINGS=1
exec /venv/bin/python "$@"
