#!/usr/bin/env python3
"""tools/seed_status.py <id...> : one line per seeded change: demo verified? last evaluation per check."""
import json, sys, os
ROOT = os.path.dirname(os.path.dirname(os.path.abspath(__file__)))
for i in sys.argv[1:]:
    m = json.load(open(os.path.join(ROOT, 'seeded', i, 'meta.json')))
    evs = m.get('evaluation', [])
    if not evs:
        print(i, 'no evaluation'); continue
    ev = evs[-1]
    print(i, 'confirmed' if ev.get('demo_confirms') else 'DEMO-NOT-CONFIRMED',
          '|', '; '.join('%s %s %s %s' % (x['check'], x['tier'], 'CAUGHT' if x['caught'] else 'missed(rc=%s)' % x.get('rc'), ','.join(x['monitors'][:3])) for x in ev['ran']))
