#!/usr/bin/env python3
"""tools/seed_eval.py <seed-dir> <id> <props...> [--tier quick|thorough]

Confirms a seeded change (patch.diff + demo.py + meta.json produced by an independent sub-agent in its own scratch
worktree) and runs the registered checks against it:
  1. the patch applies to a scratch copy of /repo's current tree;
  2. demo.py passes on the unchanged copy and fails on the patched copy;
  3. each named check is run (VMON_REPO=<patched copy>) and its verdict recorded.
Keeps patch.diff, demo.py and meta.json (+ results) under /verif/seeded/<id>/.
"""
import json
import os
import shutil
import subprocess
import sys
import tempfile

ROOT = os.path.dirname(os.path.dirname(os.path.abspath(__file__)))


def sh(cmd, **kw):
    return subprocess.run(cmd, shell=True, stdout=subprocess.PIPE, stderr=subprocess.STDOUT, text=True, **kw)


def main():
    args = sys.argv[1:]
    tier = 'quick'
    if '--tier' in args:
        i = args.index('--tier')
        tier = args[i + 1]
        del args[i:i + 2]
    src, sid, props = args[0], args[1], args[2:]
    dst = os.path.join(ROOT, 'seeded', sid)
    os.makedirs(dst, exist_ok=True)
    history = []
    if os.path.exists(os.path.join(dst, 'meta.json')):
        try:
            history = json.load(open(os.path.join(dst, 'meta.json'))).get('evaluation', [])
        except Exception:
            history = []
    for f in ('patch.diff', 'demo.py', 'meta.json'):
        if os.path.exists(os.path.join(src, f)) and os.path.abspath(src) != os.path.abspath(dst):
            shutil.copy(os.path.join(src, f), os.path.join(dst, f))
    meta = json.load(open(os.path.join(dst, 'meta.json')))
    if not meta.get('evaluation'):
        meta['evaluation'] = history          # evaluations made before the agent's files were copied again are kept
    clean = tempfile.mkdtemp(prefix='seed-clean-')
    mut = tempfile.mkdtemp(prefix='seed-mut-')
    res = {'ran': []}
    try:
        for d in (clean, mut):
            sh('rsync -a --exclude .git /repo/ %s/' % d)
        r = sh('cd %s && git init -q . 2>/dev/null; patch -p1 -s < %s' % (mut, os.path.join(dst, 'patch.diff')))
        res['patch_applies'] = r.returncode == 0
        if r.returncode != 0:
            res['patch_output'] = r.stdout[-800:]
        env = dict(os.environ, PYTHONDONTWRITEBYTECODE='1')
        for name, d in (('clean', clean), ('mutated', mut)):
            shutil.copy(os.path.join(dst, 'demo.py'), os.path.join(d, 'demo.py'))
            e = dict(env, PYTHONPATH=d)
            r = sh('cd %s && timeout 600 /venv/bin/python demo.py' % d, env=e)
            res['demo_' + name] = {'rc': r.returncode, 'tail': r.stdout[-400:]}
        res['demo_confirms'] = res['demo_clean']['rc'] == 0 and res['demo_mutated']['rc'] != 0
        for p in props:
            e = dict(os.environ, VMON_REPO=mut)
            r = sh('cd %s && ./check %s --tier %s' % (ROOT, p, tier), env=e)
            lines = [l for l in r.stdout.splitlines() if any(k in l for k in ('VIOLATION', 'HELD', 'INCONCLUSIVE', 'failed monitor', 'KNOWN-FINDING'))]
            res['ran'].append({'check': p, 'tier': tier, 'rc': r.returncode, 'caught': r.returncode == 1,
                               'monitors': sorted({l.split('monitor=')[1].split()[0] for l in lines if 'monitor=' in l}),
                               'lines': [l[:220] for l in lines[:6]]})
    finally:
        shutil.rmtree(clean, ignore_errors=True)
        shutil.rmtree(mut, ignore_errors=True)
    meta.setdefault('evaluation', []).append(res)
    meta['caught_by'] = sorted({x['check'] + ':' + x['tier'] for ev in meta['evaluation'] for x in ev['ran'] if x['caught']})
    json.dump(meta, open(os.path.join(dst, 'meta.json'), 'w'), indent=1)
    print(json.dumps({'id': sid, 'patch_applies': res.get('patch_applies'), 'demo_confirms': res.get('demo_confirms'),
                      'results': [(x['check'], x['tier'], 'CAUGHT' if x['caught'] else 'rc=%d' % x['rc'], x['monitors'][:4]) for x in res['ran']]}, indent=1))


if __name__ == '__main__':
    main()
