#!/usr/bin/env python3
"""tools/kf_add.py '<json entry>' : append/replace (by key) an entry in KNOWN_FINDINGS.json."""
import json, sys, os, fcntl
p = os.path.join(os.path.dirname(os.path.dirname(os.path.abspath(__file__))), 'KNOWN_FINDINGS.json')
e = json.loads(sys.argv[1])
with open(p, 'r+') as fh:
    fcntl.flock(fh, fcntl.LOCK_EX)
    d = json.load(fh)
    d['findings'] = [x for x in d['findings'] if x.get('key') != e['key']] + [e]
    fh.seek(0); fh.truncate(); json.dump(d, fh, indent=1); fh.write('\n')
print(len(d['findings']), 'findings')
