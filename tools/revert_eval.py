#!/usr/bin/env python3
"""tools/revert_eval.py [keys...] : (hand-made undo patches for repairs whose lines were touched again: tools/reverts/)
tools/revert_eval.py [keys...] : for every `fixed` entry of KNOWN_FINDINGS.json, take a scratch copy of /repo, undo the
repair commit there (git revert --no-commit on a scratch CLONE, never in /repo) and run the property's quick check against
it.  A repair that can be undone without the check noticing means the check no longer reaches what found the defect.
Writes tools/revert_eval.json; prints one line per entry."""
import json, os, shutil, subprocess, sys, tempfile
ROOT = os.path.dirname(os.path.dirname(os.path.abspath(__file__)))


def sh(cmd, **kw):
    return subprocess.run(cmd, shell=True, stdout=subprocess.PIPE, stderr=subprocess.STDOUT, text=True, **kw)


def main():
    want = set(sys.argv[1:])
    kf = json.load(open(os.path.join(ROOT, 'KNOWN_FINDINGS.json')))['findings']
    out = {}
    res_path = os.path.join(ROOT, 'tools', 'revert_eval.json')
    if os.path.exists(res_path):
        out = json.load(open(res_path))
    import concurrent.futures, threading
    lock = threading.Lock()
    todo = [e for e in kf if e.get('status') == 'fixed' and e.get('commit') and (not want or e['key'] in want)]

    def one(e):
        commits = e['commit'].replace(',', ' ').split()
        prop = e['property']
        d = tempfile.mkdtemp(prefix='revert-')
        try:
            r = sh('git clone -q /repo %s/repo && cd %s/repo && git -c user.name=x -c user.email=x@x revert --no-commit %s'
                   % (d, d, ' '.join(commits)))
            hand = os.path.join(ROOT, 'tools', 'reverts', e['key'].replace('/', '__') + '.diff')
            if r.returncode != 0 and os.path.exists(hand):
                # later repairs touched the same lines: a hand-made patch puts the original defect back on today's tree
                r = sh('cd %s/repo && git revert --abort; git checkout -q . && git apply %s' % (d, hand))
            if r.returncode != 0:
                res = {'property': prop, 'commit': e['commit'], 'reverted': False, 'note': r.stdout[-300:]}
                line = '%s REVERT-CONFLICT' % e['key']
            else:
                env = dict(os.environ, VMON_REPO=os.path.join(d, 'repo'), VMON_PAR=os.environ.get('VMON_PAR', '4'))
                r = sh('cd %s && ./check %s --tier quick' % (ROOT, prop), env=env)
                lines = [l for l in r.stdout.splitlines() if any(k in l for k in ('VIOLATION', ' HELD ', 'INCONCLUSIVE', 'failed monitor', 'KNOWN-FINDING'))]
                mons = sorted({l.split('monitor=')[1].split()[0] for l in lines if 'monitor=' in l})
                res = {'property': prop, 'commit': e['commit'], 'reverted': True, 'rc': r.returncode,
                       'noticed': r.returncode != 0, 'monitors': mons[:5], 'lines': [l[:200] for l in lines[:3]]}
                line = '%s %s rc=%d %s' % (e['key'], 'NOTICED' if r.returncode != 0 else 'not-noticed', r.returncode, ','.join(mons[:3]))
        finally:
            shutil.rmtree(d, ignore_errors=True)
        with lock:
            out[e['key']] = res
            print(line, flush=True)
            json.dump(out, open(res_path, 'w'), indent=1)

    with concurrent.futures.ThreadPoolExecutor(max_workers=int(os.environ.get('REVERT_JOBS', '4'))) as ex:
        list(ex.map(one, todo))
    n = sum(1 for v in out.values() if v.get('noticed'))
    print('noticed %d of %d evaluated' % (n, len(out)))


if __name__ == '__main__':
    main()
