#!/usr/bin/env python3
"""tools/redteam/mkround.py <round-letter> <flavour-file> : write the prompts of one red-team round to /tmp/wt-prompts/ and
create one scratch worktree of /repo per property under /tmp/wt/ (outside /repo and /verif).  The prompt carries the
property's text from properties.jsonl and nothing from /verif.  flavour-file: two lines - the condition the change needs in
order to manifest, and what must still be right."""
import json, os, subprocess, sys
ROOT = os.path.dirname(os.path.dirname(os.path.dirname(os.path.abspath(__file__))))
TEMPLATE = open(os.path.join(os.path.dirname(os.path.abspath(__file__)), 'prompt.template')).read()


def main():
    letter, flavour = sys.argv[1], open(sys.argv[2]).read().strip().split('\n')
    only = set(sys.argv[3:])
    os.makedirs('/tmp/wt-prompts', exist_ok=True)
    os.makedirs('/tmp/wt', exist_ok=True)
    os.makedirs('/tmp/wt-out', exist_ok=True)
    for line in open(os.path.join(ROOT, 'properties.jsonl')):
        p = json.loads(line)
        if only and p['id'] not in only:
            continue
        tag = '%s-%s' % (p['id'], letter)
        anchors = ', '.join(p['anchors']['files'])
        text = (TEMPLATE.replace('@TAG@', tag).replace('@ID@', p['id']).replace('@TITLE@', p.get('title', ''))
                .replace('@STATEMENT@', p.get('statement', '')).replace('@QUANT@', p['quantifier']['text'])
                .replace('@ANCHORS@', anchors).replace('@FLAVOUR@', flavour[0]).replace('@STILL@', flavour[1]))
        open('/tmp/wt-prompts/%s.md' % tag, 'w').write(text)
        wt = '/tmp/wt/%s' % tag
        if not os.path.exists(wt):
            subprocess.run(['git', '-C', '/repo', 'worktree', 'add', '--detach', '-q', wt, 'HEAD'], check=True)
        print(tag)


if __name__ == '__main__':
    main()
