#!/bin/bash
# tools/mut.sh "<props space separated>" <file-relative-to-repo> <sed-expression> : run quick checks against a mutated scratch copy
set -e
PROPS="$1"; FILE="$2"; EXPR="$3"
D=$(mktemp -d /tmp/mut-XXXXXX)
rsync -a /repo/taurex /repo/doc $D/ 2>/dev/null
sed -i "$EXPR" "$D/$FILE"
if diff -q "$D/$FILE" "/repo/$FILE" >/dev/null; then echo "MUTATION DID NOT APPLY"; rm -rf $D; exit 3; fi
cd "$(dirname "$0")/.."
for p in $PROPS; do
  out=$(VMON_REPO=$D ./check $p --tier ${TIER:-quick} 2>&1 | grep -E "VIOLATION|HELD|INCONCLUSIVE|failed monitor" | head -4 | cut -c1-160)
  echo "[$p] $out" | head -5
done
rm -rf $D
