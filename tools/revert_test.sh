#!/bin/bash
# tools/revert_test.sh <commit> "<props>" : run quick checks against a scratch copy with one fix commit reverted
C=$1; PROPS="$2"
D=$(mktemp -d /tmp/rev-XXXXXX); rsync -a /repo/taurex /repo/doc $D/
git -C /repo show $C -- taurex | (cd $D && patch -R -p1 -s) || { echo "revert failed"; rm -rf $D; exit 3; }
cd "$(dirname "$0")/.."
for p in $PROPS; do
  out=$(VMON_REPO=$D ./check $p --tier ${TIER:-quick} 2>&1 | grep -E "VIOLATION|HELD|INCONCLUSIVE|failed monitor" | head -4 | cut -c1-170)
  echo "[$p minus $C] $out"
done
rm -rf $D
