#!/usr/bin/env python3
"""Regenerate MANIFEST.json from the property modules that exist (run: python3 tools/mkmanifest.py)."""
import ast, json, os, re
ROOT = os.path.dirname(os.path.dirname(os.path.abspath(__file__)))
BASE = json.load(open('/root/.vp/BASELINE.json'))['cmd'].replace('--junitxml=<file>', '--junitxml=/tmp/taurex-baseline-off.junit.xml')
props = [json.loads(l) for l in open(os.path.join(ROOT, 'properties.jsonl'))]
NA_REASON = {}
na_path = os.path.join(ROOT, 'tools', 'not_applicable.json')
if os.path.exists(na_path):
    NA_REASON = json.load(open(na_path))

CLAIMED = json.load(open(os.path.join(ROOT, 'tools', 'claimed.json')))

def meta(pid):
    if pid not in CLAIMED:
        return None
    path = os.path.join(ROOT, 'vmon', 'props', pid.lower() + '.py')
    if not os.path.exists(path):
        return None
    tree = ast.parse(open(path).read())
    out = {}
    for node in tree.body:
        if isinstance(node, ast.Assign) and len(node.targets) == 1 and isinstance(node.targets[0], ast.Name):
            n = node.targets[0].id
            if n in ('LEVEL_TEXT', 'LEVEL_NOTE', 'TECHNIQUE', 'DESIGN_REF', 'CLAIMED'):
                out[n] = ast.literal_eval(node.value)
    return out

COMMON_SUFFIX = (' Workloads of every check also hold, where the property\'s quantifier admits them: long histories on one object '
                 '(hundreds to thousands of operations, earlier states revisited from anywhere in the history), steps of a few '
                 'parts per billion and values below 1e-8, spectral grids of thousands of points, documented options at '
                 'non-default values or changed while objects live, and other input representations (integer, single-precision, '
                 'masked, 0-d arrays); see DESIGN.md 8.5, rounds m-q.')
hooks_path = os.path.join(ROOT, 'tools', 'hook_commits.json')
hook_commits = json.load(open(hooks_path)) if os.path.exists(hooks_path) else []
checks, na = [], []
for p in props:
    pid = p['id']
    m = meta(pid)
    if m is None or not m.get('CLAIMED', True) or 'LEVEL_TEXT' not in m:
        na.append({'property_id': pid, 'reason': NA_REASON.get(pid, 'check not built yet in this session (runtime monitoring applies; see DESIGN.md section 4)')})
        continue
    checks.append({
        'property_id': pid,
        'quick_cmd': './check %s --tier quick' % pid,
        'thorough_cmd': './check %s --tier thorough' % pid,
        'evidence_file': 'evidence/%s.json' % pid,
        'replay_cmd_template': './check %s --replay {path}' % pid,
        'engine': 'vmon',
        'level_claimed': {'category': 'exploration', 'text': m['LEVEL_TEXT'] + COMMON_SUFFIX, 'design_ref': m.get('DESIGN_REF', 'DESIGN.md section 4, ' + pid)},
        'level_note': m.get('LEVEL_NOTE', ''),
        'technique': m.get('TECHNIQUE', 'runtime monitoring: reference-model oracle over recorded executions'),
    })
man = {
    'version': 1,
    'setup_cmd': './setup.sh',
    'hooks': {
        'guard': 'TAUREX3_VERIF',
        'enable': 'harness-side: ./check sets TAUREX3_VERIF=1 and attaches monitors (icontract contracts, taps, sys.monitoring, audit hooks, numba bounds checking) at run time to the code imported from /repo; source hooks, if any, are listed in source_commits and are inert unless TAUREX3_VERIF=1',
        'baseline_off_cmd': BASE,
        'source_commits': hook_commits,
        'add_only': True,
    },
    'engines': [{'name': 'vmon', 'path': 'vmon/', 'serves_properties': [c['property_id'] for c in checks],
                 'kind_free_text': 'runtime monitors (icontract contracts, call taps, event logs, numba bounds-check sanitizer, sys.monitoring line observation) + independent reference-model oracles over recorded executions of the real code, seeded sharded workloads'}],
    'checks': checks,
    'not_applicable': na,
    'notes': 'All checks: ./check Cxx --tier quick|thorough; VERIF_SEED selects the workload seed; exit 0 held, 1 violated (VIOLATION line + replay file), 2 inconclusive (a deciding monitor or required input class was never observed, a shard died or the watchdog fired). Known findings: KNOWN_FINDINGS.json.',
}
json.dump(man, open(os.path.join(ROOT, 'MANIFEST.json'), 'w'), indent=1)
print('checks:', [c['property_id'] for c in checks]); print('not_applicable:', [n['property_id'] for n in na])
