#!/bin/bash
# Offline set-up: third-party monitor libraries beside the repository's interpreter.
set -e
cd "$(dirname "$0")"
if [ ! -d .deps/icontract ] || [ ! -d .deps/jsonschema ]; then
  rm -rf .deps
  PIP_NO_INDEX=1 /venv/bin/pip install -q --no-index --find-links /opt/veriftools/wheels \
      --target .deps icontract jsonschema >/dev/null 2>&1 || \
  PIP_NO_INDEX=1 /venv/bin/python -m pip install -q --no-index --find-links /opt/veriftools/wheels \
      --target .deps icontract jsonschema
fi
/venv/bin/python -c "import sys; sys.path.insert(0,'.deps'); import icontract, jsonschema; print('vmon setup ok: icontract', icontract.__version__)"
