"""icontract glue: contracts attached from the harness to the real classes.

Conditions are *named functions* with an explicit ``error=`` (the lambda /
SyntaxError trap of icontract 2.7.3).  Each condition records into the shard's
Ctx (evaluation counters, residuals, failures) and returns True, so that one
violation does not abort the rest of the observed execution; zero evaluations
of a required contract make the verdict inconclusive.
"""
import copy
import functools
import inspect
import math
import os

import icontract
import numpy as np


class PostBroken(Exception):
    pass


class InvariantBroken(Exception):
    pass


def repo_root():
    return os.environ.get('VMON_REPO', '/repo')


def tap_init(cls, store_attr='_vmon_decl'):
    """Record the arguments of the *outermost* constructor call on the instance."""
    orig = cls.__dict__.get('__init__')
    if orig is None or getattr(orig, '_vmon_tapped', False):
        return
    sig = inspect.signature(orig)

    @functools.wraps(orig)
    def init(self, *a, **kw):
        if not hasattr(self, store_attr):
            try:
                ba = sig.bind(self, *a, **kw)
                # the declaration is a SNAPSHOT of what was handed in: arrays and containers are copied, so that a
                # caller who re-uses its own array afterwards does not change what the monitor judges against
                d = {k: (np.array(v, copy=True) if isinstance(v, np.ndarray) else
                         copy.deepcopy(v) if isinstance(v, (list, tuple, dict)) else v)
                     for k, v in ba.arguments.items() if k != 'self'}
            except TypeError:
                d = {'_unbound': True}
            try:
                object.__setattr__(self, store_attr, (cls.__name__, d))
            except Exception:
                pass
        return orig(self, *a, **kw)
    init._vmon_tapped = True
    cls.__init__ = init


_installed = {}


def install_prior_contracts(ctx):
    """Uniform/Gaussian sample() = inverse CDF from the declared arguments; prior() = identity / 10**x."""
    if _installed.get('priors'):
        _installed['priors']['ctx'] = ctx
        return
    from scipy.special import ndtri
    from taurex.core import priors as P
    holder = {'ctx': ctx}
    _installed['priors'] = holder
    for c in (P.Uniform, P.LogUniform, P.Gaussian, P.LogGaussian):
        tap_init(c)

    def declared_uniform(self):
        name, d = self._vmon_decl
        if d.get('lin_bounds') is not None:
            lb = [math.log10(v) for v in d['lin_bounds']]
        elif 'bounds' in d:
            lb = list(d['bounds'])
        else:
            lb = [0.0, 1.0]
        return min(lb), max(lb)

    def uniform_sample_is_inverse_cdf(self, x, result):
        c = holder['ctx']
        if not hasattr(self, '_vmon_decl') or getattr(self, '_vmon_rebound', False):
            c.event('contract-skip:uniform-no-declaration')
            return True
        lo, hi = declared_uniform(self)
        xa = np.asarray(x, dtype=float)
        inside = (xa >= 0) & (xa <= 1)
        if not np.all(inside):
            c.event('contract-domain-skip:u-outside-unit-interval')
            return True
        want = lo + (hi - lo) * xa
        c.close('contract:uniform.sample', result, want, 1e-12, atol=1e-12 * max(abs(lo), abs(hi)),
                declared=self._vmon_decl)
        return True

    def gaussian_sample_is_inverse_cdf(self, x, result):
        c = holder['ctx']
        if not hasattr(self, '_vmon_decl'):
            c.event('contract-skip:gaussian-no-declaration')
            return True
        name, d = self._vmon_decl
        mean = d.get('mean', 0.5)
        std = d.get('std', 0.25)
        if d.get('lin_mean') is not None:
            mean = math.log10(d['lin_mean'])
        if d.get('lin_std') is not None:
            c.event('contract-domain-skip:lin_std')
            return True
        xa = np.asarray(x, dtype=float)
        if not np.all((xa >= 0) & (xa <= 1)):
            c.event('contract-domain-skip:u-outside-unit-interval')
            return True
        want = mean + std * ndtri(xa)
        c.close('contract:gaussian.sample', result, want, 1e-12, atol=1e-12 * abs(mean), declared=self._vmon_decl)
        return True

    def prior_maps_to_declared_space(self, value, result):
        c = holder['ctx']
        log = isinstance(self, (P.LogUniform, P.LogGaussian))
        v = np.asarray(value, dtype=float)
        if log:
            with np.errstate(over='ignore'):
                want = np.power(10.0, v)
            c.close('contract:prior.prior', result, want, 1e-13, cls=type(self).__name__)
        else:
            c.close('contract:prior.prior', result, v, 0.0, cls=type(self).__name__)
        return True

    P.Uniform.sample = icontract.ensure(uniform_sample_is_inverse_cdf, error=PostBroken)(P.Uniform.sample)
    P.Gaussian.sample = icontract.ensure(gaussian_sample_is_inverse_cdf, error=PostBroken)(P.Gaussian.sample)
    P.Prior.prior = icontract.ensure(prior_maps_to_declared_space, error=PostBroken)(P.Prior.prior)

    # set_bounds() after construction re-declares the bounds
    orig_set = P.Uniform.set_bounds

    @functools.wraps(orig_set)
    def set_bounds(self, bounds):
        if hasattr(self, '_vmon_decl') and hasattr(self, '_low_bounds'):
            object.__setattr__(self, '_vmon_decl', (type(self).__name__, {'bounds': list(bounds)}))
        return orig_set(self, bounds)
    P.Uniform.set_bounds = set_bounds
