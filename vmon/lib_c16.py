"""Helpers for C16: nested-dictionary generator, an independent statement of where each leaf of a
dictionary must land in the file, an h5py reader, value comparison, model builders for the
write -> reload round trip.

The "expected layout" below is written from the documented behaviour of
``Output.store_dictionary`` (dict -> group, number -> scalar dataset, array -> dataset, str -> string
dataset, list/tuple of numbers -> array dataset, list of str -> string-array dataset, list that is not a
regular numeric array -> one entry per element named ``<key><index>``); it does not call into taurex.
"""
import string

import numpy as np

LETTERS = string.ascii_letters
WORD_CHARS = string.ascii_letters + string.digits + ' _-+.:()[]%'
NONASCII = 'µÅéλσ°²→Ωß'


# ------------------------------------------------------------------ generator
def rnd_key(rng, used):
    for _ in range(100):
        n = int(rng.integers(1, 9))
        k = ''.join(LETTERS[i] for i in rng.integers(0, len(LETTERS), n))
        r = rng.random()
        if r < 0.15:
            k = k + ' ' + k[::-1]                 # blank inside a name
        elif r < 0.25:
            k = k + NONASCII[rng.integers(0, len(NONASCII))]
        elif r < 0.35:
            k = k + '_' + k
        # names end with a letter: '<key><index>' names of list fall-backs can then never collide
        if k not in used and not k[-1].isdigit():
            used.add(k)
            return k
    raise RuntimeError('could not draw a key')


def rnd_float(rng):
    r = rng.random()
    if r < 0.70:
        return float(rng.normal() * 10 ** rng.uniform(-12, 12))
    specials = [0.0, -0.0, float('inf'), float('-inf'), float('nan'), 5e-324, 1.7976931348623157e308,
                2.2250738585072014e-308, 1.0, -1.0]
    return specials[rng.integers(0, len(specials))]


def rnd_int(rng):
    r = rng.random()
    if r < 0.6:
        return int(rng.integers(-1000, 1000))
    if r < 0.9:
        return int(rng.integers(-2 ** 62, 2 ** 62))
    return [0, -1, 2 ** 63 - 1, -2 ** 63, 2 ** 31, -2 ** 31 - 1][rng.integers(0, 6)]


def rnd_string(rng, feats, long_ok=True, nonascii_ok=True, maxlen=None):
    r = rng.random()
    n = int(rng.integers(0, 30))
    if long_ok and r < 0.12:
        n = int(rng.integers(60, 140))
    if maxlen is not None:
        n = min(n, maxlen) if r >= 0.12 else int(rng.integers(maxlen - 4, maxlen + 1))    # incl. exactly maxlen
    s = ''.join(WORD_CHARS[i] for i in rng.integers(0, len(WORD_CHARS), n))
    if nonascii_ok and rng.random() < 0.12:
        pos = int(rng.integers(0, len(s) + 1))
        s = s[:pos] + NONASCII[rng.integers(0, len(NONASCII))] + s[pos:]
    return s


def rnd_array(rng, rank=None):
    rank = int(rng.integers(0, 4)) if rank is None else rank
    shape = tuple(int(v) for v in rng.integers(0 if rng.random() < 0.05 else 1, 6, rank))
    kind = rng.integers(0, 6)
    if kind == 0:
        a = rng.integers(-2 ** 40, 2 ** 40, shape).astype(np.int64)
    elif kind == 1:
        a = rng.integers(-2 ** 20, 2 ** 20, shape).astype(np.int32)
    elif kind == 2:
        a = (rng.normal(size=shape) * 1e3).astype(np.float32)
    elif kind == 3:
        a = rng.random(shape) < 0.5
    else:
        a = rng.normal(size=shape) * 10.0 ** rng.uniform(-30, 30, shape)
        if a.size and rng.random() < 0.2:
            flat = a.reshape(-1)
            flat[rng.integers(0, flat.size)] = [np.nan, np.inf, -np.inf, -0.0][rng.integers(0, 4)]
    return np.asarray(a)


def rnd_leaf(rng, feats):
    kinds = ['float', 'int', 'npfloat', 'npint', 'bool', 'array', 'string', 'numlist', 'numtuple', 'nestlist',
             'strlist', 'strtuple', 'dictlist', 'emptylist']
    weights = np.array([3, 3, 2, 2, 1, 6, 4, 3, 2, 1, 4, 1, 0.5, 0.3])
    k = kinds[rng.choice(len(kinds), p=weights / weights.sum())]
    feats.add('leaf:' + k)
    if k == 'float':
        return rnd_float(rng)
    if k == 'int':
        return rnd_int(rng)
    if k == 'npfloat':
        return np.float64(rnd_float(rng))
    if k == 'npint':
        return np.int64(rnd_int(rng))
    if k == 'bool':
        return bool(rng.random() < 0.5)
    if k == 'array':
        a = rnd_array(rng)
        feats.add('array-rank:%d' % a.ndim)
        return a
    if k == 'string':
        return rnd_string(rng, feats)
    if k in ('numlist', 'numtuple'):
        n = int(rng.integers(1, 7))
        if rng.random() < 0.5:
            v = [rnd_float(rng) for _ in range(n)]
        elif rng.random() < 0.5:
            v = [int(rng.integers(-10 ** 6, 10 ** 6)) for _ in range(n)]
        else:
            v = [rnd_float(rng) if rng.random() < 0.5 else int(rng.integers(-10 ** 6, 10 ** 6)) for _ in range(n)]
        return v if k == 'numlist' else tuple(v)
    if k == 'nestlist':
        n, m = int(rng.integers(1, 4)), int(rng.integers(1, 4))
        return [[rnd_float(rng) for _ in range(m)] for _ in range(n)]
    if k in ('strlist', 'strtuple'):
        # main generator: elements inside what the on-disk type documents (64 ASCII bytes); the outside is the
        # 'dicts_known' stratum
        n = int(rng.integers(1, 6))
        v = [rnd_string(rng, feats, nonascii_ok=False, maxlen=64) for _ in range(n)]
        return v if k == 'strlist' else tuple(v)
    if k == 'dictlist':
        return [{'a': rnd_float(rng), 'b': rnd_array(rng, 1)} for _ in range(int(rng.integers(1, 4)))]
    if k == 'emptylist':
        return []
    raise ValueError(k)


def ragged_list(rng):
    n = int(rng.integers(2, 5))
    lens = [int(v) for v in rng.integers(1, 6, n)]
    if len(set(lens)) == 1:
        lens[0] += 1
    return [rng.normal(size=m) for m in lens]


def outside_string_list(rng):
    """A list of strings with at least one element that does not fit 64 ASCII bytes."""
    n = int(rng.integers(1, 5))
    v = [rnd_string(rng, None, nonascii_ok=False, maxlen=64) for _ in range(n)]
    i = int(rng.integers(0, n))
    r = rng.random()
    if r < 0.35:
        v[i] = ''.join(WORD_CHARS[j] for j in rng.integers(0, len(WORD_CHARS), int(rng.integers(65, 140))))
    elif r < 0.7:
        # text that is mostly not ASCII (labels in Greek, accented paths, CJK): far more UTF-8 bytes than characters
        pool = NONASCII + '\u6e29\u5ea6\u5727\u529b\u5927\u6c17\u00fc\u00f1\u00e7\u0394\u03bc'
        v[i] = ''.join(pool[j] for j in rng.integers(0, len(pool), int(rng.integers(23, 70))))
    else:
        pos = int(rng.integers(0, len(v[i]) + 1))
        v[i] = v[i][:pos] + NONASCII[rng.integers(0, len(NONASCII))] + v[i][pos:]
    return v


def rnd_dict(rng, depth, feats, maxdepth=4):
    used = set()
    d = {}
    n = int(rng.integers(0 if depth > 1 else 1, 7))
    for _ in range(n):
        key = rnd_key(rng, used)
        if depth < maxdepth and rng.random() < 0.3:
            feats.add('depth:%d' % (depth + 1))
            d[key] = rnd_dict(rng, depth + 1, feats, maxdepth)
        else:
            d[key] = rnd_leaf(rng, feats)
    if not d and depth > 1:
        feats.add('empty-dict')
    return d


def features_of(dic, depth=1, out=None):
    """Leaf classes actually present in a dictionary (what the case really exercised)."""
    out = set() if out is None else out
    if not dic and depth > 1:
        out.add('empty-dict')
    for v in dic.values():
        if isinstance(v, dict):
            out.add('depth:%d' % (depth + 1))
            features_of(v, depth + 1, out)
        elif isinstance(v, bool):
            out.add('leaf:bool')
        elif isinstance(v, np.floating):
            out.add('leaf:npfloat')
        elif isinstance(v, np.integer):
            out.add('leaf:npint')
        elif isinstance(v, float):
            out.add('leaf:float')
        elif isinstance(v, int):
            out.add('leaf:int')
        elif isinstance(v, str):
            out.add('leaf:string')
        elif isinstance(v, np.ndarray):
            out.add('leaf:array')
            out.add('array-rank:%d' % v.ndim)
        elif isinstance(v, (list, tuple)):
            t = 'tuple' if isinstance(v, tuple) else 'list'
            if not v:
                out.add('leaf:emptylist')
            elif all(isinstance(x, str) for x in v):
                out.add('leaf:str' + t)
                if any(outside_s64_ascii(x) for x in v):
                    out.add('strlist-element-outside-S64-ascii')
            elif all(isinstance(x, dict) for x in v):
                out.add('leaf:dictlist')
            elif all(isinstance(x, np.ndarray) for x in v):
                out.add('leaf:raggedlist')
            elif all(isinstance(x, list) for x in v):
                out.add('leaf:nestlist')
            else:
                out.add('leaf:num' + t)
    return out


# ------------------------------------------------------ expected file layout
def _is_num(x):
    return isinstance(x, (int, float, np.integer, np.floating, bool, np.bool_))


def _regular_numeric(item):
    """(True, array) when a list/tuple is a regular nest of numbers (or of equal-shape numeric arrays)."""
    def shape_of(x):
        if _is_num(x):
            return ()
        if isinstance(x, np.ndarray) and x.dtype.kind in 'biuf':
            return x.shape
        if isinstance(x, (list, tuple)):
            subs = [shape_of(v) for v in x]
            if any(s is None for s in subs) or len(set(subs)) > 1:
                return None
            return (len(x),) + (subs[0] if subs else ())
        return None
    s = shape_of(item)
    if s is None:
        return False, None
    return True, np.array(item)


def expected_layout(dic, prefix=''):
    """{hdf5 path: (kind, value)} with kind in scalar/array/string/strlist/group."""
    out = {}
    for key, item in dic.items():
        path = prefix + '/' + str(key)
        _place(out, path, item)
    return out


def _place(out, path, item):
    if isinstance(item, dict):
        out[path] = ('group', None)
        out.update(expected_layout(item, path))
    elif isinstance(item, str):
        out[path] = ('string', item)
    elif isinstance(item, np.ndarray):
        out[path] = ('array', item)
    elif _is_num(item):
        out[path] = ('scalar', item)
    elif isinstance(item, (list, tuple)):
        item = list(item)
        if any(isinstance(x, str) for x in item):
            out[path] = ('strlist', item)
            return
        ok, arr = _regular_numeric(item)
        if ok:
            out[path] = ('array', arr)
        else:
            for i, v in enumerate(item):
                _place(out, '%s%d' % (path, i), v)
    else:
        raise TypeError('generator produced an unknown leaf %r' % (type(item),))


# ------------------------------------------------------------------- reader
def read_h5(filename, root='/'):
    """{path: ('group'|'dataset', value, dtype, shape, attrs)} read with h5py only."""
    import h5py
    out = {}
    with h5py.File(filename, 'r') as f:
        base = f[root]

        def visit(name, obj):
            path = (base.name.rstrip('/') + '/' + name)
            if isinstance(obj, h5py.Group):
                out[path] = ('group', None, None, None, dict(obj.attrs))
            else:
                out[path] = ('dataset', obj[()], obj.dtype, obj.shape, dict(obj.attrs))
        base.visititems(visit)
        out['__root_attrs__'] = dict(f.attrs)
    return out


def same_values(got, want):
    """Unchanged: same shape, same kind of number, equal values (NaN == NaN), same sign of zero."""
    g, w = np.asarray(got), np.asarray(want)
    if g.shape != w.shape:
        return False, 'shape %s != %s' % (g.shape, w.shape)
    if g.dtype.kind != w.dtype.kind or g.dtype.itemsize != w.dtype.itemsize:
        return False, 'dtype %s != %s' % (g.dtype, w.dtype)
    if g.dtype.kind == 'f':
        if not np.array_equal(g, w, equal_nan=True):
            return False, 'values differ'
        if not np.array_equal(np.signbit(g), np.signbit(w)):
            return False, 'sign of zero/NaN differs'
        return True, ''
    return bool(np.array_equal(g, w)), 'values differ'


def decode(v):
    if isinstance(v, bytes):
        return v.decode('utf-8')
    return v


def outside_s64_ascii(s):
    """The necessary condition of the known string-array mechanism: an element that does not fit a
    64-byte ASCII field."""
    try:
        b = s.encode('ascii')
    except UnicodeEncodeError:
        return True
    return len(b) > 64


# ----------------------------------------------------------- model worlds (c)
T_KINDS = ['isothermal', 'guillot', 'npoint', 'rodgers', 'temparray']
GAS_KINDS = ['constant', 'twolayer', 'twopoint', 'power', 'array']
CONTRIBS = ['CIA', 'Rayleigh', 'SimpleClouds', 'FlatMie', 'LeeMie', 'HydrogenIon']


# Conditions under which the unchanged tree is known not to round-trip (each is exercised by its own stratum
# of the 'models_known' workload and never by the main 'models' workload, so that the main workload stays a
# sharp detector for everything else).
KNOWN_BAD = ['twopoint-gas', 'array-pressure', 'chemistry-file', 'powergas-defaults', 'guillot-T_int',
             'temperature-array', 'new-path-method', 'temperature-file', 'pressure-file']


def rnd_model_spec(rng, force=None, stratum=None):
    """A world (vmon.world spec) extended by every built-in component class and non-default constructor values.
    ``stratum`` None: free draw; 'safe': none of KNOWN_BAD; one of KNOWN_BAD: exactly that condition."""
    for _ in range(200):
        spec = _rnd_model_spec(rng, force)
        if stratum is None:
            return spec
        conds = bad_conditions(spec)
        if stratum == 'safe':
            want = set()
        else:
            want = {stratum}
            _impose(spec, stratum, rng)
            conds = bad_conditions(spec)
        conds = make_safe(spec, conds - want)
        if conds == want:
            return spec
    raise RuntimeError('could not draw a model spec for stratum %r' % (stratum,))


def bad_conditions(spec):
    c = set()
    kinds = [g['kind'] for g in spec['gases']]
    if 'twopoint' in kinds:
        c.add('twopoint-gas')
    if spec['pressure'] == 'array':
        c.add('array-pressure')
    if spec['pressure'] == 'file':
        c.add('pressure-file')
    if spec['temperature']['kind'] == 'tempfile':
        c.add('temperature-file')
    if spec['chemistry'] == 'file':
        c.add('chemistry-file')
    if any(g['kind'] == 'power' and g['defaults'] for g in spec['gases']):
        c.add('powergas-defaults')
    if spec['temperature']['kind'] == 'guillot' and spec['temperature']['T_int'] != 100:
        c.add('guillot-T_int')
    if spec['temperature']['kind'] == 'temparray':
        c.add('temperature-array')
    if spec['model'] == 'transmission' and spec['new_path_method']:
        c.add('new-path-method')
    return c


def make_safe(spec, remove):
    """Remove the given known-bad conditions from a spec by the smallest change; returns what is left."""
    for g in spec['gases']:
        if 'twopoint-gas' in remove and g['kind'] == 'twopoint':
            g.update(kind='constant', mix=g['surface'])
        if 'powergas-defaults' in remove and g['kind'] == 'power':
            g['defaults'] = False
    if 'array-pressure' in remove or 'pressure-file' in remove:
        spec['pressure'] = 'simple'
    if 'temperature-file' in remove:
        spec['temperature'] = {'kind': 'isothermal', 'T': float(np.mean(spec['temperature']['tp_array']))}
    if 'chemistry-file' in remove:
        spec['chemistry'] = 'taurex'
    if 'guillot-T_int' in remove:
        spec['temperature']['T_int'] = 100
    if 'temperature-array' in remove:
        spec['temperature'] = {'kind': 'isothermal', 'T': float(np.mean(spec['temperature']['tp_array']))}
    if 'new-path-method' in remove:
        spec['new_path_method'] = False
    return bad_conditions(spec)


def _impose(spec, cond, rng):
    g0 = spec['gases'][0]
    if cond == 'twopoint-gas':
        g0.update(kind='twopoint', surface=float(10 ** rng.uniform(-9, -2)), top=float(10 ** rng.uniform(-9, -2)))
    elif cond == 'powergas-defaults':
        g0.update(kind='power', profile_type=['H2O', 'TiO', 'Na'][rng.integers(0, 3)], surface=1e-4, alpha=1.0, beta=1e4,
                  gamma=10.0, defaults=True)
    elif cond == 'array-pressure':
        spec['pressure'] = 'array'
    elif cond == 'chemistry-file':
        spec['chemistry'] = 'file'
    elif cond == 'guillot-T_int':
        spec['temperature'] = {'kind': 'guillot', 'T_irr': float(rng.uniform(600, 2000)), 'kappa_irr': 0.01,
                               'kappa_v1': 0.005, 'kappa_v2': 0.005, 'alpha': 0.5, 'T_int': float(rng.uniform(150, 600))}
    elif cond == 'temperature-array':
        spec['temperature'] = {'kind': 'temparray', 'tp_array': [float(v) for v in np.sort(rng.uniform(300, 2000, 4))[::-1]],
                               'reverse': bool(rng.random() < 0.4), 'p_points': None}
        if rng.random() < 0.4:
            spec['temperature']['p_points'] = [float(v) for v in np.logspace(np.log10(spec['pmax']), np.log10(spec['pmin']), 4)]
    elif cond == 'temperature-file':
        spec['temperature'] = {'kind': 'tempfile', 'tp_array': [float(v) for v in np.sort(rng.uniform(300, 2000, 5))[::-1]],
                               'with_pressure': bool(rng.random() < 0.5)}
    elif cond == 'pressure-file':
        spec['pressure'] = 'file'
    elif cond == 'new-path-method':
        spec['model'] = 'transmission'
        spec['new_path_method'] = True


def _rnd_model_spec(rng, force=None):
    from vmon import world
    force = force or {}
    spec = world.random_world_spec(rng, nlayers=int(rng.choice([3, 5, 8, 12])), magnitude=['thin', 'mixed'][rng.integers(0, 2)],
                                   n_active=int(rng.integers(1, 3)), nwn=int(rng.integers(4, 16)), tkind='isothermal',
                                   gas_kinds=['constant'], n_inactive_trace=0)
    # keep the atmosphere compact and bound: heavy planet, moderate temperatures
    spec['planet_mass'] = float(rng.uniform(0.5, 5.0))
    spec['planet_radius'] = float(rng.uniform(0.5, 1.5))
    nl = spec['nlayers']
    spec['model'] = force.get('model') or ['transmission', 'emission', 'directimage'][rng.integers(0, 3)]
    spec['ngauss'] = int(rng.integers(2, 7))
    spec['new_path_method'] = bool(rng.random() < 0.4)
    spec['planet_kw'] = {'planet_distance': float(rng.uniform(0.01, 5)), 'impact_param': float(rng.uniform(0, 1)),
                         'orbital_period': float(rng.uniform(0.5, 50)), 'albedo': float(rng.uniform(0, 1)),
                         'transit_time': float(rng.uniform(500, 20000))}
    if rng.random() < 0.3:
        spec['planet_kw']['planet_sma'] = float(rng.uniform(0.01, 5))
    spec['star_kw'] = {'mass': float(rng.uniform(0.1, 3)), 'metallicity': float(rng.uniform(0.1, 3)),
                       'magnitudeK': float(rng.uniform(3, 15))}
    # temperature
    tk = force.get('T') or T_KINDS[rng.integers(0, len(T_KINDS))]
    if tk == 'isothermal':
        t = {'kind': tk, 'T': float(rng.uniform(300, 2000))}
    elif tk == 'guillot':
        t = {'kind': tk, 'T_irr': float(rng.uniform(600, 2000)), 'kappa_irr': float(10 ** rng.uniform(-3, -1)),
             'kappa_v1': float(10 ** rng.uniform(-3, -1)), 'kappa_v2': float(10 ** rng.uniform(-3, -1)),
             'alpha': float(rng.uniform(0.05, 0.95)), 'T_int': float(rng.uniform(50, 600))}
    elif tk == 'npoint':
        n = int(rng.integers(0, 3))
        lp0, lp1 = np.log10(spec['pmin']), np.log10(spec['pmax'])
        d = (lp1 - lp0) / nl / 2.0
        fr = sorted(float(v) for v in rng.uniform(0.1, 0.9, n))
        t = {'kind': tk, 'T_surface': float(rng.uniform(800, 2000)), 'T_top': float(rng.uniform(300, 1500)),
             'temperature_points': [float(v) for v in rng.uniform(300, 2000, n)],
             'pressure_points': [float(10 ** ((lp1 - d) + f * ((lp0 + d) - (lp1 - d)))) for f in fr],
             'smoothing_window': int(rng.choice([1, 3, 5, 10])), 'limit_slope': [9999999, 9999999, 5000][rng.integers(0, 3)],
             'P_surface': None if rng.random() < 0.6 else float(spec['pmax'] * rng.uniform(0.9, 1.0)),
             'P_top': None if rng.random() < 0.6 else float(spec['pmin'] * rng.uniform(1.0, 1.1))}
    elif tk == 'rodgers':
        t = {'kind': tk, 'temperature_layers': [float(v) for v in rng.uniform(400, 2000, nl)],
             'correlation_length': float(rng.uniform(0.5, 10)),
             'covariance': None if rng.random() < 0.6 else 'given'}
    else:
        n = int(rng.integers(2, 8)) if rng.random() < 0.7 else nl
        t = {'kind': tk, 'tp_array': [float(v) for v in np.sort(rng.uniform(300, 2000, n))[::-1]],
             'reverse': bool(rng.random() < 0.3), 'p_points': None}
        if rng.random() < 0.3:
            t['p_points'] = [float(v) for v in np.logspace(np.log10(spec['pmax']), np.log10(spec['pmin']), n)]
    spec['temperature'] = t
    # pressure
    spec['pressure'] = force.get('P') or ['simple', 'simple', 'array'][rng.integers(0, 3)]
    spec['pressure_reverse'] = bool(rng.random() < 0.3)
    # gases: one profile class per active molecule + optional inactive trace gases
    gases = []
    hi = -1.5
    mols = list(spec['tables'])
    extra = []
    if rng.random() < 0.5:
        extra.append(['N2', 'O2', 'Ar'][rng.integers(0, 3)])
    wants_hm = 'HydrogenIon' in (force.get('contribs') or []) or rng.random() < 0.2
    if wants_hm:
        extra += ['H', 'e-']
    for k, m in enumerate(mols + extra):
        gk = (force.get('gas') if (force.get('gas') and k == 0) else GAS_KINDS[rng.integers(0, len(GAS_KINDS))])
        if gk == 'constant':
            g = {'kind': gk, 'mol': m, 'mix': float(10 ** rng.uniform(-9, hi))}
        elif gk == 'twolayer':
            lp = np.log10(spec['pmax']) + rng.uniform(0.15, 0.85) * (np.log10(spec['pmin']) - np.log10(spec['pmax']))
            g = {'kind': gk, 'mol': m, 'surface': float(10 ** rng.uniform(-9, hi)), 'top': float(10 ** rng.uniform(-9, hi)),
                 'P': float(10 ** lp), 'smoothing': int(rng.choice([1, 3, 5, 10]))}
        elif gk == 'twopoint':
            g = {'kind': gk, 'mol': m, 'surface': float(10 ** rng.uniform(-9, hi)), 'top': float(10 ** rng.uniform(-9, hi))}
        elif gk == 'power':
            g = {'kind': gk, 'mol': m, 'profile_type': ['auto', 'H2O', 'TiO', 'Na'][rng.integers(0, 4)],
                 'surface': float(10 ** rng.uniform(-9, hi)), 'alpha': float(rng.uniform(0.5, 2)),
                 'beta': float(rng.uniform(-1e3, 5e4)), 'gamma': float(rng.uniform(5, 25)),
                 'defaults': bool(rng.random() < 0.25)}
            if g['profile_type'] == 'auto' and m not in ('H2', 'H2O', 'TiO', 'VO', 'H-', 'Na', 'K'):
                g['defaults'] = False
        else:
            g = {'kind': gk, 'mol': m, 'mix': [float(v) for v in 10 ** rng.uniform(-9, hi, int(rng.integers(2, 6)))]}
        gases.append(g)
    spec['gases'] = gases
    spec['chemistry'] = force.get('chem') or ('taurex' if rng.random() < 0.85 else 'file')
    nf = int(rng.integers(1, 4))
    spec['fill_gases'] = ['H2', 'He', 'Ne'][:nf]
    spec['fill_ratio'] = [float(10 ** rng.uniform(-2, -0.3)) for _ in range(nf - 1)]
    # contributions
    chosen = [str(x) for x in rng.choice(CONTRIBS[:5], int(rng.integers(0, 4)), replace=False)]
    if wants_hm:
        chosen.append('HydrogenIon')
    for c in force.get('contribs') or []:
        if c not in chosen:
            chosen.append(c)
    lp0, lp1 = np.log10(spec['pmin']), np.log10(spec['pmax'])
    out = ['Absorption']
    for n in chosen:
        if n == 'CIA':
            out.append({'name': 'CIA', 'cia_pairs': ['H2-H2'] + (['H2-He'] if nf > 1 and rng.random() < 0.6 else [])})
        elif n == 'SimpleClouds':
            out.append({'name': n, 'clouds_pressure': float(10 ** rng.uniform(lp0, lp1))})
        elif n == 'FlatMie':
            out.append({'name': n, 'flat_mix_ratio': float(10 ** rng.uniform(-34, -28)),
                        'flat_bottomP': -1 if rng.random() < 0.3 else float(10 ** rng.uniform((lp0 + lp1) / 2, lp1)),
                        'flat_topP': -1 if rng.random() < 0.3 else float(10 ** rng.uniform(lp0, (lp0 + lp1) / 2))})
        elif n == 'LeeMie':
            out.append({'name': n, 'lee_mie_radius': float(10 ** rng.uniform(-2, 0.3)), 'lee_mie_q': float(rng.uniform(5, 80)),
                        'lee_mie_mix_ratio': float(10 ** rng.uniform(-14, -9)),
                        'lee_mie_bottomP': -1 if rng.random() < 0.3 else float(10 ** rng.uniform((lp0 + lp1) / 2, lp1)),
                        'lee_mie_topP': -1 if rng.random() < 0.3 else float(10 ** rng.uniform(lp0, (lp0 + lp1) / 2))})
        else:
            out.append(n)
    spec['contributions'] = out
    spec['cia_seed'] = int(rng.integers(0, 2 ** 31))
    return spec


def build_full_model(spec, scratch):
    """All components through their public constructors; returns the (unbuilt) model."""
    from taurex.data import Planet
    from taurex.data.stellar import BlackbodyStar
    import os
    from taurex.data.profiles.pressure import SimplePressureProfile, ArrayPressureProfile, FilePressureProfile
    from taurex.data.profiles.temperature import TemperatureFile
    from taurex.data.profiles.temperature import Isothermal, NPoint, Guillot2010, Rodgers2000
    from taurex.data.profiles.temperature.temparray import TemperatureArray
    from taurex.data.profiles.chemistry import TaurexChemistry, ConstantGas, TwoLayerGas, PowerGas, ChemistryFile
    from taurex.data.profiles.chemistry.gas.twopointgas import TwoPointGas
    from taurex.data.profiles.chemistry.gas.arraygas import ArrayGas
    from taurex.model import TransmissionModel, EmissionModel, DirectImageModel
    from vmon import world
    nl = spec['nlayers']
    planet = Planet(planet_mass=spec['planet_mass'], planet_radius=spec['planet_radius'], **spec['planet_kw'])
    star = BlackbodyStar(temperature=spec['star_T'], radius=spec['star_radius'], distance=spec['star_distance'],
                         **spec['star_kw'])
    levels = np.logspace(np.log10(spec['pmin']), np.log10(spec['pmax']), nl + 1)[::-1]
    layer_p = levels[:-1] * np.sqrt(levels[1:] / levels[:-1])
    if spec['pressure'] == 'simple':
        pressure = SimplePressureProfile(nlayers=nl, atm_min_pressure=spec['pmin'], atm_max_pressure=spec['pmax'])
    elif spec['pressure'] == 'file':
        fn = os.path.join(scratch, 'pressure_%d.dat' % spec['cia_seed'])
        np.savetxt(fn, layer_p, fmt='%.17e')
        pressure = FilePressureProfile(filename=fn)
    else:
        arr = layer_p[::-1].copy() if spec['pressure_reverse'] else layer_p.copy()
        pressure = ArrayPressureProfile(arr, reverse=spec['pressure_reverse'])
    t = spec['temperature']
    if t['kind'] == 'isothermal':
        temp = Isothermal(T=t['T'])
    elif t['kind'] == 'guillot':
        temp = Guillot2010(T_irr=t['T_irr'], kappa_irr=t['kappa_irr'], kappa_v1=t['kappa_v1'], kappa_v2=t['kappa_v2'],
                           alpha=t['alpha'], T_int=t['T_int'])
    elif t['kind'] == 'npoint':
        temp = NPoint(T_surface=t['T_surface'], T_top=t['T_top'], P_surface=t['P_surface'], P_top=t['P_top'],
                      temperature_points=list(t['temperature_points']), pressure_points=list(t['pressure_points']),
                      smoothing_window=t['smoothing_window'], limit_slope=t['limit_slope'])
    elif t['kind'] == 'rodgers':
        cov = None
        if t['covariance'] == 'given':
            h = t['correlation_length'] * 1.7
            cov = np.exp(-1.0 * np.abs(np.log(layer_p[:, None] / layer_p[None, :])) / h)
        temp = Rodgers2000(temperature_layers=list(t['temperature_layers']), correlation_length=t['correlation_length'],
                           covariance_matrix=cov)
    elif t['kind'] == 'tempfile':
        fn = os.path.join(scratch, 'temperature_%d.dat' % spec['cia_seed'])
        tp = np.array(t['tp_array'])
        if t['with_pressure']:
            pp = np.logspace(np.log10(spec['pmax']), np.log10(spec['pmin']), len(tp))
            np.savetxt(fn, np.column_stack([pp, tp]), fmt='%.17e')
            temp = TemperatureFile(filename=fn, temp_col=1, press_col=0)
        else:
            np.savetxt(fn, tp, fmt='%.17e')
            temp = TemperatureFile(filename=fn)
    else:
        temp = TemperatureArray(tp_array=list(t['tp_array']), p_points=t['p_points'], reverse=t['reverse'])
    gases = []
    for g in spec['gases']:
        k = g['kind']
        if k == 'constant':
            gases.append(ConstantGas(g['mol'], mix_ratio=g['mix']))
        elif k == 'twolayer':
            gases.append(TwoLayerGas(g['mol'], mix_ratio_surface=g['surface'], mix_ratio_top=g['top'], mix_ratio_P=g['P'],
                                     mix_ratio_smoothing=g['smoothing']))
        elif k == 'twopoint':
            gases.append(TwoPointGas(g['mol'], mix_ratio_surface=g['surface'], mix_ratio_top=g['top']))
        elif k == 'power':
            if g['defaults']:
                gases.append(PowerGas(g['mol'], profile_type=g['profile_type']))
            else:
                gases.append(PowerGas(g['mol'], profile_type=g['profile_type'], mix_ratio_surface=g['surface'],
                                      alpha=g['alpha'], beta=g['beta'], gamma=g['gamma']))
        else:
            gases.append(ArrayGas(g['mol'], mix_ratio_array=list(g['mix'])))
    if spec['chemistry'] == 'taurex':
        ratio = list(spec['fill_ratio'])
        chem = TaurexChemistry(fill_gases=list(spec['fill_gases']), ratio=ratio if len(ratio) != 1 else ratio[0])
        for g in gases:
            chem.addGas(g)
    else:
        fills = list(spec['fill_gases'])
        names = [g['mol'] for g in spec['gases']] + fills
        rows = []
        for g in gases:
            g.initialize_profile(nl, np.full(nl, 1000.0), layer_p, np.linspace(0, 1e6, nl))
            rows.append(np.asarray(g.mixProfile, dtype=float))
        rest = 1.0 - np.sum(rows, axis=0)
        share = np.array([1.0] + list(spec['fill_ratio']))
        for sh in share / share.sum():
            rows.append(rest * sh)
        fn = os.path.join(scratch, 'chem_%d.dat' % spec['cia_seed'])
        np.savetxt(fn, np.array(rows).T, fmt='%.17e')
        chem = ChemistryFile(gases=names, filename=fn)
    kw = {}
    klass = {'transmission': TransmissionModel, 'emission': EmissionModel, 'directimage': DirectImageModel}[spec['model']]
    if spec['model'] == 'transmission':
        kw['new_path_method'] = spec['new_path_method']
    else:
        kw['ngauss'] = spec['ngauss']
    model = klass(planet=planet, star=star, pressure_profile=pressure, temperature_profile=temp, chemistry=chem, **kw)
    world.add_contributions(model, spec)
    return model


def component_classes(model):
    """Class names of every component of a model, in a comparable form."""
    chem = model.chemistry
    gases = sorted((g.molecule, type(g).__name__) for g in (getattr(chem, '_gases', None) or [])
                   if hasattr(g, 'molecule'))
    return {
        'model': type(model).__name__, 'planet': type(model.planet).__name__, 'star': type(model.star).__name__,
        'temperature': type(model.temperature).__name__, 'pressure': type(model.pressure).__name__,
        'chemistry': type(chem).__name__, 'gases': gases,
        'contributions': sorted(type(c).__name__ for c in model.contribution_list),
    }


def parameter_values(model):
    """{name: value} over all fitting-parameter getters of the (built) model."""
    out = {}
    for name, p in model.fittingParameters.items():
        out[name] = p[2]()
    return out
