"""Synthetic worlds: small, fully controlled physical set-ups that are loaded
through the real loaders / caches and built through the public API.

Everything random comes from the ``rng`` handed in (numpy Generator), so a
case is replayable from (seed, workload, shard, index).
"""
import os
import pickle

import numpy as np

ACTIVE_POOL = ['H2O', 'CH4', 'CO2', 'CO', 'NH3', 'HCN', 'TiO', 'C2H2']
INACTIVE_TRACE_POOL = ['N2', 'O2', 'Ar']
MAGNITUDES = {
    'transparent': None,
    'thin': (-40.0, -26.0),
    'mixed': (-30.0, -16.0),
    'saturating': (-18.0, 0.0),
}


# ----------------------------------------------------------------- caches
def reset_caches():
    from taurex.cache import OpacityCache, CIACache, GlobalCache
    from taurex.cache.ktablecache import KTableCache
    OpacityCache().clear_cache()
    OpacityCache()._force_active = []
    CIACache().cia_dict = {}
    CIACache()._cia_path = None
    KTableCache().clear_cache()
    g = GlobalCache()
    g.variable_dict.clear()
    return g


# ------------------------------------------------------- in-memory opacities
def _publish(cls):
    """Make a lazily defined harness class reachable by name, so that objects holding one can be pickled."""
    cls.__module__, cls.__qualname__ = __name__, cls.__name__
    globals()[cls.__name__] = cls
    return cls


_classes = {}


def fake_opacity_class():
    if 'opacity' in _classes:
        return _classes['opacity']
    from taurex.opacity import InterpolatingOpacity

    class FakeOpacity(InterpolatingOpacity):
        """Harness-defined in-memory cross-section (the route the repo's tests use)."""

        def __init__(self, molecule, wn, T, P_pa, xsec_cm2, interpolation_mode='linear'):
            super().__init__('Fake:' + molecule, interpolation_mode=interpolation_mode)
            self._mol = molecule
            self._wn = np.asarray(wn) if np.asarray(wn).dtype.kind == 'i' else np.asarray(wn, dtype=float)
            self._T = np.asarray(T, dtype=float)
            self._P = np.asarray(P_pa, dtype=float)
            self._x = np.asarray(xsec_cm2, dtype=float)

        @property
        def moleculeName(self):
            return self._mol

        @property
        def xsecGrid(self):
            return self._x

        @property
        def wavenumberGrid(self):
            return self._wn

        @property
        def temperatureGrid(self):
            return self._T

        @property
        def pressureGrid(self):
            return self._P

        @property
        def resolution(self):
            return float(np.mean(np.diff(self._wn)))
    _classes['opacity'] = _publish(FakeOpacity)
    return FakeOpacity


def fake_cia_class():
    if 'cia' in _classes:
        return _classes['cia']
    from taurex.cia import CIA

    class FakeCIA(CIA):
        def __init__(self, pair, wn, T, xsec):
            super().__init__('FakeCIA:' + pair, pair)
            self._wn = np.asarray(wn) if np.asarray(wn).dtype.kind == 'i' else np.asarray(wn, dtype=float)
            self._T = np.asarray(T, dtype=float)
            self._x = np.asarray(xsec, dtype=float)      # (nT, nwn)   m^5

        @property
        def wavenumberGrid(self):
            return self._wn

        @property
        def temperatureGrid(self):
            return self._T

        def compute_cia(self, temperature):
            if temperature < self._T[0] or temperature > self._T[-1]:
                return np.zeros_like(self._wn)
            out = np.empty_like(self._wn)
            for i in range(self._wn.shape[0]):
                out[i] = np.interp(temperature, self._T, self._x[:, i])
            return out
    _classes['cia'] = _publish(FakeCIA)
    return FakeCIA


# ------------------------------------------------------------ copies of live objects
CLONE_ROUTES = ('deepcopy', 'pickle', 'copy')


def clone(obj, how):
    """A copy of a live object by one of the standard routes (what multiprocessing samplers, notebooks keeping
    a reference model, and ``copy.deepcopy(model)`` before a parameter scan do)."""
    import copy
    if how == 'deepcopy':
        return copy.deepcopy(obj)
    if how == 'pickle':
        return pickle.loads(pickle.dumps(obj))
    if how == 'pickle2':
        return pickle.loads(pickle.dumps(obj, protocol=2))
    if how == 'copy':
        return copy.copy(obj)
    raise ValueError(how)


# ------------------------------------------------------------------ tables
def wn_grid(rng, n, kind=None, lo=None, hi=None):
    kind = kind or ['linear', 'log', 'irregular'][rng.integers(0, 3)]
    lo = lo if lo is not None else float(10 ** rng.uniform(2.0, 3.3))
    hi = hi if hi is not None else lo * float(10 ** rng.uniform(0.2, 1.3))
    if kind == 'linear':
        g = np.linspace(lo, hi, n)
    elif kind == 'log':
        g = np.logspace(np.log10(lo), np.log10(hi), n)
    else:
        g = np.sort(rng.uniform(lo, hi, n))
        g[0], g[-1] = lo, hi
        for i in range(1, n):      # strictly increasing
            if g[i] <= g[i - 1]:
                g[i] = np.nextafter(g[i - 1], np.inf) + 1e-6 * (hi - lo)
    if rng.random() < 0.06 and hi - lo > 4 * n:
        # a wavenumber axis built with np.arange(...) / typed as whole numbers: integer dtype, passed through as it is
        gi = np.unique(np.round(g)).astype(np.int64)
        if len(gi) == n:
            return gi
    return g


def make_table(rng, magnitude, nP, nT, wn, structure=True, allow_zero=True):
    """Cross-sections in cm^2, shape (nP, nT, nwn); T ascending [K]; P ascending [Pa]."""
    T = np.sort(rng.uniform(80, 3500, nT))
    for i in range(1, nT):
        if T[i] - T[i - 1] < 5:
            T[i] = T[i - 1] + 5 + rng.uniform(0, 50)
    lo = rng.uniform(-3, 2)
    P = 10 ** np.sort(np.linspace(lo, lo + rng.uniform(3, 9), nP) + rng.uniform(-0.3, 0.3, nP))
    for i in range(1, nP):
        if P[i] <= P[i - 1] * 1.01:
            P[i] = P[i - 1] * 1.5
    nwn = len(wn)
    if MAGNITUDES[magnitude] is None:
        x = np.zeros((nP, nT, nwn)) if (rng.random() < 0.5 and allow_zero) else np.full((nP, nT, nwn), 1e-60)
    else:
        a, b = MAGNITUDES[magnitude]
        base = rng.uniform(a, b, (1, 1, nwn)) if structure else np.full((1, 1, nwn), rng.uniform(a, b))
        x = 10 ** np.clip(base + rng.normal(0, 0.7, (nP, nT, nwn)), a, b)
    return T, P, x


# ------------------------------------------------------------ file writers
def write_pickle_xsec(path, wn, T, P_pa, xsec_cm2):
    with open(path, 'wb') as fh:
        pickle.dump({'wno': np.asarray(wn), 't': np.asarray(T), 'p': np.asarray(P_pa) / 1e5,
                     'xsecarr': np.asarray(xsec_cm2)}, fh)


def write_pickle_ktable(path, name, wn, T, P_pa, kcoeff, weights):
    with open(path, 'wb') as fh:
        pickle.dump({'bin_centers': np.asarray(wn), 't': np.asarray(T), 'p': np.asarray(P_pa) / 1e5,
                     'kcoeff': np.asarray(kcoeff), 'weights': np.asarray(weights),
                     'ngauss': len(weights), 'name': name,
                     'bin_edges': np.asarray(wn)}, fh)


# ------------------------------------------------------------------ worlds
class World:
    """A fully specified atmosphere + opacity set, built through the public API."""

    def __init__(self):
        self.spec = {}
        self.model = None
        self.opacities = {}
        self.cias = {}


def random_planet_star(rng):
    spec = {
        'planet_mass': float(10 ** rng.uniform(np.log10(0.05), 1.0)),
        'planet_radius': float(rng.uniform(0.1, 2.0)),
        'star_T': float(rng.uniform(2500, 10000)),
        'star_radius': float(rng.uniform(0.1, 3.0)),
        'star_distance': float(10 ** rng.uniform(-0.5, 2.5)),
    }
    return spec


def random_temperature(rng, kind=None, tmin=150.0, tmax=3000.0, scaled=None):
    t = _random_temperature(rng, kind, tmin, tmax)
    if (rng.random() < 0.12) if scaled is None else scaled:
        # the shipped TempScaler mixin on top of the profile class (``profile_type = tempscalar+<class>``)
        t['scale'] = float(rng.uniform(0.6, 1.5))
    return t


def _random_temperature(rng, kind=None, tmin=150.0, tmax=3000.0):
    kind = kind or ['isothermal', 'npoint', 'guillot', 'array'][rng.integers(0, 4)]
    if kind == 'isothermal':
        return {'kind': 'isothermal', 'T': float(rng.uniform(tmin, tmax))}
    if kind == 'npoint':
        n = int(rng.integers(0, 3))
        return {'kind': 'npoint', 'T_surface': float(rng.uniform(tmin, tmax)), 'T_top': float(rng.uniform(tmin, tmax)),
                'temperature_points': [float(v) for v in rng.uniform(tmin, tmax, n)],
                # nodes at least 5 % of the pressure range apart (coinciding nodes are a licensed 'excessive slope' rejection)
                'frac_points': [float(v) for v in (np.sort(rng.uniform(0.1, 0.8, n)) + 0.05 * np.arange(n))],
                'smoothing_window': int(rng.choice([1, 5, 10, 30]))}
    if kind == 'guillot':
        return {'kind': 'guillot', 'T_irr': float(rng.uniform(500, 2500)), 'kappa_irr': float(10 ** rng.uniform(-3, -1)),
                'kappa_v1': float(10 ** rng.uniform(-3, -1)), 'kappa_v2': float(10 ** rng.uniform(-3, -1)),
                'alpha': float(rng.uniform(0, 1)), 'T_int': float(rng.uniform(50, 500))}
    if kind == 'array':
        n = int(rng.integers(2, 8))
        shape = rng.integers(0, 4)
        t = rng.uniform(tmin, tmax, n)
        if shape == 0:
            t = np.sort(t)[::-1]           # monotone, hot at the bottom
        elif shape == 1:
            t = np.sort(t)                 # inverted
        elif shape == 2:
            t = np.full(n, t[0])
            t[rng.integers(0, n)] = tmax   # hot spike
        return {'kind': 'array', 'tp_array': [float(v) for v in t]}
    raise ValueError(kind)


def build_temperature(tspec, pmin, pmax, nlayers=None):
    from taurex.data.profiles.temperature import Isothermal, NPoint, Guillot2010
    from taurex.data.profiles.temperature.temparray import TemperatureArray
    k = tspec['kind']
    if tspec.get('scale') is not None:
        from taurex.mixin import enhance_class
        from taurex.mixin.mixins import TempScaler

        def make(klass, **kw):
            return enhance_class(klass, TempScaler, scale_factor=tspec['scale'], **kw)
    else:
        def make(klass, **kw):
            return klass(**kw)
    Isothermal, NPoint, Guillot2010, TemperatureArray = [
        (lambda klass: (lambda **kw: make(klass, **kw)))(c) for c in (Isothermal, NPoint, Guillot2010, TemperatureArray)]
    if k == 'isothermal':
        return Isothermal(T=tspec['T'])
    if k == 'npoint':
        # nodes are placed strictly between the bottom and top *layer* pressures (the profile's own end nodes)
        d = (np.log10(pmax) - np.log10(pmin)) / max(nlayers or 1, 1) / 2.0
        hi, lo = np.log10(pmax) - d, np.log10(pmin) + d
        lp = [hi + f * (lo - hi) for f in tspec['frac_points']]
        tpts, ppts = list(tspec['temperature_points']), [float(10 ** v) for v in lp]
        if tspec.get('integer_nodes'):
            # node lists typed as whole numbers (Python ints)
            tpts, ppts = [int(round(v)) for v in tpts], [int(round(v)) for v in ppts]
        return NPoint(T_surface=tspec['T_surface'], T_top=tspec['T_top'], temperature_points=tpts, pressure_points=ppts,
                      smoothing_window=tspec['smoothing_window'])
    if k == 'guillot':
        return Guillot2010(T_irr=tspec['T_irr'], kappa_irr=tspec['kappa_irr'], kappa_v1=tspec['kappa_v1'],
                           kappa_v2=tspec['kappa_v2'], alpha=tspec['alpha'], T_int=tspec['T_int'])
    if k == 'array':
        return TemperatureArray(tp_array=np.array(tspec['tp_array']))
    raise ValueError(k)


def random_gas(rng, mol, kind=None, maxmix=0.2):
    kind = kind or ['constant', 'twolayer', 'twopoint', 'array', 'constant'][rng.integers(0, 5)]
    hi = np.log10(maxmix)
    if kind == 'constant':
        return {'kind': 'constant', 'mol': mol, 'mix': float(10 ** rng.uniform(-10, hi))}
    if kind == 'twolayer':
        return {'kind': 'twolayer', 'mol': mol, 'surface': float(10 ** rng.uniform(-10, hi)),
                'top': float(10 ** rng.uniform(-10, hi)), 'frac_P': float(rng.uniform(0.1, 0.9)),
                'smoothing': int(rng.choice([1, 5, 10, 25]))}
    if kind == 'twopoint':
        return {'kind': 'twopoint', 'mol': mol, 'surface': float(10 ** rng.uniform(-10, hi)),
                'top': float(10 ** rng.uniform(-10, hi))}
    if kind == 'array':
        n = int(rng.integers(2, 6))
        return {'kind': 'array', 'mol': mol, 'mix': [float(v) for v in 10 ** rng.uniform(-10, hi, n)]}
    raise ValueError(kind)


def build_gas(gspec, pmin, pmax):
    from taurex.data.profiles.chemistry import ConstantGas, TwoLayerGas
    from taurex.data.profiles.chemistry.gas.twopointgas import TwoPointGas
    from taurex.data.profiles.chemistry.gas.arraygas import ArrayGas
    k = gspec['kind']
    if k == 'constant':
        return ConstantGas(gspec['mol'], mix_ratio=gspec['mix'])
    if k == 'twolayer':
        lp = np.log10(pmax) + gspec['frac_P'] * (np.log10(pmin) - np.log10(pmax))
        return TwoLayerGas(gspec['mol'], mix_ratio_surface=gspec['surface'], mix_ratio_top=gspec['top'],
                           mix_ratio_P=float(10 ** lp), mix_ratio_smoothing=gspec['smoothing'])
    if k == 'twopoint':
        return TwoPointGas(gspec['mol'], mix_ratio_surface=gspec['surface'], mix_ratio_top=gspec['top'])
    if k == 'array':
        return ArrayGas(gspec['mol'], mix_ratio_array=list(gspec['mix']))
    raise ValueError(k)


def random_world_spec(rng, nlayers=None, magnitude=None, n_active=None, nwn=None, tkind=None,
                      contributions=None, common_grid=True, gas_kinds=None, fill=None, n_inactive_trace=None):
    spec = random_planet_star(rng)
    spec['nlayers'] = int(nlayers if nlayers is not None else rng.choice([2, 3, 5, 7, 13, 30]))
    lpmax = rng.uniform(3.0, 7.0)
    spec['pmax'] = float(10 ** lpmax)
    spec['pmin'] = float(10 ** (lpmax - rng.uniform(2.0, 10.0)))
    spec['temperature'] = random_temperature(rng, tkind)
    spec['magnitude'] = magnitude or list(MAGNITUDES)[rng.integers(0, 4)]
    n_active = int(n_active if n_active is not None else rng.integers(1, 4))
    mols = [str(m) for m in rng.choice(ACTIVE_POOL, n_active, replace=False)]
    nwn = int(nwn if nwn is not None else rng.integers(3, 40))
    wn = wn_grid(rng, nwn)
    # exact zeros are outside the domain of the documented exp-in-1/T formula (ln of a ratio): zero tables
    # are generated for 'linear' interpolation only (C04 keeps zeros-in-exp-mode as an observed-only class)
    spec['interpolation'] = ['linear', 'exp'][rng.integers(0, 2)]
    tables = {}
    for m in mols:
        w = wn if common_grid else wn_grid(rng, int(rng.integers(3, 40)), lo=wn[0] * rng.uniform(0.8, 1.2),
                                           hi=wn[-1] * rng.uniform(0.8, 1.2))
        T, P, x = make_table(rng, spec['magnitude'], int(rng.integers(2, 6)), int(rng.integers(2, 7)), w,
                              allow_zero=spec['interpolation'] == 'linear')
        tables[m] = {'wn': w, 'T': T, 'P': P, 'xsec': x}
    spec['tables'] = tables
    gases = []
    for m in mols:
        gases.append(random_gas(rng, m, kind=None if gas_kinds is None else gas_kinds[rng.integers(0, len(gas_kinds))],
                                maxmix=0.9 / (len(mols) + 2)))
    n_in = int(n_inactive_trace if n_inactive_trace is not None else rng.integers(0, 2))
    for m in rng.choice(INACTIVE_TRACE_POOL, n_in, replace=False):
        gases.append(random_gas(rng, str(m), maxmix=0.9 / (len(mols) + 2)))
    spec['gases'] = gases
    if fill is None:
        nf = int(rng.integers(1, 4))
        fill = ['H2', 'He', 'Ne'][:nf]
    spec['fill_gases'] = list(fill)
    spec['fill_ratio'] = [float(10 ** rng.uniform(-3, 0)) for _ in fill[1:]]
    spec['contributions'] = contributions if contributions is not None else ['Absorption']
    return spec


def make_free_route(rng, spec):
    """Give the world its composition by the other documented route: a chemistry read from a file
    (``chemistry_type = makefree+file``), made free with the shipped MakeFreeMixin -- the main constituents and some of
    the trace gases come from the file, every trace gas of the world is injected with ``addGas`` (those that are in the
    file as well are thereby forced).  The mixture is what the mixin documents: all profiles divided by their sum."""
    n = spec['nlayers']
    fills = list(spec['fill_gases'])
    trace = [g['mol'] for g in spec['gases']]
    forced = [m for m in trace if rng.random() < 0.4]
    file_only = [m for m in INACTIVE_TRACE_POOL + ['CO2', 'H2O'] if m not in trace and m not in fills and rng.random() < 0.25]
    gases = fills + forced + file_only
    cols = {}
    for m in forced + file_only:
        cols[m] = 10 ** rng.uniform(-9, -2) * (np.ones(n) if rng.random() < 0.5 else 10 ** rng.uniform(-1, 0, n))
    ratios = [1.0] + [float(r) for r in spec['fill_ratio']]
    rest = 1.0 - sum(cols.values()) if cols else np.ones(n)
    for m, r in zip(fills, ratios):
        cols[m] = rest * r / sum(ratios)
    spec['makefree'] = {'file_gases': gases, 'table': np.column_stack([cols[m] for m in gases]), 'forced': forced,
                        'file_only': file_only}
    return spec


def build_makefree_chemistry(spec):
    import tempfile
    from taurex.mixin import enhance_class, MakeFreeMixin
    from taurex.data.profiles.chemistry import ChemistryFile
    mf = spec['makefree']
    fd, fn = tempfile.mkstemp(suffix='.dat', prefix='vmon_chem_')
    os.close(fd)
    try:
        np.savetxt(fn, mf['table'], fmt='%.17e')
        chem = enhance_class(ChemistryFile, MakeFreeMixin, gases=list(mf['file_gases']), filename=fn)
    finally:
        os.remove(fn)
    for g in spec['gases']:
        chem.addGas(build_gas(g, spec['pmin'], spec['pmax']))
    return chem


def makefree_reference(spec, nlayers, T, P, altitude=None, gases=None):
    """{molecule: mixing ratio per layer} of a makefree world, from the file table and freshly built gas profiles."""
    mf = spec['makefree']
    X = {m: np.array(mf['table'][:, i], dtype=float) for i, m in enumerate(mf['file_gases'])}
    for g in (spec['gases'] if gases is None else gases):
        o = build_gas(g, spec['pmin'], spec['pmax'])
        o.initialize_profile(nlayers, T, P, altitude)
        X[g['mol']] = np.array(o.mixProfile, dtype=float) * np.ones(nlayers)
    tot = sum(X.values())
    return {m: v / tot for m, v in X.items()}


def install_opacities(spec, scale=1.0):
    """Register the world's tables as in-memory opacities; returns {mol: opacity object}."""
    from taurex.cache import OpacityCache
    Fake = fake_opacity_class()
    out = {}
    for m, t in spec['tables'].items():
        op = Fake(m, t['wn'], t['T'], t['P'], t['xsec'] * scale, interpolation_mode=spec.get('interpolation', 'linear'))
        OpacityCache().add_opacity(op)
        out[m] = op
    return out


def build_model(spec, kind='transmission', share=None, **model_kw):
    """Build planet/star/profiles/chemistry/model through the public constructors.  share: {'star': obj, 'planet': obj}
    -- component objects of ANOTHER live model that this one uses as well (one object, two owners)."""
    from taurex.data import Planet
    from taurex.data.stellar import BlackbodyStar
    from taurex.data.profiles.pressure import SimplePressureProfile
    from taurex.data.profiles.chemistry import TaurexChemistry
    from taurex.model import TransmissionModel, EmissionModel, DirectImageModel
    planet = Planet(planet_mass=spec['planet_mass'], planet_radius=spec['planet_radius'])
    star = BlackbodyStar(temperature=spec['star_T'], radius=spec['star_radius'],
                         distance=spec.get('star_distance', 1.0))
    if share:
        planet = share.get('planet', planet)
        star = share.get('star', star)
    p_array = None
    if spec.get('pressure_route') == 'array' and spec['nlayers'] >= 2:
        # the layer pressures as the caller's OWN array (``pressure_profile_type = array``); ArrayPressureProfile works on
        # the array it was given, so a caller who refills it in place moves the model's grid (see move_pressure_range)
        from taurex.data.profiles.pressure import ArrayPressureProfile
        p_array = layer_pressures(spec['pmax'], spec['pmin'], spec['nlayers'])
        if spec.get('pressure_dtype'):
            # the caller's array in another representation (whole pascals as integers, single precision)
            q_ = np.round(p_array).astype(spec['pressure_dtype']) if 'int' in spec['pressure_dtype'] else p_array.astype(spec['pressure_dtype'])
            if np.all(np.diff(q_.astype(float)) < 0) and float(q_[-1]) >= 1:
                p_array = q_
        pressure = ArrayPressureProfile(p_array)
    else:
        pressure = SimplePressureProfile(nlayers=spec['nlayers'], atm_min_pressure=spec['pmin'],
                                         atm_max_pressure=spec['pmax'])
    temperature = build_temperature(spec['temperature'], spec['pmin'], spec['pmax'], spec['nlayers'])
    if spec.get('makefree'):
        chem = build_makefree_chemistry(spec)
    else:
        ratio = list(spec['fill_ratio'])
        chem = TaurexChemistry(fill_gases=list(spec['fill_gases']), ratio=ratio if len(ratio) != 1 else ratio[0])
        for g in spec['gases']:
            chem.addGas(build_gas(g, spec['pmin'], spec['pmax']))
    klass = {'transmission': TransmissionModel, 'emission': EmissionModel, 'directimage': DirectImageModel}[kind]
    model = klass(planet=planet, star=star, pressure_profile=pressure, temperature_profile=temperature,
                  chemistry=chem, **model_kw)
    if p_array is not None:
        model._vmon_P_array = p_array
    return model


def layer_pressures(pmax, pmin, n):
    lev = 10 ** np.linspace(np.log10(pmax), np.log10(pmin), n + 1)
    return np.sqrt(lev[:-1] * lev[1:])


def move_pressure_range(model, pmax, pmin):
    """The model's pressure range is changed by the route its pressure profile offers: the fitting parameters of the
    standard profile, or -- for a profile built on the caller's array -- by refilling that array IN PLACE."""
    arr = getattr(model, '_vmon_P_array', None)
    if arr is not None:
        arr[...] = layer_pressures(pmax, pmin, len(arr))
        return 'array-refilled-in-place'
    model['atm_max_pressure'] = pmax
    model['atm_min_pressure'] = pmin
    return 'fitting-parameters'


def is_bound(spec, max_height_in_radii=2.0):
    """True when the hydrostatic atmosphere of the world is finite and below max_height*Rp.

    Hot, light, low-gravity set-ups give a runaway (infinite) altitude scale; they are outside every
    property's quantifier ('atmospheres') and are re-drawn by the generators."""
    from taurex.exceptions import InvalidModelException
    reset_caches()
    install_opacities(spec)
    try:
        m = build_model(spec, 'transmission')
        m.build()
    except InvalidModelException:
        return True     # judged by the workload as a licensed rejection
    zb = np.asarray(m.altitude_boundaries, dtype=float)
    dz = np.asarray(m.deltaz, dtype=float)
    return bool(np.all(np.isfinite(zb)) and np.all(dz > 0) and zb[-1] < max_height_in_radii * m.planet.fullRadius)


def add_contributions(model, spec, rng=None, cia_tables=None):
    from taurex.contributions import AbsorptionContribution, CIAContribution, RayleighContribution, \
        SimpleCloudsContribution, FlatMieContribution, LeeMieContribution
    out = []
    for c in spec['contributions']:
        name = c if isinstance(c, str) else c['name']
        kw = {} if isinstance(c, str) else {k: v for k, v in c.items() if k != 'name'}
        if name == 'Absorption':
            o = AbsorptionContribution()
        elif name == 'CIA':
            o = CIAContribution(cia_pairs=list(kw.get('cia_pairs', [])))
        elif name == 'Rayleigh':
            o = RayleighContribution()
        elif name == 'SimpleClouds':
            o = SimpleCloudsContribution(**kw)
        elif name == 'FlatMie':
            o = FlatMieContribution(**kw)
        elif name == 'LeeMie':
            rep = kw.pop('radius_repr', None)
            if rep == '0-d-array':
                # the particle size as a 0-d numpy array (what h5py's ``ds[()]`` / ``np.loadtxt`` of one number deliver)
                kw['lee_mie_radius'] = np.array(kw['lee_mie_radius'], dtype=float)
            elif rep == 'one-element-array':
                kw['lee_mie_radius'] = np.array([kw['lee_mie_radius']], dtype=float)
            o = LeeMieContribution(**kw)
        elif name == 'HydrogenIon':
            from taurex.contributions.hm import HydrogenIon
            o = HydrogenIon()
        else:
            raise ValueError(name)
        model.add_contribution(o)
        out.append(o)
    return out


def install_cia(rng, pairs, wn, magnitude='mixed'):
    """In-memory CIA objects registered in the CIACache. Units m^5 per pair."""
    from taurex.cache import CIACache
    Fake = fake_cia_class()
    out = {}
    for pair in pairs:
        nT = int(rng.integers(2, 6))
        T = np.sort(rng.uniform(50, 4000, nT))
        T[0], T[-1] = 50.0, 4000.0
        lo, hi = {'transparent': (-80, -75), 'thin': (-62, -56), 'mixed': (-56, -48), 'saturating': (-50, -40)}[magnitude]
        x = 10 ** rng.uniform(lo, hi, (nT, len(wn)))
        obj = Fake(pair, wn, T, x)
        CIACache().add_cia(obj)
        out[pair] = obj
    return out


def spec_summary(spec):
    """Small JSON-able description of a world for evidence samples."""
    return {
        'planet': [round(spec['planet_mass'], 4), round(spec['planet_radius'], 4)],
        'star': [round(spec['star_T'], 1), round(spec['star_radius'], 3)],
        'nlayers': spec['nlayers'], 'P': ['%.3g' % spec['pmax'], '%.3g' % spec['pmin']],
        'T': spec['temperature']['kind'] + ('*scaled' if spec['temperature'].get('scale') else ''), 'magnitude': spec['magnitude'],
        'gases': [(g['mol'], g['kind']) for g in spec['gases']], 'fill': spec['fill_gases'],
        'chemistry': 'makefree+file' if spec.get('makefree') else 'free',
        'pressure': spec.get('pressure_route', 'simple'),
        'tables': {m: list(t['xsec'].shape) for m, t in spec['tables'].items()},
        'contributions': [c if isinstance(c, str) else c['name'] for c in spec['contributions']],
        'interp': spec.get('interpolation'),
    }


def scratch_dir(ctx, name):
    d = os.path.join(ctx.scratch, name)
    os.makedirs(d, exist_ok=True)
    return d
