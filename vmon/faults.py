"""Fail points: source-free fault injection at call boundaries of the real classes.

``install(ctx)`` taps a fixed set of sites (profile initialisation, chemistry initialisation, contribution
preparation).  While a fail point is armed, the k-th call of the chosen site (optionally only on one target object)
raises the chosen exception instead of running.  Workloads arm a fail point, drive the real code into it, observe the
exception it lets escape, disarm and then USE THE SAME OBJECTS AGAIN -- what they return afterwards is judged by the
property's ordinary oracle.  (What a sampler sees all the time: some parameter vectors are invalid atmospheres.)
"""
from vmon import taps

_state = {'fp': None, 'installed': False, 'ctx': None}
SITES = ('temperature', 'chemistry', 'pressure', 'contribution')


def install(ctx):
    _state['ctx'] = ctx
    if _state['installed']:
        return
    _state['installed'] = True
    from taurex.data.profiles.temperature.tprofile import TemperatureProfile
    from taurex.data.profiles.chemistry.taurexchemistry import TaurexChemistry
    from taurex.data.profiles.pressure.pressureprofile import SimplePressureProfile
    from taurex.contributions import Contribution, AbsorptionContribution

    def site(label):
        def before(self, a, kw):
            fp = _state['fp']
            if fp is None or fp['site'] != label or (fp['target'] is not None and self is not fp['target']):
                return None
            fp['count'] += 1
            if fp['count'] == fp['k']:
                fp['fired'] = True
                _state['ctx'].event('failpoint-raised:' + label)
                raise fp['exc']('vmon fail point (%s, call %d)' % (label, fp['k']))
            return None
        return before
    taps.tap(TemperatureProfile, 'initialize_profile', site('temperature'), None, outermost=True)
    taps.tap(TaurexChemistry, 'initialize_chemistry', site('chemistry'), None, outermost=True)
    taps.tap(SimplePressureProfile, 'compute_pressure_profile', site('pressure'), None, outermost=True)
    taps.tap(Contribution, 'prepare', site('contribution'), None, outermost=True)
    taps.tap(AbsorptionContribution, 'prepare', site('contribution'), None, outermost=True)


def uninstall():
    _state['installed'] = False
    _state['fp'] = None


def arm(site, k=1, exc=None, target=None):
    if exc is None:
        from taurex.exceptions import InvalidModelException
        exc = InvalidModelException
    _state['fp'] = {'site': site, 'k': int(k), 'count': 0, 'fired': False, 'exc': exc, 'target': target}
    return _state['fp']


def disarm():
    fp, _state['fp'] = _state['fp'], None
    return bool(fp and fp['fired'])


def drive_into(ctx, rng, call, sites=SITES, kmax=2):
    """Arm a random fail point, run ``call`` (which must let the injected exception escape), disarm.
    Returns the site when the fail point fired and the exception came out, 'rejected' when the evaluation was
    rejected for a reason of its own, else None."""
    from taurex.exceptions import InvalidModelException
    site = sites[int(rng.integers(0, len(sites)))]
    arm(site, k=int(rng.integers(1, kmax + 1)))
    raised = None
    try:
        call()
    except InvalidModelException as e:
        raised = e
    finally:
        fired = disarm()
    if fired:
        ctx.check('fault:injected-exception-escapes-to-the-caller', raised is not None and 'vmon fail point' in str(raised),
                  site=site, raised=repr(raised)[:200])
        ctx.observe('fault:fired:' + site)
        return site
    if raised is not None:
        # the atmosphere was rejected for a reason of its own before the fail point was reached
        ctx.license(type(raised).__name__)
        return 'rejected'
    return None
