"""Recording double of ``pypolychord`` (the library is not installed here).

``run_polychord(loglikelihood, nDims, nDerived, settings, prior=..., dumper=...)`` records callbacks and settings in
``vmon_double_common.RECORDER`` and drives the callbacks the way the library's C bridge does:

    theta[:] = prior(cube)                     cube, theta: float64 arrays of length nDims
    logL, phi[:] = loglikelihood(theta)        phi: float64 array of length nDerived

on the scripted points, then writes PolyChord's output files from the DESIGNED sample set:

  <base_dir>/<root>.txt                 rows ``weight  -2*logL  theta_1..theta_D  phi_1..phi_nDerived``
  <base_dir>/<root>_equal_weights.txt   same columns, weight 1
  <base_dir>/clusters/<root>_<k>.txt    same columns, rows of cluster k (k = 1..), only when do_clustering
  <base_dir>/<root>.stats               line 0.. :  "Evidence estimates:" / "===" / two explanation lines / blank /
                                        "Global evidence:" / "---" / blank /
                                        line 8   "log(Z)       = <mu> +/- <sigma>" / blank / blank /
                                        "Local evidences:" / "---" / blank /
                                        line 14+ "log(Z_ k)  = <mu> +/- <sigma>"  one per cluster (one line when there is
                                        no clustering) / blank / blank / "Run-time information:" ...

Design handed in by the workload (RECORDER.design):
  {'samples': (N, D), 'weights': (N,), 'loglike': (N,), 'clusters': [index array, ...] (default one cluster with all
   rows), 'logz', 'logzerr', 'local': [(mu, sigma), ...] optional}
"""
import os

import numpy as np

from vmon_double_common import RECORDER, exc_repr, fmt, run_entry_hooks
from . import settings as settings          # noqa: F401  (pypolychord.settings)
from . import priors as priors              # noqa: F401

__version__ = 'vmon-double-of-1.20'


def default_prior(cube):
    return cube.copy()


def default_dumper(live, dead, logweights, logZ, logZerr):
    pass


class PolyChordOutput:
    def __init__(self, base_dir, file_root):
        self.base_dir = base_dir
        self.file_root = file_root
        self.root = os.path.join(base_dir, file_root)


def run_polychord(loglikelihood, nDims, nDerived, settings, prior=default_prior, dumper=default_dumper):
    nDims, nDerived = int(nDims), int(nDerived)
    os.makedirs(settings.base_dir, exist_ok=True)
    os.makedirs(settings.cluster_dir, exist_ok=True)
    call = {'sampler': 'polychord', 'kwargs': {k: v for k, v in vars(settings).items()}, 'ndim': nDims,
            'nderived': nDerived, 'loglike': loglikelihood, 'prior': prior, 'records': [], 'files': {}}
    RECORDER.calls.append(call)
    work_theta, work_cube = np.empty(nDims), np.empty(nDims)
    for k, entry in enumerate(RECORDER.script):
        rec = {'entry': k, 'u': None, 'theta': None, 'prior_exc': None, 'loglike': None, 'loglike_exc': None,
               'loglike_type': None}
        call['records'].append(rec)
        theta = work_theta if RECORDER.reuse_buffers else np.empty(nDims)
        if 'u' in entry:
            if RECORDER.reuse_buffers:
                work_cube[:] = np.array(entry['u'], dtype=float)
                cube = work_cube
            else:
                cube = np.array(entry['u'], dtype=float)
            rec['u'] = cube.tolist()
            try:
                theta[:] = prior(cube)
            except Exception as e:
                rec['prior_exc'] = exc_repr(e)
                continue
        else:
            theta[:] = np.array(entry['theta'], dtype=float)
        rec['theta'] = theta.tolist()
        phi = np.empty(nDerived)
        run_entry_hooks(entry, 'arm')
        try:
            logL, phi[:] = loglikelihood(theta)
            rec['loglike_type'] = type(logL).__name__
            rec['loglike'] = float(logL)
            rec['derived'] = phi.tolist()
            rec['theta_after'] = theta.tolist()
        except Exception as e:
            rec['loglike_exc'] = exc_repr(e)
        finally:
            run_entry_hooks(entry, 'disarm')
    call['files'] = _write_outputs(settings, nDims, nDerived)
    return PolyChordOutput(settings.base_dir, settings.file_root)


def _write_outputs(settings, nDims, nDerived):
    d = RECORDER.design
    if d is None:
        raise RuntimeError('pypolychord double: the workload supplied no designed sample set')
    x = np.asarray(d['samples'], dtype=float).reshape(-1, nDims)
    w = np.asarray(d['weights'], dtype=float)
    ll = np.asarray(d['loglike'], dtype=float)
    phi = np.asarray(d.get('derived', np.zeros((len(w), nDerived))), dtype=float).reshape(len(w), nDerived)
    clusters = [np.asarray(c, dtype=int) for c in d.get('clusters') or [np.arange(len(w))]]
    logz, logzerr = float(d.get('logz', -10.0)), float(d.get('logzerr', 0.1))
    local = d.get('local') or [(logz - 0.5 * k, logzerr * (1 + k)) for k in range(len(clusters))]
    root = os.path.join(settings.base_dir, settings.file_root)

    def write(path, idx, unit_weight=False):
        with open(path, 'w') as fh:
            for i in idx:
                r = [1.0 if unit_weight else w[i], -2.0 * ll[i]] + list(x[i]) + list(phi[i])
                fh.write(''.join(fmt(v) for v in r) + '\n')

    write(root + '.txt', range(len(w)))
    write(root + '_equal_weights.txt', range(len(w)), unit_weight=True)
    if settings.do_clustering:
        for k, idx in enumerate(clusters):
            write(os.path.join(settings.cluster_dir, '%s_%d.txt' % (settings.file_root, k + 1)), idx)
            write(os.path.join(settings.cluster_dir, '%s_%d_equal_weights.txt' % (settings.file_root, k + 1)), idx,
                  unit_weight=True)
    nloc = len(clusters) if settings.do_clustering else 1
    L = ['Evidence estimates:',
         '===================',
         '  - The evidence Z is a log-normally distributed, with location and scale parameters mu and sigma.',
         '  - We denote this as log(Z) = mu +/- sigma.',
         '',
         'Global evidence:',
         '----------------',
         '',
         'log(Z)       = %s +/- %s' % (fmt(logz).strip(), fmt(logzerr).strip()),
         '',
         '',
         'Local evidences:',
         '----------------',
         '']
    for k in range(nloc):
        L.append('log(Z_%2d)  = %s +/- %s' % (k + 1, fmt(local[k][0]).strip(), fmt(local[k][1]).strip()))
    L += ['', '', 'Run-time information:', '---------------------', '',
          ' ncluster:%11d /%8d' % (0, nloc),
          ' nposterior:%9d' % len(w), ' nequals:%12d' % len(w), ' ndead:%14d' % len(w),
          ' nlive:%14d' % 0, ' nlike:%14d' % (10 * len(w)), ' <nlike>:%12.2f   (%12.2f per slice )' % (10.0, 2.0),
          '', '', 'Dim No.       Mean        Sigma']
    W = w.sum()
    for i in range(nDims):
        mu = float((w * x[:, i]).sum() / W)
        sg = float(np.sqrt((w * (x[:, i] - mu) ** 2).sum() / W))
        L.append('%3d  %s +/- %s' % (i + 1, fmt(mu).strip(), fmt(sg).strip()))
    with open(root + '.stats', 'w') as fh:
        fh.write('\n'.join(L) + '\n')
    return {'root': root, 'clusters': [c.tolist() for c in clusters], 'logz': logz, 'logzerr': logzerr,
            'local': [tuple(map(float, t)) for t in local[:nloc]], 'do_clustering': bool(settings.do_clustering)}
