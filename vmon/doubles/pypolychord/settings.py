"""Double of pypolychord.settings (attribute bag with the library's defaults)."""
import os

import numpy as np


class PolyChordSettings:
    def __init__(self, nDims, nDerived, **kwargs):
        self.nlive = kwargs.pop('nlive', nDims * 25)
        self.num_repeats = kwargs.pop('num_repeats', nDims * 5)
        self.nprior = kwargs.pop('nprior', -1)
        self.nfail = kwargs.pop('nfail', -1)
        self.do_clustering = kwargs.pop('do_clustering', True)
        self.feedback = kwargs.pop('feedback', 1)
        self.precision_criterion = kwargs.pop('precision_criterion', 0.001)
        self.logzero = kwargs.pop('logzero', -1e30)
        self.max_ndead = kwargs.pop('max_ndead', -1)
        self.boost_posterior = kwargs.pop('boost_posterior', 0.0)
        self.posteriors = kwargs.pop('posteriors', True)
        self.equals = kwargs.pop('equals', True)
        self.cluster_posteriors = kwargs.pop('cluster_posteriors', True)
        self.write_resume = kwargs.pop('write_resume', True)
        self.write_paramnames = kwargs.pop('write_paramnames', False)
        self.read_resume = kwargs.pop('read_resume', True)
        self.write_stats = kwargs.pop('write_stats', True)
        self.write_live = kwargs.pop('write_live', True)
        self.write_dead = kwargs.pop('write_dead', True)
        self.write_prior = kwargs.pop('write_prior', True)
        self.maximise = kwargs.pop('maximise', False)
        self.compression_factor = kwargs.pop('compression_factor', np.exp(-1))
        self.synchronous = kwargs.pop('synchronous', True)
        self.base_dir = kwargs.pop('base_dir', 'chains')
        self.file_root = kwargs.pop('file_root', 'test')
        self.seed = kwargs.pop('seed', -1)
        self.grade_dims = list(kwargs.pop('grade_dims', [nDims]))
        self.grade_frac = list(kwargs.pop('grade_frac', [1.0] * len(self.grade_dims)))
        self.nlives = kwargs.pop('nlives', {})
        if kwargs:
            raise TypeError('Unexpected **kwargs in Contours constructor: %r' % kwargs)
        if sum(self.grade_dims) != nDims:
            raise ValueError('grade_dims must sum to the total dimensionality: sum(%r) /= %r' % (self.grade_dims, nDims))

    @property
    def cluster_dir(self):
        return os.path.join(self.base_dir, 'clusters')
