"""Double of pypolychord.priors (the prior classes the library ships)."""
import numpy as np
from scipy.special import erfinv


class UniformPrior:
    def __init__(self, a, b):
        self.a = a
        self.b = b

    def __call__(self, x):
        return self.a + (self.b - self.a) * x


class GaussianPrior:
    def __init__(self, mu, sigma):
        self.mu = mu
        self.sigma = sigma

    def __call__(self, x):
        return self.mu + self.sigma * np.sqrt(2) * erfinv(2 * x - 1)


class LogUniformPrior(UniformPrior):
    def __call__(self, x):
        return self.a * (self.b / self.a) ** x
