"""Recording double of ``pymultinest`` (the library is not installed here).

``run`` has the keyword signature of pymultinest 2.x, records callbacks and keywords in
``vmon_double_common.RECORDER``, drives the callbacks the way the library's Fortran bridge does

    Prior(cube, ndim, nparams)            cube: C double buffer (indexable, no len()), mutated in place
    LogLikelihood(cube, ndim, nparams)    -> float

on the scripted points, then writes MultiNest's output files from the DESIGNED sample set:

  <base>.txt                 rows ``weight  -2*loglike  p_1 .. p_D``         (E28.18 fields)
  <base>post_equal_weights.dat   rows ``p_1 .. p_D  loglike``
  <base>post_separate.dat    per mode: two blank lines, then rows like <base>.txt
  <base>stats.dat            multimodal=True:
                                 Nested Sampling Global Log-Evidence           :  <v>  +/-  <e>
                                 [Nested Importance Sampling Global Log-Evidence:  <v>  +/-  <e>]
                                 <blank>
                                 Total Modes Found:           M
                                 then per mode: <blank><blank> "Mode   k" / "Strictly Local Log-Evidence  v +/- e" /
                                 "Local Log-Evidence  v +/- e" / <blank> / "Dim No.       Mean        Sigma" + rows /
                                 <blank> / "Maximum Likelihood Parameters" / "Dim No.        Parameter" + rows /
                                 <blank> / "MAP Parameters" / "Dim No.        Parameter" + rows
                             multimodal=False: the evidence line(s), <blank>, then the three tables of the single mode
                             without the "Mode"/"Local" lines.

Design handed in by the workload (RECORDER.design):
  {'samples': (N, D), 'weights': (N,), 'loglike': (N,), 'modes': [index array into the rows, ...] (default: one mode
   with all rows), 'logz': float, 'logzerr': float, 'local': [(logz, err), ...] optional}
Per mode the double computes what MultiNest prints: weighted mean / sigma, the maximum-likelihood row and the MAP row
(the row of greatest posterior weight).

``Analyzer.get_stats`` parses <base>stats.dat like pymultinest.Analyzer: modes are the chunks separated by two blank
lines after the header chunk -- so, as with the real library, a file written with multimodal=False yields 'modes': [].
"""
import ctypes
import os
from io import StringIO

import numpy as np

from vmon_double_common import RECORDER, exc_repr, fmt, run_entry_hooks, weighted_stats

__version__ = 'vmon-double-of-2.12'


class _Cube:
    """What the callbacks receive from the Fortran bridge: a C double buffer that can only be indexed."""

    def __init__(self, values, nparams):
        self._n = int(nparams)
        self._buf = (ctypes.c_double * self._n)(*[float(v) for v in values])

    def _chk(self, i):
        if isinstance(i, slice) or not isinstance(i, (int, np.integer)):
            raise TypeError('cube indices must be integers')
        if i < 0 or i >= self._n:
            raise IndexError('cube index %r outside the %d parameters handed to the callback' % (i, self._n))
        return int(i)

    def __getitem__(self, i):
        return self._buf[self._chk(i)]

    def __setitem__(self, i, v):
        self._buf[self._chk(i)] = v          # ctypes refuses anything that is not a real number (TypeError)

    def values(self):
        return [self._buf[i] for i in range(self._n)]

    def load(self, values):
        """The bridge's own buffer gets the next point (same object, other content)."""
        for i, v in enumerate(values):
            self._buf[i] = float(v)
        return self


def run(LogLikelihood, Prior, n_dims, n_params=None, n_clustering_params=None, wrapped_params=None,
        importance_nested_sampling=True, multimodal=True, const_efficiency_mode=False, n_live_points=400,
        evidence_tolerance=0.5, sampling_efficiency=0.8, n_iter_before_update=100, null_log_evidence=-1e90,
        max_modes=100, mode_tolerance=-1e90, outputfiles_basename='chains/1-', seed=-1, verbose=False,
        resume=True, context=0, write_output=True, log_zero=-1e100, max_iter=0, init_MPI=False,
        dump_callback=None, use_MPI=True):
    kwargs = dict(n_dims=n_dims, n_params=n_params, n_clustering_params=n_clustering_params,
                  wrapped_params=wrapped_params, importance_nested_sampling=importance_nested_sampling,
                  multimodal=multimodal, const_efficiency_mode=const_efficiency_mode, n_live_points=n_live_points,
                  evidence_tolerance=evidence_tolerance, sampling_efficiency=sampling_efficiency,
                  n_iter_before_update=n_iter_before_update, null_log_evidence=null_log_evidence,
                  max_modes=max_modes, mode_tolerance=mode_tolerance, outputfiles_basename=outputfiles_basename,
                  seed=seed, verbose=verbose, resume=resume, context=context, write_output=write_output,
                  log_zero=log_zero, max_iter=max_iter, init_MPI=init_MPI, use_MPI=use_MPI)
    if n_params is None:
        n_params = n_dims
    if n_clustering_params is None:
        n_clustering_params = n_dims
    if wrapped_params is None:
        wrapped_params = [0] * n_dims
    if sampling_efficiency == 'parameter':
        sampling_efficiency = 0.8
    if sampling_efficiency == 'model':
        sampling_efficiency = 0.3
    float(sampling_efficiency)                 # the library hands it to Fortran as a C double
    if len(outputfiles_basename) > 100:
        raise ValueError('outputfiles_basename too long for MultiNest (100 characters)')
    call = {'sampler': 'multinest', 'kwargs': kwargs, 'ndim': int(n_dims), 'loglike': LogLikelihood, 'prior': Prior,
            'records': [], 'files': {}}
    RECORDER.calls.append(call)
    shared = _Cube([0.0] * int(n_params), n_params) if RECORDER.reuse_buffers else None
    for k, entry in enumerate(RECORDER.script):
        rec = {'entry': k, 'u': None, 'theta': None, 'prior_exc': None, 'loglike': None, 'loglike_exc': None,
               'loglike_type': None}
        call['records'].append(rec)
        if 'u' in entry:
            rec['u'] = [float(v) for v in entry['u']]
            cube = shared.load(list(entry['u']) + [0.0] * (int(n_params) - len(entry['u']))) if shared is not None \
                else _Cube(entry['u'], n_params)
            try:
                Prior(cube, n_dims, n_params)
            except Exception as e:               # recorded; the monitor decides
                rec['prior_exc'] = exc_repr(e)
                continue
            rec['theta'] = cube.values()
        else:
            cube = shared.load(list(entry['theta']) + [0.0] * (int(n_params) - len(entry['theta']))) if shared is not None \
                else _Cube(entry['theta'], n_params)
            rec['theta'] = cube.values()
        run_entry_hooks(entry, 'arm')
        try:
            val = LogLikelihood(cube, n_dims, n_params)
            rec['loglike_type'] = type(val).__name__
            rec['loglike'] = float(val)          # the bridge returns a C double
            rec['theta_after'] = cube.values()
        except Exception as e:
            rec['loglike_exc'] = exc_repr(e)
        finally:
            run_entry_hooks(entry, 'disarm')
    if write_output:
        call['files'] = _write_outputs(outputfiles_basename, int(n_dims), bool(multimodal),
                                       bool(importance_nested_sampling))


def _tables(mean, sigma, ml, mp):
    L = ['Dim No.       Mean        Sigma']
    for i in range(len(mean)):
        L.append('%4d%s%s' % (i + 1, fmt(mean[i]), fmt(sigma[i])))
    for title, vec in (('Maximum Likelihood Parameters', ml), ('MAP Parameters', mp)):
        L.append('')
        L.append(title)
        L.append('Dim No.        Parameter')
        for i in range(len(vec)):
            L.append('%4d%s' % (i + 1, fmt(vec[i])))
    return L


def _write_outputs(base, ndim, multimodal, ins):
    d = RECORDER.design
    if d is None:
        raise RuntimeError('pymultinest double: the workload supplied no designed sample set')
    x = np.asarray(d['samples'], dtype=float).reshape(-1, ndim)
    w = np.asarray(d['weights'], dtype=float)
    ll = np.asarray(d['loglike'], dtype=float)
    modes = [np.asarray(m, dtype=int) for m in d.get('modes') or [np.arange(len(w))]]
    if not multimodal:
        modes = [np.arange(len(w))]
    logz, logzerr = float(d.get('logz', -10.0)), float(d.get('logzerr', 0.1))
    local = d.get('local') or [(logz - 0.5 * k, logzerr * (1 + k)) for k in range(len(modes))]
    os.makedirs(os.path.dirname(base) or '.', exist_ok=True)
    info = {'modes': []}

    def rows(idx):
        return [[w[i], -2.0 * ll[i]] + list(x[i]) for i in idx]

    with open(base + '.txt', 'w') as fh:
        for r in rows(range(len(w))):
            fh.write(''.join(fmt(v) for v in r) + '\n')
    with open(base + 'post_equal_weights.dat', 'w') as fh:
        for i in range(len(w)):
            fh.write(''.join(fmt(v) for v in list(x[i]) + [ll[i]]) + '\n')
    with open(base + 'post_separate.dat', 'w') as fh:
        for idx in modes:
            fh.write('\n\n')
            for r in rows(idx):
                fh.write(''.join(fmt(v) for v in r) + '\n')
    L = ['Nested Sampling Global Log-Evidence           :%s  +/-%s' % (fmt(logz), fmt(logzerr))]
    if ins:
        L.append('Nested Importance Sampling Global Log-Evidence:%s  +/-%s' % (fmt(logz + 0.01), fmt(logzerr / 2)))
    if multimodal:
        L.append('')
        L.append('Total Modes Found:%12d' % len(modes))
    for k, idx in enumerate(modes):
        mean, sigma = weighted_stats(x[idx], w[idx])
        ml = x[idx][int(np.argmax(ll[idx]))]
        mp = x[idx][int(np.argmax(w[idx]))]
        info['modes'].append({'rows': idx.tolist(), 'mean': mean.tolist(), 'sigma': sigma.tolist(),
                              'maximum': ml.tolist(), 'maximum a posterior': mp.tolist(),
                              'local log-evidence': float(local[k][0]), 'local log-evidence error': float(local[k][1])})
        if multimodal:
            L += ['', '', 'Mode%4d' % (k + 1),
                  'Strictly Local Log-Evidence%s  +/-%s' % (fmt(local[k][0] - 0.25), fmt(local[k][1])),
                  'Local Log-Evidence%s  +/-%s' % (fmt(local[k][0]), fmt(local[k][1]))]
        L.append('')
        L += _tables(mean, sigma, ml, mp)
    with open(base + 'stats.dat', 'w') as fh:
        fh.write('\n'.join(L) + '\n')
    info.update(logz=logz, logzerr=logzerr, multimodal=multimodal, ins=ins, base=base)
    return info


class Analyzer(object):
    """Parses the output files the way pymultinest.Analyzer does."""

    def __init__(self, n_params, outputfiles_basename='chains/1-', verbose=True):
        self.outputfiles_basename = outputfiles_basename
        self.n_params = n_params
        self.data_file = '%s.txt' % outputfiles_basename
        self.post_file = '%spost_separate.dat' % outputfiles_basename
        self.equal_weighted_file = '%spost_equal_weights.dat' % outputfiles_basename
        self.stats_file = '%sstats.dat' % outputfiles_basename
        self.verbose = verbose

    def get_data(self):
        if not os.path.exists(self.data_file):
            raise Exception('The file %s does not exist' % self.data_file)
        return np.loadtxt(self.data_file, ndmin=2)

    def get_equal_weighted_posterior(self):
        return np.loadtxt(self.equal_weighted_file, ndmin=2)

    @staticmethod
    def _read_error_line(l):
        name, values = l.split('   ', 1)
        name = name.strip(': ').strip()
        values = values.strip(': ').strip()
        v, error = values.split(' +/- ')
        return name, float(v), float(error)

    def _read_error_into_dict(self, l, d):
        name, v, error = self._read_error_line(l)
        d[name.lower()] = v
        d['%s error' % name.lower()] = error

    @staticmethod
    def _read_table(txt, d=None, title=None):
        if title is None:
            title, table = txt.split('\n', 1)
        else:
            table = txt
        header, table = table.split('\n', 1)
        data = np.loadtxt(StringIO(table))
        if d is not None:
            d[title.strip().lower()] = data
        if len(data.shape) == 1:
            data = np.reshape(data, (1, -1))
        return data

    def get_mode_stats(self):
        with open(self.stats_file) as fh:
            lines = fh.readlines()
        stats = {'modes': []}
        self._read_error_into_dict(lines[0], stats)
        key = 'Nested Sampling Global Log-Evidence'.lower()
        if len(lines) > 1 and 'Nested Importance Sampling Global Log-Evidence' in lines[1]:
            self._read_error_into_dict(lines[1], stats)
            key = 'Nested Importance Sampling Global Log-Evidence'.lower()
        stats['global evidence'] = stats[key]
        stats['global evidence error'] = stats[key + ' error']
        text = ''.join(lines)
        parts = text.split('\n\n\n')
        del parts[0]
        for i, p in enumerate(parts):
            modelines = p.split('\n\n')
            mode = {'index': i}
            modelines1 = modelines[0].split('\n')
            self._read_error_into_dict(modelines1[1], mode)
            self._read_error_into_dict(modelines1[2], mode)
            t = self._read_table(modelines[1], title='Parameters')
            mode['mean'] = t[:, 1].tolist()
            mode['sigma'] = t[:, 2].tolist()
            mode['maximum'] = self._read_table(modelines[2])[:, 1].tolist()
            mode['maximum a posterior'] = self._read_table(modelines[3])[:, 1].tolist()
            stats['modes'].append(mode)
        return stats

    def get_stats(self):
        posterior = self.get_data()
        marg = []
        for i in range(2, posterior.shape[1]):
            b = np.array(sorted(zip(posterior[:, 0], posterior[:, i]), key=lambda t: t[1]))
            b[:, 0] = b[:, 0].cumsum()
            sig5 = 0.5 + 0.9999994 / 2.
            sig3 = 0.5 + 0.9973 / 2.
            sig2 = 0.5 + 0.95 / 2.
            sig1 = 0.5 + 0.6826 / 2.

            def bi(q, b=b):
                return float(np.interp(q, b[:, 0], b[:, 1], left=b[0, 1], right=b[-1, 1]))
            low1, high1 = bi(1 - sig1), bi(sig1)
            marg.append({'median': bi(0.5), 'sigma': (high1 - low1) / 2., '1sigma': [low1, high1],
                         '2sigma': [bi(1 - sig2), bi(sig2)], '3sigma': [bi(1 - sig3), bi(sig3)],
                         '5sigma': [bi(1 - sig5), bi(sig5)], 'q75%': bi(0.75), 'q25%': bi(0.25),
                         'q99%': bi(0.99), 'q01%': bi(0.01), 'q90%': bi(0.9), 'q10%': bi(0.1)})
        stats = self.get_mode_stats()
        stats['marginals'] = marg
        return stats

    def get_best_fit(self):
        data = self.get_data()
        i = (-0.5 * data[:, 1]).argmax()
        return {'log_likelihood': float(-0.5 * data[i, 1]), 'parameters': list(data[i, 2:])}
