"""Stand-in for mpi4py (not installed in this sandbox), used ONLY by the C18 check.

R cooperating *processes* (rank/size from VMPI_RANK / VMPI_SIZE) talk to a coordinator over a Unix socket
(VMPI_SOCK, multiprocessing.connection).  Every payload is pickled exactly as mpi4py does for the lower-case
collectives, so values that cross ranks lose object identity (np.nan is no longer `is np.nan`).
"""
