import os
import pickle
from multiprocessing.connection import Client

import numpy as np

SUM = 'SUM'
COMM_TYPE_SHARED = 'SHARED'


class _Comm:
    def __init__(self):
        self._rank = int(os.environ.get('VMPI_RANK', '0'))
        self._size = int(os.environ.get('VMPI_SIZE', '1'))
        self._sock = os.environ.get('VMPI_SOCK')
        self._conn = None
        self._seq = 0
        self.log = []          # (seq, op) of every collective this rank took part in

    def _connect(self):
        if self._conn is None:
            self._conn = Client(self._sock, family='AF_UNIX')
            self._conn.send(('hello', self._rank))
        return self._conn

    def Get_rank(self):
        return self._rank

    def Get_size(self):
        return self._size

    def _collective(self, op, payload):
        """Send this rank's pickled payload, receive the list of all ranks' pickled payloads (rank order)."""
        self._seq += 1
        self.log.append((self._seq, op))
        if self._size == 1:
            return [pickle.loads(pickle.dumps(payload, protocol=pickle.HIGHEST_PROTOCOL))]
        c = self._connect()
        c.send((op, self._seq, self._rank, pickle.dumps(payload, protocol=pickle.HIGHEST_PROTOCOL)))
        reply = c.recv()
        if reply[0] != 'ok':
            raise RuntimeError('vmpi coordinator: %r' % (reply,))
        return [pickle.loads(b) for b in reply[1]]

    def allgather(self, value):
        return self._collective('allgather', value)

    def allreduce(self, value, op=SUM):
        vals = self._collective('allreduce', value)
        out = vals[0]
        for v in vals[1:]:
            out = out + v          # MPI.SUM on Python objects: rank-ordered '+'
        return out

    def bcast(self, value, root=0):
        vals = self._collective('bcast', value if self._rank == root else None)
        return vals[root]

    def Bcast(self, buf, root=0):
        vals = self._collective('Bcast', np.asarray(buf) if self._rank == root else None)
        if self._rank != root:
            buf[...] = vals[root]

    def Barrier(self):
        self._collective('barrier', None)

    def Split_type(self, kind):
        return self


COMM_WORLD = _Comm()
