"""Shared recorder of the sampler doubles (pymultinest, pypolychord) and of the nestle tap.

This directory is put on sys.path by the C06 / C09 property modules only.  The module is imported as the
TOP-LEVEL module ``vmon_double_common`` (never as ``vmon.doubles....``) so that the doubles and the workload see
one and the same ``RECORDER`` object.

Protocol (the workload fills the recorder BEFORE it calls ``optimizer.compute_fit()`` / ``fit()``):

  RECORDER.reset()
  RECORDER.script = [entry, ...]      entry = {'u': [u_0..u_{D-1}]}       point of the unit cube: the double calls the
                                                                          prior callback and then the likelihood
                                                                          callback exactly as the library does
                                      or      {'theta': [...]}            point of the sampled space: likelihood only
                                      optional 'arm' / 'disarm': callables run right before / after the likelihood
                                      callback (used for fail points)
  RECORDER.design = {...}             the designed sample set the "sampler" reports (see each double)

After the run ``RECORDER.calls`` holds one dict per entry-point call:
  {'sampler': 'multinest'|'polychord'|'nestle', 'kwargs': {...}, 'ndim': int, 'records': [rec, ...], 'files': {...}}
  rec = {'entry': i, 'u': [...]|None, 'theta': [...]|None, 'prior_exc': repr|None,
         'loglike': value|None, 'loglike_exc': repr|None, 'loglike_type': type name}
A callback that raises does NOT abort the scripted sequence: the exception is recorded and the next entry is driven
(the monitor, not the double, decides).
"""
import numpy as np


class Recorder:
    def __init__(self):
        self.reset()

    def reset(self):
        self.script = []
        self.design = None
        self.calls = []
        # True: the sampler hands ONE buffer to its callbacks for the whole run, refilled in place for every point
        # (what MultiNest's Fortran bridge does with its cube; a sampler written around a work vector); False: a new
        # array per point.  Set by the workload.
        self.reuse_buffers = False


RECORDER = Recorder()


def fmt(x):
    """Fortran-like E28.18 field; 19 significant digits, so every IEEE double round-trips exactly."""
    return '%28.18E' % float(x)


def row(values):
    return ''.join(fmt(v) for v in values)


def write_rows(path, rows, blank_before=0):
    with open(path, 'w') as fh:
        fh.write('\n' * blank_before)
        for r in rows:
            fh.write(row(r) + '\n')


def exc_repr(e):
    return '%s: %s' % (type(e).__name__, str(e)[:200])


def run_entry_hooks(entry, which):
    f = entry.get(which)
    if f is not None:
        f()


def weighted_stats(x, w):
    """Weighted mean and (population) standard deviation per column -- what the samplers print in their stats."""
    x = np.asarray(x, dtype=float)
    w = np.asarray(w, dtype=float)
    W = w.sum()
    mean = (x * w[:, None]).sum(axis=0) / W
    var = (w[:, None] * (x - mean) ** 2).sum(axis=0) / W
    return mean, np.sqrt(var)
