"""Call taps: wrappers installed on the real classes from the harness.

``tap(cls, 'meth', before=f, after=g)`` replaces ``cls.meth`` by a wrapper that
calls ``before(self, args, kwargs)`` (call event, recorded BEFORE invoking),
the original, then ``after(self, args, kwargs, result, exc)``.  Only the
outermost activation on the same object is reported when ``outermost=True``
(subclass methods that call super() would otherwise be double counted).
"""
import functools

_registry = []


def tap(cls, name, before=None, after=None, outermost=False):
    orig = cls.__dict__.get(name)
    if orig is None:
        raise AttributeError('%s does not define %s' % (cls.__name__, name))
    if isinstance(orig, (staticmethod, classmethod, property)):
        raise TypeError('tap() handles plain functions; use tap_property for properties')
    depth_attr = '_vmon_depth_' + name

    @functools.wraps(orig)
    def wrapper(self, *a, **kw):
        d = self.__dict__.get(depth_attr, 0) if outermost else 0
        report = d == 0
        if outermost:
            self.__dict__[depth_attr] = d + 1
        token = None
        try:
            if report and before is not None:
                token = before(self, a, kw)
            try:
                res = orig(self, *a, **kw)
            except BaseException as e:
                if report and after is not None:
                    after(self, a, kw, None, e, token)
                raise
            if report and after is not None:
                r2 = after(self, a, kw, res, None, token)
                if r2 is not None:
                    res = r2[0]
            return res
        finally:
            if outermost:
                self.__dict__[depth_attr] = d
    wrapper._vmon_orig = orig
    setattr(cls, name, wrapper)
    _registry.append((cls, name, orig))
    return wrapper


def tap_function(module, name, before=None, after=None):
    orig = getattr(module, name)

    @functools.wraps(orig)
    def wrapper(*a, **kw):
        token = before(a, kw) if before is not None else None
        try:
            res = orig(*a, **kw)
        except BaseException as e:
            if after is not None:
                after(a, kw, None, e, token)
            raise
        if after is not None:
            after(a, kw, res, None, token)
        return res
    wrapper._vmon_orig = orig
    setattr(module, name, wrapper)
    _registry.append((module, name, orig))
    return wrapper


def untap_all():
    while _registry:
        obj, name, orig = _registry.pop()
        setattr(obj, name, orig)
