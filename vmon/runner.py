"""vmon runner: tiers, seeds, shards, watchdog, verdicts, evidence.

Parent mode  : ./check Cxx --tier quick|thorough [--replay file]
Shard mode   : (internal) python -m vmon.runner Cxx --shard i --nshards n --pass k --out f

A property module (vmon/props/cXX.py) provides

  PROPERTY   : 'C01'
  WORKLOADS  : {name: fn(ctx, rng)}           one generated case per call
  BUDGET     : {'quick': [pass, ...], 'thorough': [pass, ...]} where
               pass = dict(name=..., env={...}, shards=int,
                           cases={workload: cases_per_shard})
  REQUIRED   : dict(monitors=[...], classes=[...])   zero count => inconclusive
  RULE       : text, how cases are generated / what makes one non-trivial
  ASSUMPTIONS: list of text
  classify(failure) -> known-finding key or None
  setup(ctx) / teardown(ctx) optional, finalize(merged) optional

Verdicts are three valued: held (exit 0), violated (exit 1, VIOLATION line),
inconclusive (exit 2, INCONCLUSIVE line).
"""
import argparse
import hashlib
import importlib
import json
import os
import subprocess
import sys
import tempfile
import time
import traceback

ROOT = os.path.dirname(os.path.dirname(os.path.abspath(__file__)))
MAX_FAIL_DETAIL = 12
MAX_SAMPLES = 6


def jsonable(x, depth=0):
    """Best-effort conversion of witnesses to JSON-able values (bounded)."""
    try:
        import numpy as np
    except Exception:  # pragma: no cover
        np = None
    if depth > 6:
        return repr(x)[:200]
    if x is None or isinstance(x, (bool, int, str)):
        return x
    if isinstance(x, float):
        return x if x == x and abs(x) != float('inf') else repr(x)
    if np is not None:
        if isinstance(x, np.generic):
            return jsonable(x.item(), depth + 1)
        if isinstance(x, np.ndarray):
            if x.size > 64:
                flat = x.ravel()
                return {'shape': list(x.shape), 'head': jsonable(flat[:24].tolist(), depth + 1),
                        'min': jsonable(float(np.nanmin(flat))) if x.dtype.kind in 'fiu' and flat.size else None,
                        'max': jsonable(float(np.nanmax(flat))) if x.dtype.kind in 'fiu' and flat.size else None}
            return jsonable(x.tolist(), depth + 1)
    if isinstance(x, dict):
        return {str(k): jsonable(v, depth + 1) for k, v in list(x.items())[:64]}
    if isinstance(x, (list, tuple, set, frozenset)):
        return [jsonable(v, depth + 1) for v in list(x)[:64]]
    return repr(x)[:300]


class Ctx:
    """What a shard records.  All counters are measured, none are constants."""

    def __init__(self, prop, tier, seed, shard, nshards, pass_name):
        from collections import Counter
        self.prop, self.tier, self.seed = prop, tier, seed
        self.shard, self.nshards, self.pass_name = shard, nshards, pass_name
        self.monitors = Counter()        # evaluations per monitor
        self.monitor_fail = Counter()
        self.classes = Counter()         # input classes / regions observed
        self.events = Counter()          # recorded events by type
        self.licensed = Counter()        # licensed exceptions seen
        self.residual = {}               # monitor -> max fraction of tolerance used
        self.relerr = {}                 # monitor -> max relative error observed
        self.sigs = set()
        self.samples = []
        self.failures = []
        self.buckets = {}
        self.classifier = None
        self.nfail = 0
        self.cases = 0
        self.notes = {}
        self.case = None
        self.features = {}
        self.scratch = None

    # -- case bookkeeping -------------------------------------------------
    def begin_case(self, workload, index):
        self.case = {'workload': workload, 'seed': self.seed, 'shard': self.shard,
                     'nshards': self.nshards, 'index': index, 'pass': self.pass_name}
        self.features = {}
        self.cases += 1
        self.events['case:' + workload] += 1

    def feature(self, **kw):
        """Case features used by the known-finding classifier and the replay."""
        self.features.update(kw)

    def observe(self, *names):
        for n in names:
            self.classes[str(n)] += 1

    def event(self, name, n=1):
        self.events[str(name)] += n

    def license(self, name):
        self.licensed[str(name)] += 1

    def note(self, key, value):
        self.notes[key] = jsonable(value)

    def sig(self, *parts):
        """Register a distinct non-trivial case signature."""
        h = hashlib.blake2b(repr(parts).encode(), digest_size=6).hexdigest()
        self.sigs.add(h)

    def sample(self, obj):
        if len(self.samples) < MAX_SAMPLES:
            self.samples.append(jsonable(obj))

    # -- monitors ---------------------------------------------------------
    def check(self, monitor, ok, **witness):
        self.monitors[monitor] += 1
        ok = bool(ok)
        if not ok:
            self._fail(monitor, witness)
        return ok

    def close(self, monitor, got, want, rtol, atol=0.0, **witness):
        """|got-want| <= atol + rtol*|want| elementwise; NaN/inf must match exactly."""
        import numpy as np
        self.monitors[monitor] += 1
        try:
            g = np.asarray(got, dtype=float)
            w = np.asarray(want, dtype=float)
        except Exception as e:  # ragged etc.
            self._fail(monitor, dict(witness, error='not numeric: %r' % (e,)))
            return False
        if g.shape != w.shape:
            self._fail(monitor, dict(witness, got_shape=list(g.shape), want_shape=list(w.shape)))
            return False
        if g.size == 0:
            return True
        fin = np.isfinite(w)
        bad_nonfinite = (~fin) & ~((g == w) | (np.isnan(g) & np.isnan(w)))
        err = np.zeros(g.shape)
        with np.errstate(invalid='ignore', over='ignore'):
            err[fin] = np.abs(g[fin] - w[fin])
        err = np.where(np.isnan(err), np.inf, err)
        bound = atol + rtol * np.abs(np.where(fin, w, 0.0))
        with np.errstate(divide='ignore', invalid='ignore'):
            frac = np.where(err == 0, 0.0, err / np.where(bound > 0, bound, 1e-300))
            rel = np.where(err == 0, 0.0, err / np.maximum(np.abs(np.where(fin, w, 1.0)), 1e-300))
        mfrac = float(np.max(np.where(fin, frac, 0.0)))
        self.residual[monitor] = max(self.residual.get(monitor, 0.0), min(mfrac, 1e300))
        mrel = float(np.max(np.where(fin & (err <= bound), rel, 0.0)))
        self.relerr[monitor] = max(self.relerr.get(monitor, 0.0), mrel)
        ok = bool(np.all(err[fin] <= bound[fin])) and not bool(np.any(bad_nonfinite))
        if not ok:
            idx = np.unravel_index(int(np.argmax(np.where(fin, frac, np.inf * bad_nonfinite))), g.shape) \
                if g.ndim else ()
            self._fail(monitor, dict(witness, got=g[idx] if g.ndim else g, want=w[idx] if w.ndim else w,
                                     at=list(map(int, idx)) if g.ndim else [], rtol=rtol, atol=atol,
                                     nbad=int(np.sum(err > bound) + np.sum(bad_nonfinite)), size=int(g.size)))
        return ok

    def _fail(self, monitor, witness):
        """Record a failure.  It is classified at once (known-finding mechanism key or None) so that the
        detail cap is per (monitor, key) bucket: many hits of a known finding can never crowd out a different
        violation of the same monitor."""
        self.monitor_fail[monitor] += 1
        self.nfail += 1
        f = {'monitor': monitor, 'case': dict(self.case or {}), 'features': jsonable(self.features),
             'witness': jsonable(witness)}
        key = None
        if self.classifier is not None:
            try:
                key = self.classifier(f)
            except Exception as e:
                f['classify_error'] = repr(e)
        f['key'] = key
        b = '%s|%s' % (monitor, key)
        self.buckets[b] = self.buckets.get(b, 0) + 1
        if self.buckets[b] <= MAX_FAIL_DETAIL:
            self.failures.append(f)

    def fail_exception(self, exc, monitor='no-unlicensed-exception'):
        tb = traceback.format_exception(type(exc), exc, exc.__traceback__)
        self.monitors[monitor] += 0
        self._fail(monitor, {'exception': type(exc).__name__, 'message': str(exc)[:500],
                             'traceback': ''.join(tb)[-3000:]})

    def dump(self):
        return {
            'cases': self.cases, 'monitors': dict(self.monitors), 'monitor_fail': dict(self.monitor_fail),
            'classes': dict(self.classes), 'events': dict(self.events), 'licensed': dict(self.licensed),
            'residual': self.residual, 'relerr': self.relerr, 'sigs': sorted(self.sigs),
            'samples': self.samples, 'failures': self.failures, 'nfail': self.nfail, 'notes': self.notes,
            'buckets': self.buckets,
        }


def case_rng(seed, workload, shard, index):
    import numpy as np
    w = int.from_bytes(hashlib.blake2b(workload.encode(), digest_size=4).digest(), 'little')
    return np.random.default_rng([int(seed), w, int(shard), int(index)])


def load_module(prop):
    return importlib.import_module('vmon.props.' + prop.lower())


# ------------------------------------------------------------------ shard
def run_shard(args):
    mod = load_module(args.prop)
    import taurex
    assert os.path.realpath(taurex.__file__).startswith(os.path.realpath(os.environ.get('VMON_REPO', '/repo')) + os.sep), \
        'taurex imported from %s' % taurex.__file__
    import taurex.log
    taurex.log.disableLogging()
    import warnings
    warnings.filterwarnings('ignore')
    ctx = Ctx(args.prop, args.tier, args.seed, args.shard, args.nshards, args.pass_name)
    ctx.scratch = tempfile.mkdtemp(prefix='vmon-')
    ctx.classifier = getattr(mod, 'classify', None)
    cases = json.loads(args.cases)
    t0 = time.time()
    try:
        if hasattr(mod, 'setup'):
            mod.setup(ctx)
        only = json.loads(args.only) if args.only else None
        for wl, n in cases.items():
            fn = mod.WORKLOADS[wl]
            idxs = range(n)
            if only is not None:
                if only['workload'] != wl:
                    continue
                idxs = [only['index']]
            for i in idxs:
                ctx.begin_case(wl, i)
                rng = case_rng(args.seed, wl, args.shard, i)
                try:
                    fn(ctx, rng)
                except Exception as e:  # an escaped exception is a failure to classify
                    ctx.fail_exception(e)
        if hasattr(mod, 'teardown'):
            mod.teardown(ctx)
    finally:
        import shutil
        shutil.rmtree(ctx.scratch, ignore_errors=True)
    out = ctx.dump()
    out['wall_s'] = time.time() - t0
    with open(args.out, 'w') as fh:
        json.dump(out, fh)
    return 0


# ----------------------------------------------------------------- parent
def merge(parts):
    from collections import Counter
    m = {'cases': 0, 'monitors': Counter(), 'monitor_fail': Counter(), 'classes': Counter(),
         'events': Counter(), 'licensed': Counter(), 'residual': {}, 'relerr': {}, 'sigs': set(),
         'samples': [], 'failures': [], 'nfail': 0, 'notes': {}, 'passes': {}, 'buckets': Counter()}
    for p in parts:
        m['cases'] += p['cases']
        for k in ('monitors', 'monitor_fail', 'classes', 'events', 'licensed'):
            m[k].update(p[k])
        for k in ('residual', 'relerr'):
            for a, b in p[k].items():
                m[k][a] = max(m[k].get(a, 0.0), b)
        m['sigs'].update(p['sigs'])
        for s in p['samples']:
            if len(m['samples']) < MAX_SAMPLES:
                m['samples'].append(s)
        m['failures'].extend(p['failures'])
        m['nfail'] += p['nfail']
        m['buckets'].update(p.get('buckets', {}))
        m['notes'].update(p['notes'])
    return m


def load_known():
    path = os.path.join(ROOT, 'KNOWN_FINDINGS.json')
    if not os.path.exists(path):
        return []
    with open(path) as fh:
        return json.load(fh).get('findings', [])


def run_parent(args):
    t0 = time.time()
    mod = load_module(args.prop)
    prop = mod.PROPERTY
    tier, seed = args.tier, args.seed
    known = load_known()
    open_keys = {k['key']: k for k in known if k.get('property') == prop and k.get('status') == 'open'}
    only = None
    if args.replay:
        with open(args.replay) as fh:
            rep = json.load(fh)
        only = rep['case']
        seed = only['seed']
        tier = rep.get('tier', tier)
    passes = mod.BUDGET[tier]
    tmpdir = tempfile.mkdtemp(prefix='vmon-run-')
    parts, problems = [], []
    maxpar = int(os.environ.get('VMON_PAR', '16'))
    watchdog = float(os.environ.get('VMON_WATCHDOG', mod.__dict__.get('WATCHDOG', {}).get(tier, 3000)))
    try:
        jobs = []
        for pi, pas in enumerate(passes):
            if only is not None and pas['name'] != only.get('pass'):
                continue
            nsh = pas.get('shards', 1)
            if only is not None and only.get('nshards') != nsh:
                problems.append('replay: shard layout differs')
            jobs.append((pi, pas))
        running = []
        pending = []
        for pi, pas in jobs:
            nsh = pas.get('shards', 1)
            for s in (range(nsh) if only is None else [only['shard']]):
                pending.append((pi, pas, s))
        start = time.time()

        def launch(pi, pas, s):
            env = dict(os.environ)
            env.update({k: str(v) for k, v in pas.get('env', {}).items()})
            env['PYTHONHASHSEED'] = '0'
            env['PYTHONDONTWRITEBYTECODE'] = '1'
            out = os.path.join(tmpdir, 'p%d_s%d.json' % (pi, s))
            cmd = [sys.executable, '-m', 'vmon.runner', prop, '--tier', tier, '--seed', str(seed),
                   '--shard', str(s), '--nshards', str(pas.get('shards', 1)), '--pass-name', pas['name'],
                   '--cases', json.dumps(pas['cases']), '--out', out]
            if only is not None:
                cmd += ['--only', json.dumps({'workload': only['workload'], 'index': only['index']})]
            log = open(out + '.log', 'w')
            return (subprocess.Popen(cmd, env=env, stdout=log, stderr=subprocess.STDOUT, cwd=ROOT),
                    out, log, pas['name'], s, time.time())

        while pending or running:
            while pending and len(running) < maxpar:
                running.append(launch(*pending.pop(0)))
            still = []
            for pr, out, log, pname, s, st in running:
                rc = pr.poll()
                if rc is None:
                    if time.time() - st > watchdog:
                        pr.kill()
                        pr.wait()
                        log.close()
                        problems.append('watchdog fired on pass %s shard %d after %.0fs' % (pname, s, watchdog))
                    else:
                        still.append((pr, out, log, pname, s, st))
                    continue
                log.close()
                if rc != 0 or not os.path.exists(out):
                    tail = open(out + '.log').read()[-1500:]
                    problems.append('pass %s shard %d died rc=%s: %s' % (pname, s, rc, tail))
                else:
                    with open(out) as fh:
                        p = json.load(fh)
                    p['_pass'] = pname
                    parts.append(p)
            running = still
            if running:
                time.sleep(0.05)
    finally:
        import shutil
        shutil.rmtree(tmpdir, ignore_errors=True)

    m = merge(parts)
    per_pass = {}
    for p in parts:
        d = per_pass.setdefault(p['_pass'], {'cases': 0, 'shards': 0, 'wall_s': 0.0})
        d['cases'] += p['cases']
        d['shards'] += 1
        d['wall_s'] = max(d['wall_s'], p['wall_s'])

    # classify failures: every (monitor, key) bucket whose key is not an open known finding is a violation
    kf_hit, violations = {}, []
    for f in m['failures']:
        key = f.get('key')
        if key is not None and key in open_keys:
            kf_hit.setdefault(key, []).append(f)
        else:
            violations.append(f)
    kf_count, viol_count = {}, 0
    for b, cnt in m['buckets'].items():
        key = b.split('|', 1)[1]
        if key != 'None' and key in open_keys:
            kf_count[key] = kf_count.get(key, 0) + cnt
        else:
            viol_count += cnt
    undetailed = m['nfail'] - len(m['failures'])
    m['kf_count'], m['viol_count'] = kf_count, viol_count

    inconclusive = list(problems)
    if only is None:
        req = getattr(mod, 'REQUIRED', {})
        if isinstance(req, dict) and tier in req:
            req = req[tier]
        for mon in req.get('monitors', []):
            if m['monitors'].get(mon, 0) == 0:
                inconclusive.append('monitor %s had zero evaluations' % mon)
        for c in req.get('classes', []):
            if m['classes'].get(c, 0) == 0:
                inconclusive.append('class %s never observed' % c)
        if m['cases'] == 0:
            inconclusive.append('no cases executed')
        if len(m['sigs']) < 2:
            inconclusive.append('fewer than two distinct non-trivial cases')
    if hasattr(mod, 'finalize'):
        try:
            mod.finalize(m, inconclusive)
        except Exception as e:
            inconclusive.append('finalize failed: %r' % (e,))

    status = 'held'
    replay_paths = []
    if violations:
        status = 'violated'
        os.makedirs(os.path.join(ROOT, 'replays'), exist_ok=True)
        seen = set()
        for f in violations:
            c = f['case']
            tag = '%s-%s-%s-s%s-sh%s-i%s' % (prop, c.get('pass'), c.get('workload'), c.get('seed'),
                                           c.get('shard'), c.get('index'))
            if tag in seen:
                continue
            seen.add(tag)
            if len(seen) > 10:
                break
            path = os.path.join(ROOT, 'replays', tag + '.json')
            with open(path, 'w') as fh:
                json.dump({'property': prop, 'tier': tier, 'case': c,
                           'failures': [x for x in violations if x['case'] == c][:10]}, fh, indent=1)
            replay_paths.append(path)
    elif inconclusive:
        status = 'inconclusive'

    wall = time.time() - t0
    if only is None:
        write_evidence(mod, prop, tier, seed, m, per_pass, kf_hit, violations, inconclusive, status, wall,
                       undetailed)

    for key, fs in sorted(kf_hit.items()):
        print('KNOWN-FINDING: property=%s %s -- %s (hit %d times)' %
              (prop, key, open_keys[key].get('what', ''), m['kf_count'].get(key, len(fs))))
    print('%s %s tier=%s seed=%d cases=%d distinct=%d monitors=%d evaluations=%d wall=%.1fs' %
          (prop, status.upper(), tier, seed, m['cases'], len(m['sigs']), len(m['monitors']),
           sum(m['monitors'].values()), wall))
    if status == 'violated':
        shown = set()
        for f in violations[:12]:
            msg = json.dumps(f['witness'])[:600]
            k = (f['monitor'], f.get('key'))
            if k in shown:
                continue
            shown.add(k)
            print('  failed monitor=%s key=%s case=%s\n    %s' % (f['monitor'], f.get('key'),
                                                                 json.dumps(f['case']), msg))
        for pth in replay_paths[:1] or ['-']:
            print('VIOLATION property=%s replay=%s' % (prop, pth))
        return 1
    if status == 'inconclusive':
        for r in inconclusive[:10]:
            print('INCONCLUSIVE property=%s reason=%s' % (prop, r[:1500]))
        return 2
    return 0


def write_evidence(mod, prop, tier, seed, m, per_pass, kf_hit, violations, inconclusive, status, wall,
                   undetailed):
    cov = {
        'evaluations': int(m['cases']),
        'distinct_nontrivial': int(len(m['sigs'])),
        'rule': getattr(mod, 'RULE', ''),
        'samples': m['samples'] or ['(none recorded)'],
        'status': status,
        'monitor_evaluations': dict(sorted(m['monitors'].items())),
        'monitor_failures': dict(sorted(m['monitor_fail'].items())),
        'oracle_checks_total': int(sum(m['monitors'].values())),
        'classes_observed': dict(sorted(m['classes'].items())),
        'events_by_type': dict(sorted(m['events'].items())),
        'licensed_exceptions_seen': dict(sorted(m['licensed'].items())),
        'max_fraction_of_tolerance_used': {k: float('%.3g' % v) for k, v in sorted(m['residual'].items())},
        'max_relative_error_observed': {k: float('%.3g' % v) for k, v in sorted(m['relerr'].items())},
        'passes': per_pass,
        'known_findings_hit': dict(m.get('kf_count', {})),
        'inconclusive_reasons': inconclusive,
        'notes': m['notes'],
        'sanitizer_env': {p['name']: p.get('env', {}) for p in mod.BUDGET[tier]},
        'failures_without_detail': int(undetailed),
    }
    ev = {
        'property_id': prop, 'tier': tier, 'seed': int(seed), 'level': 'exploration',
        'coverage': cov, 'assumptions': list(getattr(mod, 'ASSUMPTIONS', [])),
        'wall_s': round(wall, 2), 'violations': int(m.get('viol_count', len(violations))),
    }
    evdir = os.path.join(ROOT, 'evidence')
    if os.path.realpath(os.environ.get('VMON_REPO', '/repo')) != '/repo':
        evdir = os.path.join(ROOT, 'replays', 'evidence-scratch')    # runs against a scratch copy are not evidence
    os.makedirs(evdir, exist_ok=True)
    path = os.path.join(evdir, prop + '.json')
    try:
        import jsonschema
        with open('/root/.vp/EVIDENCE.schema.json') as fh:
            schema = json.load(fh)
        try:
            jsonschema.validate(ev, schema)
        except jsonschema.ValidationError as e:
            if status != 'inconclusive':
                print('evidence does not validate: %s' % e.message)
    except (ImportError, OSError):
        pass
    with open(path, 'w') as fh:
        json.dump(ev, fh, indent=1, sort_keys=True)


def main(argv=None):
    ap = argparse.ArgumentParser()
    ap.add_argument('prop')
    ap.add_argument('--tier', default=os.environ.get('VERIF_TIER', 'quick'), choices=['quick', 'thorough'])
    ap.add_argument('--seed', type=int, default=int(os.environ.get('VERIF_SEED', '0')))
    ap.add_argument('--replay')
    ap.add_argument('--shard', type=int)
    ap.add_argument('--nshards', type=int, default=1)
    ap.add_argument('--pass-name', default='main')
    ap.add_argument('--cases')
    ap.add_argument('--only')
    ap.add_argument('--out')
    args = ap.parse_args(argv)
    args.prop = args.prop.upper()
    if args.shard is not None:
        return run_shard(args)
    return run_parent(args)


if __name__ == '__main__':
    sys.exit(main())
