"""Independent reference implementations (plain loops, nothing imported from taurex).

Written from the property statements and the user documentation.  Constants
come from scipy.constants (CODATA), not from the repository.
"""
import math

import numpy as np
import scipy.constants as sc

KB = sc.k
H = sc.h
C = sc.c
G = sc.G
AMU = sc.physical_constants['atomic mass constant'][0]


# --------------------------------------------------------------- geometry
def chords(shell_radii, b):
    """Chord lengths of a ray with impact parameter b through concentric shells.

    shell_radii: increasing radii r_0 < r_1 < ... < r_n (n shells between them).
    Returns list of length n: 2*(sqrt(r_{j+1}^2-b^2) - sqrt(max(r_j^2-b^2,0))) (0 when the shell lies inside b).
    """
    out = []
    for j in range(len(shell_radii) - 1):
        r0, r1 = shell_radii[j], shell_radii[j + 1]
        if r1 <= b:
            out.append(0.0)
            continue
        outer = math.sqrt(r1 * r1 - b * b)
        inner = math.sqrt(r0 * r0 - b * b) if r0 > b else 0.0
        out.append(2.0 * (outer - inner))
    return out


def path_lengths_new(Rp, z_bound, z_mid):
    """New path method: shells at the layer boundaries, tangent at the layer mid altitude."""
    n = len(z_mid)
    radii = [Rp + zb for zb in z_bound]
    res = []
    for i in range(n):
        b = Rp + z_mid[i]
        res.append(chords(radii, b)[i:])
    return res


def path_lengths_old(Rp, z, dz):
    """Old path method as documented in the pinned code: tangent radius Rp+dz0/2+z_i, shell j spans
    [Rp+dz0/2+z_{j-1}+dz_{j-1}/2, Rp+dz0/2+z_j+dz_j/2], the first crossed shell starts at the tangent point."""
    n = len(z)
    res = []
    for i in range(n):
        b = Rp + dz[0] / 2.0 + z[i]
        row = []
        for j in range(i, n):
            outer_r = Rp + dz[0] / 2.0 + z[j] + dz[j] / 2.0
            outer = math.sqrt(outer_r * outer_r - b * b)
            if j == i:
                inner = 0.0
            else:
                inner_r = Rp + dz[0] / 2.0 + z[j - 1] + dz[j - 1] / 2.0
                inner = math.sqrt(inner_r * inner_r - b * b)
            row.append(2.0 * (outer - inner))
        res.append(row)
    return res


# ------------------------------------------------------------ transmission
def slant_tau(sigmas, density, paths):
    """tau[i, wn] = sum_c sum_{j>=i} sigma_c[j, wn] * density[j]**p_c * L[i][j-i].

    sigmas: list of (sigma[n, nwn], power) with power 1 (ordinary) or 2 (CIA).
    Cloud decks are passed separately (they act on the tangent layer only).
    """
    n = len(density)
    nwn = sigmas[0][0].shape[1] if sigmas else 0
    tau = np.zeros((n, nwn))
    for i in range(n):
        for sig, power in sigmas:
            for j in range(i, n):
                L = paths[i][j - i]
                tau[i] += sig[j] * (density[j] ** power) * L
    return tau


def transit_depth(Rp, Rs, z, dz, tau):
    """(Rp^2 + 2 sum_i (Rp+z_i)(1-exp(-tau_i)) dz_i)/Rs^2."""
    nwn = tau.shape[1]
    acc = np.zeros(nwn)
    for i in range(len(z)):
        acc += (Rp + z[i]) * (1.0 - np.exp(-tau[i])) * dz[i]
    return (Rp * Rp + 2.0 * acc) / (Rs * Rs)


# ---------------------------------------------------------------- emission
def planck_taurex_units(wn, T):
    """pi * B_lambda * 1e-6  [W m-2 um-1], wn in cm-1 (the code's unit convention)."""
    wl = 1e4 / np.asarray(wn, dtype=float) * 1e-6     # metres
    x = H * C / (wl * KB * T)
    with np.errstate(over='ignore'):
        return math.pi * (2.0 * H * C * C) / wl ** 5 / np.expm1(x) * 1e-6


def gauss_legendre_unit(n):
    """Nodes/weights on [0, 1] from scipy.special.roots_legendre."""
    from scipy.special import roots_legendre
    x, w = roots_legendre(n)
    return (x + 1.0) / 2.0, w / 2.0


def emission_intensity(layer_dtau, Bsurf, Blayers, mu):
    """I(mu) = B_surf*exp(-tau_s/mu) + sum_l B_l (exp(-tau_{>l}/mu) - exp(-tau_{>=l}/mu)).

    layer_dtau[l, wn] : vertical optical depth of layer l alone.  Blayers[l, wn].
    """
    n, nwn = layer_dtau.shape
    above = np.zeros((n + 1, nwn))       # above[l] = sum_{k>=l} dtau_k
    for l in range(n - 1, -1, -1):
        above[l] = above[l + 1] + layer_dtau[l]
    I = Bsurf * np.exp(-above[0] / mu)
    for l in range(n):
        I = I + Blayers[l] * (np.exp(-above[l + 1] / mu) - np.exp(-above[l] / mu))
    return I


def emission_flux(layer_dtau, T, wn, ngauss):
    """F = 2 pi sum_i w_i mu_i I(mu_i), I in units of planck_taurex_units/pi."""
    mus, ws = gauss_legendre_unit(ngauss)
    B = np.array([planck_taurex_units(wn, t) / math.pi for t in T])
    F = np.zeros(len(wn))
    Is = []
    for m, w in zip(mus, ws):
        I = emission_intensity(layer_dtau, B[0], B, m)
        Is.append(I)
        F += 2.0 * math.pi * w * m * I
    return F, np.array(Is)


# ------------------------------------------------------------ interpolation
def bracket(grid, v):
    """Indices (lo, hi) of the bracketing nodes, clamped to the grid."""
    n = len(grid)
    if v <= grid[0]:
        return 0, 0
    if v >= grid[-1]:
        return n - 1, n - 1
    hi = int(np.searchsorted(grid, v, side='right'))
    lo = hi - 1
    if grid[lo] == v:
        return lo, lo
    return lo, hi


def interp_TP(Tgrid, logPgrid, table, T, logP, mode='linear'):
    """Clamped interpolation: bilinear in (T, log10 P) or exp-in-1/T, linear in log P.  table[P, T, ...]."""
    t0, t1 = bracket(Tgrid, T)
    p0, p1 = bracket(logPgrid, logP)

    def in_T(pidx):
        a, b = table[pidx, t0], table[pidx, t1]
        if t0 == t1:
            return a
        Tmin, Tmax = Tgrid[t0], Tgrid[t1]
        if mode == 'linear':
            return a + (b - a) * (T - Tmin) / (Tmax - Tmin)
        with np.errstate(divide='ignore', invalid='ignore'):
            return a * np.exp(Tmax * (Tmin - T) / (T * (Tmax - Tmin)) * np.log(a / b))
    a = in_T(p0)
    if p0 == p1:
        return a
    b = in_T(p1)
    return a + (b - a) * (logP - logPgrid[p0]) / (logPgrid[p1] - logPgrid[p0])


# ----------------------------------------------------------------- binning
def overlap_mean(nlo, nhi, f, tlo, thi, err=None):
    """Overlap-weighted mean of native bins [nlo_i, nhi_i] onto targets [tlo_k, thi_k].

    Returns (values, errors-or-None, total-overlap).  Bins with zero total overlap get nan.
    """
    f = np.asarray(f, dtype=float)
    K = len(tlo)
    shape = (K,) if f.ndim == 1 else f.shape[:-1] + (K,)
    out = np.full(shape, np.nan)
    oute = None if err is None else np.full(K, np.nan)
    tot = np.zeros(K)
    for k in range(K):
        ov = np.minimum(nhi, thi[k]) - np.maximum(nlo, tlo[k])
        ov = np.where(ov > 0, ov, 0.0)
        s = ov.sum()
        tot[k] = s
        if s > 0:
            out[..., k] = (f * ov).sum(axis=-1) / s
            if err is not None:
                oute[k] = math.sqrt(((ov * err) ** 2).sum()) / s
    return out, oute, tot


# ------------------------------------------------------------- statistics
def weighted_mean_var(x, w):
    """Two-pass weighted mean and (population, weight-normalised) variance."""
    x = np.asarray(x, dtype=float)
    w = np.asarray(w, dtype=float)
    W = w.sum()
    wshape = w.reshape((-1,) + (1,) * (x.ndim - 1))
    mean = (x * wshape).sum(axis=0) / W
    var = (wshape * (x - mean) ** 2).sum(axis=0) / W
    return mean, var


def weighted_quantile_bracket(x, w, q):
    """Interval that any 'sort, cumulate normalised weights, interpolate q' rule must return into
    when sample values may tie.  Returns (lo, hi, exact) -- exact is the value when all x distinct."""
    x = np.asarray(x, dtype=float)
    w = np.asarray(w, dtype=float)
    order = np.argsort(x, kind='stable')
    xs, ws = x[order], w[order]
    cdf = np.cumsum(ws)
    cdf = cdf / cdf[-1]
    exact = float(np.interp(q, cdf, xs))
    return exact


# ------------------------------------------------------------- hydrostatics
def hydrostatic(T, P_levels, mu, mass, radius):
    """z boundaries, dz, H, g per layer from the statement: dz = H ln(P_lo/P_up), H = kT/(mu g), g = GM/(R+z)^2."""
    n = len(T)
    z = [0.0]
    Hs, gs, dzs = [], [], []
    for i in range(n):
        g = G * mass / (radius + z[i]) ** 2
        Hh = KB * T[i] / (mu[i] * g)
        dz = Hh * math.log(P_levels[i] / P_levels[i + 1])
        gs.append(g)
        Hs.append(Hh)
        dzs.append(dz)
        z.append(z[i] + dz)
    return np.array(z), np.array(dzs), np.array(Hs), np.array(gs)


# ------------------------------------------------------------ self tests
def self_test():
    """Closed-form cross-checks of the reference models; a failure makes a run inconclusive."""
    problems = []
    # chords of one ray sum to the full chord through the outermost shell
    radii = [1.0, 1.5, 2.0, 3.5]
    b = 1.2
    cs = chords(radii, b)
    if abs(sum(cs) - 2 * math.sqrt(3.5 ** 2 - b * b)) > 1e-12:
        problems.append('chords do not sum to the full chord')
    # homogeneous isothermal slab emits B(T) at any mu
    wn = np.array([500.0, 1500.0, 4000.0])
    dt = np.full((4, 3), 0.7)
    F, Is = emission_flux(dt, [900.0] * 4, wn, 3)
    if np.max(np.abs(F / planck_taurex_units(wn, 900.0) - 1)) > 1e-13:
        problems.append('isothermal slab flux != pi B')
    # binning a constant stays constant
    v, e, t = overlap_mean(np.array([0., 1., 2.]), np.array([1., 2., 3.]), np.array([5., 5., 5.]),
                           np.array([0.5]), np.array([2.5]))
    if abs(v[0] - 5.0) > 1e-14:
        problems.append('overlap mean of constant')
    # interpolation reproduces nodes
    Tg = np.array([100., 200.]); Pg = np.array([0., 1.]); tab = np.array([[1., 2.], [3., 4.]])
    if interp_TP(Tg, Pg, tab, 200., 1.) != 4.0 or abs(interp_TP(Tg, Pg, tab, 150., .5) - 2.5) > 1e-15:
        problems.append('interp_TP')
    return problems
