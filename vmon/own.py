"""Ownership of arrays and objects across calls (runtime monitor used by several properties).

A caller may (1) keep an earlier result while it asks for the next one, (2) re-use its own work array for the next call
(refill it in place), (3) change or discard what it handed in once the call has returned.  The ledger records

  * ``lend(arr)``      -- an input the workload owns: snapshot at hand-over; ``settle`` requires that the call(s) made since
                         left it exactly as it was (monitor ``caller-input-left-alone``);
  * ``keep(arr)``      -- a result the workload received: reference + snapshot; ``settle`` requires that later calls into
                         the library did not change it (monitor ``earlier-result-stays-as-returned``), and that no two
                         kept results of different calls share memory while differing in what they should hold
                         (covered by the same comparison: each is compared with its own snapshot);
  * ``refill(arr, v)`` -- the workload overwrites ITS OWN input array in place with other content (a re-used work vector,
                         or garbage once the call has returned): anything the library kept by reference instead of by
                         value now sees the new content.

Nothing here writes into arrays the library handed out.
"""
import numpy as np


class Ledger:
    def __init__(self, ctx, tag=''):
        self.ctx = ctx
        self.tag = tag
        self.lent = []
        self.kept = []

    @staticmethod
    def _snap(a):
        return np.array(a, copy=True)

    def lend(self, arr, label):
        if isinstance(arr, np.ndarray):
            self.lent.append((arr, self._snap(arr), label))
        return arr

    def keep(self, arr, label):
        if isinstance(arr, np.ndarray) and arr.size:
            self.kept.append((arr, self._snap(arr), label))
        return arr

    def refill(self, arr, values=None):
        """The workload's own array gets other content in place (values=None: NaN / a sentinel for integer arrays)."""
        self.lent = [t for t in self.lent if t[0] is not arr]
        if values is None:
            arr[...] = np.nan if arr.dtype.kind == 'f' else -1
        else:
            arr[...] = values
        return arr

    @staticmethod
    def _same(a, b):
        return a.shape == b.shape and bool(np.array_equal(a, b, equal_nan=True))

    def settle(self, what=''):
        c = self.ctx
        for arr, snap, label in self.lent:
            c.check('caller-input-left-alone', self._same(np.asarray(arr), snap), array=label, after=what, tag=self.tag)
        self.lent = []
        for arr, snap, label in self.kept:
            ok = self._same(np.asarray(arr), snap)
            wit = {}
            if not ok and arr.shape == snap.shape and arr.dtype.kind == 'f':
                with np.errstate(all='ignore'):
                    d = np.abs(np.asarray(arr, dtype=float) - np.asarray(snap, dtype=float))
                    wit = dict(max_abs_change=float(np.nanmax(d)) if np.any(np.isfinite(d)) else None,
                               first_was=float(np.ravel(snap)[0]), first_is=float(np.ravel(arr)[0]))
            c.check('earlier-result-stays-as-returned', ok, array=label, after=what, tag=self.tag, **wit)

    def forget_results(self):
        self.kept = []
