"""Shared helpers of the C06 / C09 checks: sampler doubles on sys.path, the nestle tap, world + observation
generator, fitted-parameter catalogue with declared priors, independent inverse CDFs, the shadow model and the
overlap-mean binning reference.  Nothing here looks at private state of the optimizer.
"""
import math
import os
import sys

import numpy as np
from scipy.special import ndtri

from vmon import refmodel as R
from vmon import world

DOUBLES = os.path.join(os.path.dirname(os.path.abspath(__file__)), 'doubles')
_saved = {}


# ------------------------------------------------------------------ doubles
def use_doubles():
    """Put the doubles on sys.path (only the C06/C09 shard processes do this) and return the shared recorder."""
    if DOUBLES not in sys.path:
        sys.path.insert(0, DOUBLES)
    # the directory also holds the mpi4py double of the parallel-post-processing check; C06/C09 are single-process
    # properties and run taurex.mpi exactly as on a machine without mpi4py (its ImportError branches)
    if 'mpi4py' not in sys.modules:
        sys.modules['mpi4py'] = None
        _saved['mpi4py-blocked'] = True
    import vmon_double_common
    import pymultinest
    import pypolychord
    for m in (pymultinest, pypolychord):
        assert os.path.realpath(m.__file__).startswith(os.path.realpath(DOUBLES) + os.sep), m.__file__
    return vmon_double_common.RECORDER


def drop_doubles():
    if DOUBLES in sys.path:
        sys.path.remove(DOUBLES)
    if _saved.pop('mpi4py-blocked', None) and sys.modules.get('mpi4py', 0) is None:
        del sys.modules['mpi4py']


def install_nestle_tap():
    """Replace the module attribute nestle.sample (the wrapper calls ``nestle.sample(...)``) by a recording stand-in
    that drives the callbacks the way nestle does (``v[:] = prior_transform(u)``; ``logl = loglikelihood(v)`` on
    float64 rows) and returns a nestle.Result built from the designed sample set."""
    import nestle
    from vmon_double_common import RECORDER, exc_repr, run_entry_hooks
    if 'nestle.sample' in _saved:
        return
    _saved['nestle.sample'] = nestle.sample

    def sample(loglikelihood, prior_transform, ndim, npoints=100, method='single', update_interval=None, npdim=None,
               maxiter=None, maxcall=None, dlogz=None, decline_factor=None, rstate=None, callback=None,
               queue_size=None, pool=None, logl_args=None, logl_kwargs=None, prior_args=None, prior_kwargs=None,
               **options):
        if method not in ('classic', 'single', 'multi'):
            raise ValueError('Unknown method: %r' % (method,))
        if npdim is None:
            npdim = ndim
        call = {'sampler': 'nestle', 'ndim': int(ndim), 'loglike': loglikelihood, 'prior': prior_transform,
                'kwargs': dict(npoints=npoints, method=method, dlogz=dlogz, maxiter=maxiter, maxcall=maxcall,
                               npdim=npdim, options=dict(options)),
                'records': [], 'files': {}}
        RECORDER.calls.append(call)
        work_v, work_u = np.empty(ndim), np.empty(ndim)
        for k, entry in enumerate(RECORDER.script):
            rec = {'entry': k, 'u': None, 'theta': None, 'prior_exc': None, 'loglike': None, 'loglike_exc': None,
                   'loglike_type': None}
            call['records'].append(rec)
            v = work_v if RECORDER.reuse_buffers else np.empty(ndim)
            if 'u' in entry:
                if RECORDER.reuse_buffers:
                    work_u[:] = np.array(entry['u'], dtype=float)
                    u = work_u
                else:
                    u = np.array(entry['u'], dtype=float)
                rec['u'] = u.tolist()
                try:
                    v[:] = prior_transform(u)
                except Exception as e:
                    rec['prior_exc'] = exc_repr(e)
                    continue
            else:
                v[:] = np.array(entry['theta'], dtype=float)
            rec['theta'] = v.tolist()
            run_entry_hooks(entry, 'arm')
            try:
                val = loglikelihood(v)
                rec['loglike_type'] = type(val).__name__
                rec['loglike'] = float(val)
                rec['theta_after'] = v.tolist()
            except Exception as e:
                rec['loglike_exc'] = exc_repr(e)
            finally:
                run_entry_hooks(entry, 'disarm')
        d = RECORDER.design
        if d is None:
            raise RuntimeError('nestle tap: the workload supplied no designed sample set')
        x = np.array(d['samples'], dtype=float).reshape(-1, ndim)
        w = np.array(d['weights'], dtype=float)
        n = len(w)
        return nestle.Result(niter=n, ncall=10 * n, logz=float(d.get('logz', -10.0)), logzerr=float(d.get('logzerr', 0.1)),
                             h=float(d.get('h', 1.5)), samples=x, weights=w,
                             logvol=-np.arange(1, n + 1) / max(npoints, 1),
                             logl=np.array(d['loglike'], dtype=float))
    nestle.sample = sample


def remove_nestle_tap():
    import nestle
    if 'nestle.sample' in _saved:
        nestle.sample = _saved.pop('nestle.sample')


# ---------------------------------------------------------------- the world
def draw_world(rng, tkind=None, want_clouds=None, max_height=0.7):
    """A bound synthetic world with a FINE common native grid (linear or logarithmic, 150..400 points)."""
    for _ in range(80):
        tk = tkind or ['isothermal', 'npoint', 'guillot'][rng.integers(0, 3)]
        nact = int(rng.integers(1, 3))
        spec = world.random_world_spec(rng, nlayers=int(rng.choice([3, 5, 8])), nwn=4, n_active=nact,
                                       gas_kinds=['constant', 'constant', 'twolayer'], tkind=tk,
                                       magnitude=['thin', 'mixed'][rng.integers(0, 2)],
                                       n_inactive_trace=int(rng.integers(0, 2)))
        if tk == 'npoint':
            n = int(rng.integers(1, 3))
            spec['temperature'] = {'kind': 'npoint', 'T_surface': float(rng.uniform(300, 2500)),
                                   'T_top': float(rng.uniform(300, 2500)),
                                   'temperature_points': [float(v) for v in rng.uniform(300, 2500, n)],
                                   'frac_points': sorted(float(v) for v in (rng.uniform(0.25, 0.4, 1) if n == 1 else
                                                                            [rng.uniform(0.2, 0.35), rng.uniform(0.6, 0.75)])),
                                   'smoothing_window': int(rng.choice([1, 5, 10]))}
        kind = ['linear', 'log'][rng.integers(0, 2)]
        lo = float(10 ** rng.uniform(2.3, 3.0))
        hi = lo * float(10 ** rng.uniform(0.5, 1.0))
        wn = world.wn_grid(rng, int(rng.integers(150, 401)), kind=kind, lo=lo, hi=hi)
        spec['native_kind'] = kind
        spec['interpolation'] = 'linear'
        for m in list(spec['tables']):
            T, P, x = world.make_table(rng, spec['magnitude'], int(rng.integers(2, 5)), int(rng.integers(2, 5)), wn,
                                       allow_zero=False)
            spec['tables'][m] = {'wn': wn, 'T': T, 'P': P, 'xsec': x}
        contribs = ['Absorption']
        clouds = (rng.random() < 0.5) if want_clouds is None else want_clouds
        if clouds:
            lp = rng.uniform(np.log10(spec['pmin']) + 0.3, np.log10(spec['pmax']) - 0.3)
            contribs.append({'name': 'SimpleClouds', 'clouds_pressure': float(10 ** lp)})
        if rng.random() < 0.3:
            contribs.append('Rayleigh')
        spec['contributions'] = contribs
        if world.is_bound(spec, max_height_in_radii=max_height):
            return spec
    raise RuntimeError('generator could not draw a bound atmosphere')


def install(spec):
    world.reset_caches()
    world.install_opacities(spec)


def build(spec):
    """A fresh, built model of the world (the caches must hold the world's opacities: install(spec))."""
    m = world.build_model(spec, 'transmission')
    world.add_contributions(m, spec)
    m.build()
    return m


# --------------------------------------------------------- binning reference
def native_bins(wn):
    e = np.concatenate([[wn[0] - (wn[1] - wn[0]) / 2.0], (wn[:-1] + wn[1:]) / 2.0, [wn[-1] + (wn[-1] - wn[-2]) / 2.0]])
    w = np.abs(np.diff(e))
    return wn - w / 2.0, wn + w / 2.0


def bin_ref(wn, f, centres, widths):
    nlo, nhi = native_bins(np.asarray(wn, dtype=float))
    v, _, tot = R.overlap_mean(nlo, nhi, np.asarray(f, dtype=float), centres - widths / 2.0, centres + widths / 2.0)
    return v, tot


def draw_obs_layout(rng, wn, kmax=40):
    """Observation bins on a REGULAR wavenumber grid well inside the native range: spacing D >= 4.5 native spacings
    anywhere under the bins (+2D margin), declared widths <= D (C13's width condition).  Returns None if the native
    grid cannot carry any such layout."""
    lo, hi = float(wn[0]), float(wn[-1])
    for _ in range(100):
        K = int(rng.integers(3, kmax + 1))
        a, b = sorted(rng.uniform(lo + 0.08 * (hi - lo), hi - 0.08 * (hi - lo), 2))
        if b - a < 0.15 * (hi - lo):
            continue
        D = (b - a) / K
        if a - 2.5 * D <= lo or b + 2.5 * D >= hi:
            continue
        sel = (wn >= a - 2.5 * D) & (wn <= b + 2.5 * D)
        spacing = float(np.max(np.diff(wn[sel]))) if sel.sum() > 1 else np.inf
        if spacing * 4.5 > D:
            continue
        c = a + D * (np.arange(K) + 0.5)
        kindw = int(rng.integers(0, 3))
        if kindw == 0:
            w = np.full(K, D)
        elif kindw == 1:
            w = rng.uniform(0.2, 1.0, K) * D
        else:
            w = np.full(K, float(rng.uniform(0.3, 1.0)) * D)
        if rng.random() < 0.25 and K >= 4:
            # one or two broad bins laid over the channels (a white-light / photometric point among spectroscopic
            # channels): bins overlap each other, a wider bin follows narrower ones in centre order
            tied = False
            for _b in range(int(rng.integers(1, 3))):
                k = float(rng.uniform(2.0, K - 1.0))
                half = 0.5 * k * D
                cc = float(rng.uniform(a + half, b - half))
                if rng.random() < 0.35:
                    # centred EXACTLY on a channel: two bins share a centre and differ in width
                    inside = np.where((c[:K] - half >= a - 1e-9 * D) & (c[:K] + half <= b + 1e-9 * D))[0]
                    if len(inside):
                        cc = float(c[int(inside[rng.integers(0, len(inside))])])
                        if np.sum(c == cc) == 1:
                            c = np.append(c, cc)
                            w = np.append(w, 2 * half)
                            tied = True
                        continue
                cc += 0.013 * D                      # otherwise clear of every channel centre
                if cc + half <= b + 1e-9 * D and np.min(np.abs(c - cc)) > 1e-3 * D:
                    c = np.append(c, cc)
                    w = np.append(w, 2 * half)
            order = np.lexsort((w, c))
            c, w = c[order], w[order]
            return {'c': c, 'w': w, 'D': D, 'K': len(c), 'width_kind': 3, 'native_spacing': spacing, 'tied_centres': tied}
        return {'c': c, 'w': w, 'D': D, 'K': K, 'width_kind': kindw, 'native_spacing': spacing}
    return None


_offset_cls = {}


def offset_spectrum_class():
    """An observation with a fitting parameter of its own: an additive offset on the observed values (two instruments
    with an unknown zero point) -- the kind of observation parameter C06/C07 quantify over."""
    if 'cls' in _offset_cls:
        return _offset_cls['cls']
    from taurex.data.spectrum.array import ArraySpectrum
    from taurex.data.fittable import fitparam

    class OffsetSpectrum(ArraySpectrum):
        def __init__(self, rows, offset=0.0):
            super().__init__(rows)
            self._vmon_offset = float(offset)

        @property
        def spectrum(self):
            return ArraySpectrum.spectrum.fget(self) + self._vmon_offset

        @fitparam(param_name='obs_offset', param_latex='$\\Delta$', default_fit=False, default_bounds=[-1.0, 1.0])
        def obsOffset(self):
            return self._vmon_offset

        @obsOffset.setter
        def obsOffset(self, value):
            self._vmon_offset = float(value)
    _offset_cls['cls'] = OffsetSpectrum
    return OffsetSpectrum


def make_observation(rng, layout, values, sigma, shuffle=True, with_offset=False):
    """ArraySpectrum rows (wavelength[um], value, error, width[um]) for designed WAVENUMBER bins c +- w/2: the width
    handed in is 1e4*w/c^2, which the loader converts back to w."""
    from taurex.data.spectrum.array import ArraySpectrum
    c, w = layout['c'], layout['w']
    rows = np.stack([1e4 / c, values, sigma, 1e4 * w / c ** 2]).T
    order = rng.permutation(len(c)) if shuffle else np.arange(len(c))
    if with_offset:
        return offset_spectrum_class()(rows[order].copy(), 0.0), order
    return ArraySpectrum(rows[order].copy()), order


# ------------------------------------------------------- parameter catalogue
def catalogue(spec, model):
    """Fit parameters this generator drives: name -> dict(comp, valid=(lo, hi) in linear values, positive, and
    optionally invalid=dict(cls, edge, beyond): values at/after ``beyond`` (towards ``edge``) are an invalid
    atmosphere of class ``cls`` by the documented rules)."""
    P = np.asarray(model.pressureProfile, dtype=float)       # layer-centre pressures, bottom first
    cat = {}
    cat['planet_radius'] = dict(comp='planet', valid=(0.85 * spec['planet_radius'], 1.15 * spec['planet_radius']))
    cat['planet_mass'] = dict(comp='planet', valid=(0.85 * spec['planet_mass'], 1.2 * spec['planet_mass']))
    t = spec['temperature']
    if t['kind'] != 'npoint':          # N-point pressure nodes are tied to the pressure range
        cat['atm_max_pressure'] = dict(comp='pressure', valid=(spec['pmax'] / 2.5, spec['pmax'] * 2.5))
        cat['atm_min_pressure'] = dict(comp='pressure', valid=(spec['pmin'] / 2.0, spec['pmin'] * 2.5))
    if t['kind'] == 'isothermal':
        cat['T'] = dict(comp='temperature', valid=(0.75 * t['T'], 1.25 * t['T']))
    elif t['kind'] == 'npoint':
        cat['T_surface'] = dict(comp='temperature', valid=(0.75 * t['T_surface'], 1.25 * t['T_surface']))
        cat['T_top'] = dict(comp='temperature', valid=(0.75 * t['T_top'], 1.25 * t['T_top']))
        cat['T_point1'] = dict(comp='temperature', valid=(0.75 * t['temperature_points'][0], 1.25 * t['temperature_points'][0]))
        nodes = [model['P_point%d' % (i + 1)] for i in range(len(t['temperature_points']))]
        lower = nodes[1] if len(nodes) > 1 else P[-1]
        # valid: strictly between the neighbouring nodes with a factor 1.5 clearance; invalid: at/above the bottom node
        cat['P_point1'] = dict(comp='temperature', valid=(lower * 1.5, P[0] / 1.5),
                               invalid=dict(cls='inverted-nodes', edge=P[0] * 30.0, beyond=P[0] * 1.2))
    elif t['kind'] == 'guillot':
        cat['T_irr'] = dict(comp='temperature', valid=(0.75 * t['T_irr'], 1.25 * t['T_irr']),
                            invalid=dict(cls='guillot', edge=-1000.0, beyond=-1.0, linear_only=True))
        cat['kappa_irr'] = dict(comp='temperature', valid=(0.5 * t['kappa_irr'], 2.0 * t['kappa_irr']),
                                invalid=dict(cls='guillot', edge=0.0, beyond=0.0, linear_only=True, face_only=True))
        cat['kappa_v1'] = dict(comp='temperature', valid=(0.5 * t['kappa_v1'], 2.0 * t['kappa_v1']))
        # alpha above one is not rejected by the package (open finding of C12): the profile is then NaN for part of the
        # range -- a model that is NaN in every bin without any exception.  'probe': priors may reach into that range.
        cat['alpha'] = dict(comp='temperature', valid=(0.05, 0.95), probe=(0.95, 2.0))
    nmol = len(spec['gases'])
    maxmix = 0.9 / (len(spec['tables']) + 2)
    for g in spec['gases']:
        if g['kind'] == 'constant':
            cat[g['mol']] = dict(comp='chemistry', valid=(1e-9, maxmix),
                                 invalid=dict(cls='chem>1', edge=3.0, beyond=1.05))
        elif g['kind'] == 'twolayer':
            cat[g['mol'] + '_surface'] = dict(comp='chemistry', valid=(1e-9, maxmix))
            cat[g['mol'] + '_top'] = dict(comp='chemistry', valid=(1e-9, maxmix))
    fill = spec['fill_gases']
    for gas in fill[1:]:
        cat['%s_%s' % (gas, fill[0])] = dict(comp='chemistry', valid=(0.01, 1.0))
    for c in spec['contributions']:
        if not isinstance(c, str) and c['name'] == 'SimpleClouds':
            cat['clouds_pressure'] = dict(comp='contribution', valid=(spec['pmin'] * 2.0, spec['pmax'] / 2.0))
    assert nmol >= 1
    return {k: v for k, v in cat.items() if k in model.fittingParameters}


PRIOR_KINDS = ['mode-linear', 'mode-log', 'Uniform', 'LogUniform', 'Gaussian', 'LogGaussian']


def declare_prior(rng, name, entry, with_invalid, kind=None, probe_ok=False):
    """Choose a prior for one parameter.  Returns a declaration: what the harness asked for, in its own words --
    space ('linear'|'log'), family ('uniform'|'gaussian'), the two numbers of the inverse CDF in that space."""
    lo, hi = entry['valid']
    inv = entry.get('invalid') if with_invalid else None
    kinds = list(PRIOR_KINDS)
    # (only the workload that judges accepted-but-NaN models asks for probing priors)
    probe = entry.get('probe') if (probe_ok == 'force' or (probe_ok and rng.random() < 0.5)) else None
    if probe is not None:
        kinds = ['mode-linear', 'Uniform']
    if inv is not None:
        kinds = ['mode-linear', 'Uniform'] if inv.get('linear_only') else ['mode-linear', 'mode-log', 'Uniform', 'LogUniform']
    kind = kind if kind in kinds else kinds[rng.integers(0, len(kinds))]
    space = 'log' if kind in ('mode-log', 'LogUniform', 'LogGaussian') else 'linear'
    tf = (lambda v: math.log10(v)) if space == 'log' else (lambda v: v)
    a, b = tf(lo), tf(hi)
    d = {'name': name, 'kind': kind, 'space': space, 'family': 'gaussian' if 'Gaussian' in kind else 'uniform',
         'valid': (a, b), 'invalid': None, 'comp': entry['comp']}
    if d['family'] == 'gaussian':
        mid = a + (b - a) * rng.uniform(0.35, 0.65)
        std = (b - a) * rng.uniform(0.03, 0.06)          # |z| <= 2.4 (u in [0.01, 0.99]) stays inside the valid range
        d['p'] = (float(mid), float(std))
        return d
    # uniform family: a random sub-interval of the valid range, optionally extended into the invalid zone
    x0, x1 = sorted(rng.uniform(0.0, 1.0, 2))
    if x1 - x0 < 0.2:
        x0, x1 = 0.1, 0.9
    p0, p1 = a + (b - a) * x0, a + (b - a) * x1
    if probe is not None:
        p1 = float(probe[1])                 # the prior reaches beyond the valid range (values there are labelled 'gray')
        d['probe'] = True
    if inv is not None:
        edge = tf(inv['edge']) if space == 'log' else inv['edge']
        beyond = tf(inv['beyond']) if space == 'log' else inv['beyond']
        if edge > b:
            p1 = edge
        else:
            p0 = edge
        d['invalid'] = {'cls': inv['cls'], 'beyond': float(beyond), 'high': bool(edge > b),
                        'face_only': bool(inv.get('face_only'))}
    d['p'] = (float(p0), float(p1))
    d['reversed'] = bool(rng.random() < 0.3)
    return d


def apply_prior(opt, d):
    """Hand the declaration to the real optimizer through its public settings API."""
    from taurex.core.priors import Uniform, LogUniform, Gaussian, LogGaussian
    n, (p0, p1) = d['name'], d['p']
    lin = (lambda v: 10 ** v) if d['space'] == 'log' else (lambda v: v)
    opt.enable_fit(n)
    if d['kind'] in ('mode-linear', 'mode-log'):
        opt.set_mode(n, 'log' if d['kind'] == 'mode-log' else 'linear')
        b = [lin(p0), lin(p1)]
        opt.set_boundary(n, b[::-1] if d.get('reversed') else b)
    elif d['kind'] == 'Uniform':
        opt.set_prior(n, Uniform(bounds=(p1, p0) if d.get('reversed') else (p0, p1)))
    elif d['kind'] == 'LogUniform':
        if d.get('reversed'):
            opt.set_prior(n, LogUniform(lin_bounds=(10 ** p0, 10 ** p1)))
        else:
            opt.set_prior(n, LogUniform(bounds=(p0, p1)))
    elif d['kind'] == 'Gaussian':
        opt.set_prior(n, Gaussian(mean=p0, std=p1))
    elif d['kind'] == 'LogGaussian':
        opt.set_prior(n, LogGaussian(mean=p0, std=p1))
    else:
        raise ValueError(d['kind'])


def inv_cdf(d, u):
    """Independent inverse CDF of a declaration at u (value in the prior's space)."""
    p0, p1 = d['p']
    if d['family'] == 'uniform':
        return p0 + u * (p1 - p0)
    return p0 + p1 * float(ndtri(u))


def to_value(d, theta):
    """Model value the sampled-space number stands for."""
    return 10.0 ** theta if d['space'] == 'log' else theta


def classify_theta(d, theta):
    """'valid' | 'invalid:<cls>' | 'gray' for one coordinate, decided from the declaration only."""
    if not np.isfinite(theta):
        return 'nonfinite'
    a, b = d['valid']
    inv = d['invalid']
    if inv is not None:
        if inv['high'] and theta >= inv['beyond']:
            return 'invalid:' + inv['cls']
        if not inv['high'] and theta <= inv['beyond']:
            return 'invalid:' + inv['cls']
    tol = 1e-9 * (abs(a) + abs(b))
    if a - tol <= theta <= b + tol:
        return 'valid'
    return 'gray'


def classify_vector(decls, theta):
    labels = [classify_theta(d, t) for d, t in zip(decls, theta)]
    for tag in ('nonfinite',):
        if tag in labels:
            return tag
    inv = [l for l in labels if l.startswith('invalid:')]
    if inv:
        return inv[0]
    if 'gray' in labels:
        return 'gray'
    return 'valid'


def draw_u(rng, d, want):
    """One cube coordinate whose prior image is in the wanted zone ('valid' | 'invalid' | 'lo' | 'hi')."""
    if d['family'] == 'gaussian':
        if want in ('lo', 'hi'):
            return 0.01 if want == 'lo' else 0.99
        return float(rng.uniform(0.01, 0.99))
    p0, p1 = d['p']
    inv = d['invalid']
    if inv is None:
        if want == 'lo':
            return 0.0
        if want == 'hi':
            return 1.0
        return float(rng.uniform(0.0, 1.0)) if rng.random() < 0.9 else float(rng.choice([0.0, 1.0]))
    # the prior runs from the valid side to the invalid edge; cdf of the two zone limits
    a, b = d['valid']
    if inv['high']:
        u_valid_max = (b - p0) / (p1 - p0)
        u_inv_min = (inv['beyond'] - p0) / (p1 - p0)
        if want == 'invalid':
            return 1.0 if (inv['face_only'] or rng.random() < 0.3) else float(rng.uniform(u_inv_min + 1e-6, 1.0))
        if want == 'hi':
            return 1.0
        if want == 'lo':
            return 0.0
        return float(rng.uniform(0.0, max(u_valid_max - 1e-6, 0.0)))
    u_valid_min = (a - p0) / (p1 - p0)
    u_inv_max = (inv['beyond'] - p0) / (p1 - p0)
    if want == 'invalid':
        return 0.0 if (inv['face_only'] or rng.random() < 0.3) else float(rng.uniform(0.0, max(u_inv_max - 1e-6, 0.0)))
    if want == 'hi':
        return 1.0
    if want == 'lo':
        return 0.0
    return float(rng.uniform(min(u_valid_min + 1e-6, 1.0), 1.0))


# ---------------------------------------------------------------- the shadow
def shadow_eval(spec, assignments, restricted_to=None):
    """A fresh, independently built model of the same world, parameters set through the public item access, evaluated
    on the FULL native grid.  Returns dict(wn, depth, trans, model) or {'rejected': exception name}.

    With ``restricted_to`` (a wavenumber grid) the same shadow is evaluated a second time on the grid clipped to it and
    'cutoff_differs' tells whether the two evaluations differ at a common wavenumber -- the only licensed reason is
    the tau > 10 early exit, which looks at the minimum over the COMPUTED wavenumbers (C13)."""
    from taurex.exceptions import InvalidModelException
    m = build(spec)
    for name, value in assignments:
        m[name] = value
    try:
        wn, depth, trans, _ = m.model()
        out = {'wn': np.array(wn, dtype=float), 'depth': np.array(depth, dtype=float),
               'trans': np.array(trans, dtype=float), 'model': m}
        if restricted_to is not None:
            wr, dr, _, _ = m.model(wngrid=np.asarray(restricted_to, dtype=float))
            common = np.isin(out['wn'], wr)
            a, b = out['depth'][common], np.asarray(dr, dtype=float)
            out['cutoff_differs'] = bool(a.shape != b.shape or not np.array_equal(a, b, equal_nan=True))
    except InvalidModelException as e:
        return {'rejected': type(e).__name__, 'model': m}
    return out


def gaussian_loglike(y, m, sigma):
    """-sum(log(sigma*sqrt(2pi))) - chi2/2 and its pieces."""
    norm = -float(np.sum(np.log(sigma * math.sqrt(2.0 * math.pi))))
    r = (y - m) / sigma
    chi2 = float(np.sum(r * r))
    return norm - 0.5 * chi2, norm, chi2, r


def loglike_tolerance(y, m, sigma, norm, chi2, eps_model=1e-13):
    """Allowed |got - want| on the log-likelihood.  The binned model of the code and of the reference agree to a
    relative eps_model = 1e-13 (C05 judges the binner to 1e-12; measured here: 5e-16, i.e. rounding), a
    residual r_k = (y_k - m_k)/sigma_k therefore moves by |m_k|/sigma_k * eps and
    d(chi2/2) <= sum |r_k| |m_k|/sigma_k eps + (1/2) sum (|m_k|/sigma_k eps)^2; plus 1e-12 relative for the sums."""
    amp = np.abs(m) / sigma * eps_model
    r = np.abs((y - m) / sigma)
    return float(np.sum(r * amp) + 0.5 * np.sum(amp * amp) + 1e-12 * (abs(norm) + 0.5 * chi2))


def disable_default_fits(opt, model, obs):
    for src in (model, obs):
        for n, t in list(src.fittingParameters.items()):
            if t[5]:
                opt.disable_fit(n)


def make_optimizer(sampler, obs, model, scratch, tag, **kw):
    if sampler == 'nestle':
        from taurex.optimizer.nestle import NestleOptimizer
        return NestleOptimizer(observed=obs, model=model, num_live_points=kw.pop('num_live_points', 20), **kw)
    if sampler == 'multinest':
        from taurex.optimizer.multinest import MultiNestOptimizer
        return MultiNestOptimizer(multi_nest_path=os.path.join(scratch, 'mn-%s' % tag), observed=obs, model=model,
                                  num_live_points=kw.pop('num_live_points', 20), **kw)
    if sampler == 'polychord':
        from taurex.optimizer.polychord import PolyChordOptimizer
        return PolyChordOptimizer(polychord_path=os.path.join(scratch, 'pc-%s' % tag), observed=obs, model=model, **kw)
    raise ValueError(sampler)
