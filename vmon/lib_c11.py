"""C11 helpers: icontract postconditions on the pressure grids, on Planet.calculate_scale_properties,
on SimpleForwardModel.initialize_profiles and on the profile dictionaries, judged against the
independent hydrostatic reference in vmon/refmodel.py.
"""
import functools
import math

import icontract
import numpy as np

from vmon import refmodel as R
from vmon.contracts import PostBroken
from vmon.lib_c12 import tap_init_deep, redeclare, GM_JUP, R_JUP, M_JUP, G_SI, PRESS_UNITS, read_columns  # noqa: F401

EPS = float(np.finfo(float).eps)
KB = R.KB
_h = {'ctx': None, 'installed': False}
MAX_HEIGHT_RADII = 2.0          # "bound": finite altitudes, top below 2 planetary radii above the surface
# C11 itself is the hydrostatic recursion only (no ray geometry): it is judged for every atmosphere whose altitudes stay
# finite and modest in double precision -- also loosely bound, extended ones (scale height above the distance from the
# centre) -- up to this height; the spectrum properties keep the tighter 'bound' domain
JUDGE_HEIGHT_RADII = 1.0e3
# amplification of a relative input difference by the bottom-up recursion is at most ((R+z_top)/R)^2 <= 9 here;
# inputs agree to ~1e-12 (unit conversions of M_J, R_J), rounding adds ~n*eps
HYDRO_RTOL = 1e-9
PER_LAYER_KEYS = ('temp_profile', 'density_profile', 'scaleheight_profile', 'altitude_profile', 'gravity_profile',
                  'pressure_profile', 'mu_profile')
MIX_KEYS = ('active_mix_profile', 'inactive_mix_profile')


def planet_mass_radius(planet):
    decl = planet.__dict__.get('_vmon_decl')
    if decl is not None and 'planet_mass' in decl[1]:
        return decl[1]['planet_mass'] * GM_JUP / G_SI, decl[1]['planet_radius'] * R_JUP
    return float(planet.fullMass), float(planet.fullRadius)


def reference(T, Pl, mu, planet):
    """(z, dz, H, g, bound) from the statement; ``bound`` is False for runaway / non-finite atmospheres."""
    m, r = planet_mass_radius(planet)
    with np.errstate(all='ignore'):
        try:
            z, dz, H, g = R.hydrostatic(np.asarray(T, dtype=float), np.asarray(Pl, dtype=float),
                                        np.asarray(mu, dtype=float), m, r)
        except (OverflowError, ZeroDivisionError, ValueError):
            return None, None, None, None, False
    bound = bool(np.all(np.isfinite(z)) and np.all(dz > 0) and z[-1] < MAX_HEIGHT_RADII * r)
    return z, dz, H, g, bound


def hydro_domain(T, Pl, mu):
    T = np.asarray(T, dtype=float)
    Pl = np.asarray(Pl, dtype=float)
    mu = np.asarray(mu, dtype=float)
    if T.ndim != 1 or T.size < 1 or Pl.shape != (T.size + 1,) or mu.shape != T.shape:
        return 'shapes'
    if not (np.all(np.isfinite(T)) and np.all(T > 0) and np.all(np.isfinite(mu)) and np.all(mu > 0)):
        return 'non-positive-T-or-mu'
    if not (np.all(np.isfinite(Pl)) and np.all(Pl > 0)):
        return 'non-positive-levels'
    if np.any(np.diff(Pl) >= 0):
        return 'levels-not-strictly-decreasing'
    return None


def install(ctx):
    _h['ctx'] = ctx
    if _h['installed']:
        return
    _h['installed'] = True
    from taurex.data.planet import BasePlanet
    from taurex.data.profiles.pressure.pressureprofile import SimplePressureProfile
    from taurex.data.profiles.pressure.arraypressure import ArrayPressureProfile
    from taurex.data.profiles.pressure.filepressure import FilePressureProfile
    from taurex.model.simplemodel import SimpleForwardModel
    import taurex.util.output as tout

    for c in (BasePlanet, SimplePressureProfile, ArrayPressureProfile, FilePressureProfile):
        tap_init_deep(c)

    # ------------------------------------------------------------ pressure grids
    def simple_grid_is_log_spaced_decreasing_with_geometric_mean_layers(self):
        c = _h['ctx']
        decl = self.__dict__.get('_vmon_decl')
        if decl is None or decl[0] != 'SimplePressureProfile':
            c.event('contract-domain-skip:grid:undeclared')
            return True
        d = decl[1]
        n, pmin, pmax = d['nlayers'], float(d['atm_min_pressure']), float(d['atm_max_pressure'])
        if not (isinstance(n, (int, np.integer)) and n >= 1 and 0 < pmin < pmax and math.isfinite(pmax)):
            c.event('contract-domain-skip:grid:outside-quantifier')
            return True
        if math.log10(pmax / pmin) / n < 1e-9:
            c.event('contract-domain-skip:grid:levels-not-representably-distinct')
            return True
        lev = np.asarray(self.pressure_profile_levels, dtype=float)
        P = np.asarray(self.profile, dtype=float)
        w = dict(nlayers=int(n), pmin=pmin, pmax=pmax)
        ok = c.check('contract:grid.lengths', lev.shape == (n + 1,) and P.shape == (n,) and self.nLayers == n
                     and self.nLevels == n + 1, levels=list(lev.shape), layers=list(P.shape), **w)
        if not ok:
            return True
        c.check('contract:grid.levels-strictly-decreasing', bool(np.all(np.diff(lev) < 0)), **w)
        want = np.array([pmax * (pmin / pmax) ** (i / n) for i in range(n + 1)])
        c.close('contract:grid.levels-log-spaced', lev, want, 1e-12, **w)
        c.close('contract:grid.layer-is-geometric-mean', P, np.sqrt(lev[:-1] * lev[1:]), 1e-13, **w)
        c.check('contract:grid.layer-between-levels', bool(np.all((P < lev[:-1]) & (P > lev[1:]))), **w)
        return True

    SimplePressureProfile.compute_pressure_profile = icontract.ensure(
        simple_grid_is_log_spaced_decreasing_with_geometric_mean_layers, error=PostBroken)(
        SimplePressureProfile.__dict__['compute_pressure_profile'])

    def declared_array(self):
        decl = self.__dict__.get('_vmon_decl')
        if decl is None:
            return None
        name, d = decl
        if name == 'ArrayPressureProfile':
            a = np.asarray(d['array'], dtype=float)
        elif name == 'FilePressureProfile':
            if d['units'] not in PRESS_UNITS:
                return None
            rows = read_columns(d['filename'], d['skiprows'], [int(d['usecols'])], d['delimiter'])
            a = np.array([r[0] for r in rows]) * PRESS_UNITS[d['units']]
        else:
            return None
        return a[::-1] if d['reverse'] else a

    def array_grid_has_one_layer_per_entry(self):
        c = _h['ctx']
        a = declared_array(self)
        if a is None or a.ndim != 1 or a.size < 2 or not np.all(np.isfinite(a)) or np.any(a <= 0):
            c.event('contract-domain-skip:array-grid:undeclared-or-fewer-than-two-positive-entries')
            return True
        n = a.size
        P = np.asarray(self.profile, dtype=float)
        lev = np.asarray(self.pressure_profile_levels, dtype=float)
        c.check('contract:array-grid.lengths', P.shape == (n,) and lev.shape == (n + 1,) and self.nLayers == n,
                layers=list(P.shape), levels=list(lev.shape), n=int(n), cls=type(self).__name__)
        if P.shape == (n,):
            c.close('contract:array-grid.profile-is-the-given-array', P, a, 1e-15, cls=type(self).__name__)
        if P.shape == (n,) and lev.shape == (n + 1,) and not _h.get('in_twin'):
            # the levels belong to the layer pressures the profile HOLDS (whatever order, unit or file they came in):
            # a fresh array profile given those layer pressures as they stand has the same levels
            _h['in_twin'] = True
            try:
                twin = ArrayPressureProfile(P.copy())
                twin.compute_pressure_profile()
                tl = np.asarray(twin.pressure_profile_levels, dtype=float)
            finally:
                _h['in_twin'] = False
            c.close('contract:array-grid.levels-are-those-of-the-layer-pressures-held', lev, tl, 1e-14,
                    cls=type(self).__name__, reverse=bool(self.__dict__['_vmon_decl'][1].get('reverse')))
        return True

    ArrayPressureProfile.compute_pressure_profile = icontract.ensure(
        array_grid_has_one_layer_per_entry, error=PostBroken)(ArrayPressureProfile.__dict__['compute_pressure_profile'])

    # ------------------------------------------------------------- hydrostatics
    def judge_hydro(c, prefix, planet, T, Pl, mu, z, H, g, dz, factor=1.0, **w):
        """Compare the four arrays with the statement's recursion.  Returns False if outside the domain."""
        why = hydro_domain(T, Pl, mu)
        if why is not None:
            c.event('contract-domain-skip:%s:%s' % (prefix, why))
            return False
        rz, rdz, rH, rg, bound = reference(T, Pl, mu, planet)
        if not bound:
            _, r_ = planet_mass_radius(planet)
            if rz is None or not (np.all(np.isfinite(rz)) and np.all(rdz > 0) and rz[-1] < JUDGE_HEIGHT_RADII * r_):
                c.event('contract-domain-skip:%s:atmosphere-not-bound' % prefix)
                return False
            c.observe('atmosphere:extended-beyond-two-radii')
        n = len(T)
        w = dict(w, n=n)
        z, H, g, dz = (np.asarray(v, dtype=float) for v in (z, H, g, dz))
        ok = c.check('contract:%s.lengths' % prefix, z.shape == (n + 1,) and H.shape == (n,) and g.shape == (n,)
                     and dz.shape == (n,), z=list(z.shape), H=list(H.shape), g=list(g.shape), dz=list(dz.shape), **w)
        if not ok:
            return True
        c.check('contract:%s.altitude-starts-at-zero-and-increases' % prefix, z[0] == 0.0 and bool(np.all(np.diff(z) > 0)),
                z0=float(z[0]), **w)
        c.close('contract:%s.altitude' % prefix, z, rz * factor, HYDRO_RTOL, **w)
        c.close('contract:%s.thickness' % prefix, dz, rdz * factor, HYDRO_RTOL, **w)
        c.close('contract:%s.scale-height' % prefix, H, rH * factor, HYDRO_RTOL, **w)
        c.close('contract:%s.gravity' % prefix, g, rg * factor, HYDRO_RTOL, **w)
        # the relations themselves, on the returned numbers (not through the reference recursion)
        m, r = planet_mass_radius(planet)
        zm, Hm, gm, dzm = z / factor, H / factor, g / factor, dz / factor
        c.close('contract:%s.g-inverse-square' % prefix, gm * (r + zm[:-1]) ** 2, np.full(n, G_SI * m), 1e-9, **w)
        c.close('contract:%s.H=kT/(mu g)' % prefix, Hm, KB * np.asarray(T, dtype=float) / (np.asarray(mu, dtype=float) * gm),
                1e-12, **w)
        Pl = np.asarray(Pl, dtype=float)
        c.close('contract:%s.dz=H ln(P_lower/P_upper)' % prefix, dzm, Hm * np.log(Pl[:-1] / Pl[1:]), 1e-9, **w)
        c.close('contract:%s.z=cumsum(dz)' % prefix, np.diff(zm), dzm, 1e-9, atol=1e-9 * float(zm[-1]) * 1e-3, **w)
        return True

    def scale_properties_are_hydrostatic(self, T, Pl, mu, length_units, result):
        c = _h['ctx']
        if length_units not in ('m', 'km', 'cm'):
            c.event('contract-domain-skip:scale:length-unit')
            return True
        factor = {'m': 1.0, 'km': 1e-3, 'cm': 1e2}[length_units]
        z, H, g, dz = result
        judge_hydro(c, 'scale', self, T, Pl, mu, z, H, g, dz, factor=factor, units=length_units)
        return True

    BasePlanet.calculate_scale_properties = icontract.ensure(scale_properties_are_hydrostatic, error=PostBroken)(
        BasePlanet.__dict__['calculate_scale_properties'])

    # ------------------------------------------------------------------- model
    def model_profiles_are_hydrostatic_and_one_per_layer(self):
        c = _h['ctx']
        n = int(self.pressure.nLayers)
        P = np.asarray(self.pressureProfile, dtype=float)
        Pl = np.asarray(self.pressure.pressure_profile_levels, dtype=float)
        T = np.asarray(self.temperatureProfile, dtype=float)
        mu = np.asarray(self.chemistry.muProfile, dtype=float)
        w = dict(n=n, pressure=type(self.pressure).__name__, temperature=type(self.temperature).__name__)
        if P.shape != (n,) or T.shape != (n,) or mu.shape != (n,) or Pl.shape != (n + 1,):
            c.check('contract:model.inputs-one-per-layer', False, P=list(P.shape), T=list(T.shape), mu=list(mu.shape),
                    levels=list(Pl.shape), **w)
            return True
        c.check('contract:model.inputs-one-per-layer', True)
        exposed = {'altitudeProfile': self.altitudeProfile, 'gravity_profile': self.gravity_profile,
                   'scaleheight_profile': self.scaleheight_profile, 'deltaz': self.deltaz,
                   'densityProfile': self.densityProfile}
        shapes = {k: list(np.shape(v)) for k, v in exposed.items()}
        c.check('contract:model.exposed-one-per-layer', all(s == [n] for s in shapes.values())
                and list(np.shape(self.altitude_boundaries)) == [n + 1], shapes=shapes,
                boundaries=list(np.shape(self.altitude_boundaries)), **w)
        for nm, mp in (('active', self.chemistry.activeGasMixProfile), ('inactive', self.chemistry.inactiveGasMixProfile)):
            if mp is not None:
                c.check('contract:model.mix-one-per-layer', np.ndim(mp) == 2 and np.shape(mp)[1] == n, which=nm,
                        shape=list(np.shape(mp)), **w)
        if np.all(np.isfinite(T)) and np.all(T > 0):
            c.close('contract:model.density=P/(kT)', self.densityProfile, P / (KB * T), 1e-13, **w)
        zb = np.asarray(self.altitude_boundaries, dtype=float)
        if all(s == [n] for s in shapes.values()) and zb.shape == (n + 1,):
            if judge_hydro(c, 'model', self.planet, T, Pl, mu, zb, self.scaleheight_profile, self.gravity_profile,
                           self.deltaz, **w):
                c.close('contract:model.altitude-profile-is-lower-boundary', self.altitudeProfile, zb[:-1], 0.0, **w)
        return True

    _h['judge_model'] = model_profiles_are_hydrostatic_and_one_per_layer     # workloads re-judge a model later on
    SimpleForwardModel.initialize_profiles = icontract.ensure(model_profiles_are_hydrostatic_and_one_per_layer,
                                                              error=PostBroken)(
        SimpleForwardModel.__dict__['initialize_profiles'])

    # ------------------------------------------------------ stored dictionaries
    def judge_dict(c, model, out, name, want_mu):
        n = int(model.nLayers)
        keys = list(PER_LAYER_KEYS if want_mu else PER_LAYER_KEYS[:-1])
        missing = [k for k in keys + list(MIX_KEYS) if k not in out]
        shapes = {k: list(np.shape(out[k])) for k in keys if k in out}
        c.check('contract:%s.one-per-layer' % name, not missing and all(s == [n] for s in shapes.values()),
                missing=missing, shapes=shapes, n=n)
        for k in MIX_KEYS:
            v = out.get(k)
            if v is not None:
                c.check('contract:%s.mix-one-per-layer' % name, np.ndim(v) == 2 and np.shape(v)[1] == n, key=k,
                        shape=list(np.shape(v)), n=n)

    def profile_dict_has_one_entry_per_layer(model, result):
        judge_dict(_h['ctx'], model, result, 'generate_profile_dict', False)
        return True

    tout.generate_profile_dict = icontract.ensure(profile_dict_has_one_entry_per_layer, error=PostBroken)(
        tout.generate_profile_dict)

    def generated_profiles_have_one_entry_per_layer(self, result):
        judge_dict(_h['ctx'], self, result, 'generate_profiles', True)
        return True

    SimpleForwardModel.generate_profiles = icontract.ensure(generated_profiles_have_one_entry_per_layer,
                                                            error=PostBroken)(
        SimpleForwardModel.__dict__['generate_profiles'])
