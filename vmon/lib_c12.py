"""C12 helpers: icontract postconditions on every built-in ``TemperatureProfile.profile`` and the
independent references they judge against.

The contracts never look at the private state of the profile objects.  A tap on every constructor
deep-copies the *declared* arguments, a tap on ``TemperatureProfile.initialize_profile`` records the
layer count / pressure grid / planet handed in, and the conditions compute what the property promises
from those.  Workloads that change a value through the public fitting-parameter setters call
``redeclare`` so that the declaration follows the object.
"""
import copy
import functools
import inspect
import math

import icontract
import numpy as np
from scipy.special import exp1

from vmon.contracts import PostBroken

EPS = float(np.finfo(float).eps)
# IAU 2015 nominal Jupiter values + CODATA G (independent of taurex.constants)
G_SI = 6.67430e-11
GM_JUP = 1.2668653e17
R_JUP = 7.1492e7
M_JUP = GM_JUP / G_SI

# temperature unit strings of a profile file -> (factor, offset) to kelvin; written down here, not taken from the package
TEMP_UNITS = {'K': (1.0, 0.0), 'mK': (1e-3, 0.0), 'kK': (1e3, 0.0), 'deg_C': (1.0, 273.15), 'Celsius': (1.0, 273.15)}

_h = {'ctx': None, 'installed': False}
KINDS = ('Isothermal', 'NPoint', 'Guillot2010', 'Rodgers2000', 'TemperatureArray', 'TemperatureFile')


# ------------------------------------------------------------------ declarations
def tap_init_deep(cls, store_attr='_vmon_decl'):
    """Record a deep copy of the arguments (defaults applied) of the outermost constructor call."""
    orig = cls.__dict__.get('__init__')
    if orig is None or getattr(orig, '_vmon_tapped', False):
        return
    sig = inspect.signature(orig)

    @functools.wraps(orig)
    def init(self, *a, **kw):
        if store_attr not in self.__dict__:
            try:
                ba = sig.bind(self, *a, **kw)
                ba.apply_defaults()
                d = {k: copy.deepcopy(v) for k, v in ba.arguments.items() if k != 'self'}
            except Exception:
                d = {'_unbound': True}
            self.__dict__[store_attr] = (cls.__name__, d)
        return orig(self, *a, **kw)
    init._vmon_tapped = True
    cls.__init__ = init


def redeclare(obj, changes=None, **kw):
    """The workload changed a control value through a public setter: the declaration follows."""
    name, d = obj._vmon_decl
    changes = dict(changes or {})
    changes.update(kw)
    for k, v in changes.items():
        if isinstance(k, tuple):            # ('temperature_points', i)
            d[k[0]] = list(d[k[0]]) if not isinstance(d[k[0]], np.ndarray) else d[k[0]]
            d[k[0]][k[1]] = v
        else:
            d[k] = v


def sync_decl(obj, mapping, ctx=None):
    """Fallback for objects changed through the public fitting-parameter setters by code that does not
    call ``redeclare`` (the repository's own tests): where a public getter no longer returns the declared
    value the declaration follows the getter.  The workloads of the property modules always redeclare, and
    separately check (monitor controls-roundtrip) that the getters return what was declared."""
    decl = obj.__dict__.get('_vmon_decl')
    if decl is None or decl[1].get('_unbound'):
        return
    try:
        fp = obj.fitting_parameters()
    except Exception:
        return
    d = decl[1]
    for pname, key in mapping:
        if pname not in fp:
            continue
        try:
            v = fp[pname][2]()
            cur = d[key[0]][key[1]] if isinstance(key, tuple) else d[key]
            same = (v is cur) or bool(v == cur) or (v != v and cur != cur)
        except Exception:
            continue
        if not same:
            redeclare(obj, {key: v})
            if ctx is not None:
                ctx.event('decl-resynced-from-public-getter:' + decl[0])


def temperature_mapping(name, d):
    if name == 'Isothermal':
        return [('T', 'T')]
    if name == 'Guillot2010':
        return [('T_irr', 'T_irr'), ('kappa_irr', 'kappa_irr'), ('kappa_v1', 'kappa_v1'), ('kappa_v2', 'kappa_v2'),
                ('alpha', 'alpha'), ('T_int_guillot', 'T_int')]
    if name == 'NPoint':
        m = [('T_surface', 'T_surface'), ('T_top', 'T_top'), ('P_surface', 'P_surface'), ('P_top', 'P_top')]
        for i in range(len(d.get('temperature_points', []))):
            m += [('T_point%d' % (i + 1), ('temperature_points', i)), ('P_point%d' % (i + 1), ('pressure_points', i))]
        return m
    if name == 'Rodgers2000':
        return [('correlation_length', 'correlation_length')] + \
            [('T_%d' % (i + 1), ('temperature_layers', i)) for i in range(len(d.get('temperature_layers', [])))]
    return []


def planet_gravity(planet):
    """Surface gravity G M / R^2 from the declared planet (M_J, R_J) with IAU nominal constants."""
    decl = getattr(planet, '_vmon_decl', None)
    if decl is not None and 'planet_mass' in decl[1] and not getattr(planet, '_vmon_mutated', False):
        m, r = decl[1]['planet_mass'] * M_JUP, decl[1]['planet_radius'] * R_JUP
    else:
        m, r = float(planet.fullMass), float(planet.fullRadius)
    return G_SI * m / (r * r)


# ------------------------------------------------------------------- references
def guillot_reference(P, g, T_irr, kir, kv1, kv2, alpha, T_int):
    """Guillot 2010 (eq. 49) / Line et al. 2012 (eq. 19-20) two-stream profile, E2 from scipy.special.exp1.

    T^4 = 3 T_int^4/4 (2/3 + tau) + 3 T_irr^4/4 (1-alpha) xi(g1,tau) + 3 T_irr^4/4 alpha xi(g2,tau),
    xi(g,tau) = 2/3 + 2/(3g) [1 + (g tau/2 - 1) exp(-g tau)] + 2g/3 (1 - tau^2/2) E2(g tau),  tau = k_ir P / g_planet.

    Returns (T, rtol): rtol is the first-order rounding bound of evaluating this sum in doubles
    (K*eps*sum|terms|/|T^4|/4), which is what limits agreement between two correct implementations
    when gamma is tiny (the bracket 1 + (x/2-1)e^-x cancels) or terms of opposite sign nearly cancel.
    """
    P = np.asarray(P, dtype=float)
    with np.errstate(all='ignore'):
        tau = kir * P / g

        def xi(gamma):
            x = gamma * tau
            e = np.exp(-x)
            e1 = exp1(np.where(x > 0, x, np.nan))
            E2 = np.where(x == 0, 1.0, e - x * e1)
            a = 2.0 / 3.0
            b = 2.0 / (3.0 * gamma) * (1.0 + (x / 2.0 - 1.0) * e)
            c = 2.0 * gamma / 3.0 * (1.0 - tau * tau / 2.0) * E2
            mag = a + abs(2.0 / (3.0 * gamma)) * (1.0 + np.abs(x / 2.0 - 1.0) * e) + np.abs(c) * (2.0 + np.abs(x))
            return a + b + c, mag
        x1, m1 = xi(kv1 / kir)
        x2, m2 = xi(kv2 / kir)
        t_int = 0.75 * T_int ** 4 * (2.0 / 3.0 + tau)
        t_irr = 0.75 * T_irr ** 4
        T4 = t_int + t_irr * (1.0 - alpha) * x1 + t_irr * alpha * x2
        mag4 = np.abs(t_int) + t_irr * abs(1.0 - alpha) * m1 + t_irr * abs(alpha) * m2
        T = np.where(T4 >= 0, np.abs(T4) ** 0.25, np.nan)
        rtol = 1e-13 + 32.0 * EPS * mag4 / np.abs(T4) / 4.0
    return T, rtol


def read_columns(filename, skiprows, cols, delimiter):
    """Plain text table reader (independent of numpy.loadtxt): returns list of rows of floats for ``cols``."""
    rows = []
    with open(filename) as fh:
        lines = fh.read().split('\n')
    for line in lines[int(skiprows):]:
        line = line.split('#')[0].strip()
        if not line:
            continue
        parts = line.split(delimiter) if delimiter is not None else line.split()
        rows.append([float(parts[c]) for c in cols])
    return rows


PRESS_UNITS = {'Pa': 1.0, 'bar': 1e5, 'mbar': 1e2, 'hPa': 1e2, 'atm': 101325.0}


def controls(obj):
    """(kind, control temperatures, declaration) from the recorded constructor arguments; None if unknown."""
    decl = obj.__dict__.get('_vmon_decl')
    if decl is None:
        return None
    name, d = decl
    if d.get('_unbound') or name not in KINDS:
        return None
    sync_decl(obj, temperature_mapping(name, d), _h['ctx'])
    if name == 'Isothermal':
        t = [d['T']]
    elif name == 'NPoint':
        t = [d['T_surface']] + list(d['temperature_points']) + [d['T_top']]
    elif name == 'Guillot2010':
        t = [d['T_irr'], d['T_int']]
    elif name == 'Rodgers2000':
        t = list(np.asarray(d['temperature_layers'], dtype=float).ravel())
    elif name == 'TemperatureArray':
        t = list(np.asarray(d['tp_array'], dtype=float).ravel())
    else:   # TemperatureFile
        tu = d.get('temp_units', 'K')
        if tu not in TEMP_UNITS or d.get('press_units', 'Pa') not in PRESS_UNITS:
            return None
        cols = [int(d['temp_col'])]
        rows = read_columns(d['filename'], d['skiprows'], cols,
                            d['delimiter'] if d.get('press_col') is not None else None)
        scale, offset = TEMP_UNITS[tu]
        t = [r[0] * scale + offset for r in rows]          # control temperatures in kelvin
    try:
        t = np.asarray(t, dtype=float)
    except Exception:
        return None
    return name, t, d


def nonphysical_npoint(d, P):
    """Classify an N-point declaration on the grid P: 'valid', 'inverted', 'slope' or 'borderline'."""
    ps, pt = d['P_surface'], d['P_top']
    if ps is None or ps < 0:
        ps = P[0]
    if pt is None or pt < 0:
        pt = P[-1]
    pn = [float(ps)] + [float(v) for v in d['pressure_points']] + [float(pt)]
    tn = [float(d['T_surface'])] + [float(v) for v in d['temperature_points']] + [float(d['T_top'])]
    if any(pn[i] <= pn[i + 1] for i in range(len(pn) - 1)):
        return 'inverted'
    lim = float(d['limit_slope'])
    worst = 0.0
    border = False
    for i in range(len(pn) - 1):
        s = abs((tn[i + 1] - tn[i]) / (math.log10(pn[i + 1]) - math.log10(pn[i])))
        if abs(s - lim) <= 1e-9 * abs(lim):
            border = True
        worst = max(worst, s)
    if border:
        return 'borderline'
    return 'slope' if worst >= lim else 'valid'


# -------------------------------------------------------------------- contracts
def install(ctx):
    """Attach the postconditions to the real classes (once per process); later calls re-point the ctx."""
    _h['ctx'] = ctx
    if _h['installed']:
        return
    _h['installed'] = True
    from taurex.data.profiles.temperature.tprofile import TemperatureProfile
    from taurex.data.profiles.temperature.isothermal import Isothermal
    from taurex.data.profiles.temperature.npoint import NPoint
    from taurex.data.profiles.temperature.guillot import Guillot2010
    from taurex.data.profiles.temperature.rodgers import Rodgers2000
    from taurex.data.profiles.temperature.temparray import TemperatureArray
    from taurex.data.profiles.temperature.file import TemperatureFile
    from taurex.data.planet import BasePlanet

    for c in (Isothermal, NPoint, Guillot2010, Rodgers2000, TemperatureArray, TemperatureFile, BasePlanet):
        tap_init_deep(c)

    orig_init_profile = TemperatureProfile.initialize_profile

    @functools.wraps(orig_init_profile)
    def initialize_profile(self, planet=None, nlayers=100, pressure_profile=None):
        self.__dict__['_vmon_init'] = {
            'nlayers': nlayers, 'planet': planet,
            'P': None if pressure_profile is None else np.array(pressure_profile, dtype=float, copy=True)}
        _h['ctx'].event('tap:initialize_profile')
        return orig_init_profile(self, planet, nlayers, pressure_profile)
    TemperatureProfile.initialize_profile = initialize_profile

    def witness(self, c=None):
        init = self.__dict__.get('_vmon_init', {})
        decl = self.__dict__.get('_vmon_decl', (type(self).__name__, {}))
        w = {'cls': decl[0], 'decl': {k: v for k, v in decl[1].items()}, 'nlayers': init.get('nlayers')}
        if init.get('P') is not None:
            w['P_ends'] = [float(init['P'][0]), float(init['P'][-1])]
        return w

    def domain(self):
        """None when the object is inside the judged domain, else the reason it is not."""
        init = self.__dict__.get('_vmon_init')
        if init is None:
            return 'not-initialised'
        c = controls(self)
        if c is None:
            return 'undeclared'
        name, t, d = c
        if not isinstance(init['nlayers'], (int, np.integer)) or init['nlayers'] < 1:
            return 'nlayers<1'
        if t.size == 0 or not np.all(np.isfinite(t)):
            return 'non-finite-control'
        if name == 'Guillot2010':
            vals = [d['T_irr'], d['T_int'], d['kappa_irr'], d['kappa_v1'], d['kappa_v2'], d['alpha']]
            if not all(np.isfinite(float(v)) for v in vals):
                return 'non-finite-control'
            if min(t) < 0:
                return 'negative-control-temperature'       # must be rejected; judged by the workload
            if max(t) == 0:
                return 'all-control-temperatures-zero'
            ks = [abs(float(d[k])) for k in ('kappa_irr', 'kappa_v1', 'kappa_v2')]
            if min(ks) < 1e-30 or max(ks) > 1e30 or abs(float(d['alpha'])) > 1e6 or max(t) > 1e6:
                return 'magnitude-outside-representable-closed-form'
            if init['P'] is None or init['planet'] is None:
                return 'no-grid'
        else:
            if np.min(t) <= 0:
                return 'non-positive-control-temperature'
        if name in ('NPoint', 'Guillot2010', 'Rodgers2000') or (name in ('TemperatureArray', 'TemperatureFile')
                                                               and p_points_of(name, d) is not None):
            P = init['P']
            if P is None or P.ndim != 1 or not np.all(np.isfinite(P)) or np.any(P <= 0):
                return 'no-positive-pressure-grid'
        if name == 'Rodgers2000':
            if d.get('covariance_matrix') is not None:
                return 'custom-covariance'
            if len(t) != init['nlayers']:
                return 'one-temperature-per-layer-required'
            if not float(d['correlation_length']) > 0:
                return 'non-positive-correlation-length'
        if name in ('TemperatureArray', 'TemperatureFile'):
            pp = p_points_of(name, d)
            if pp is not None:
                pp = np.asarray(pp, dtype=float)
                if pp.shape != t.shape or np.any(pp <= 0) or len(set(pp.tolist())) != len(pp):
                    return 'pressure-points-not-distinct-positive'
            if t.size < 2:
                return 'fewer-than-two-points'
        return None

    def p_points_of(name, d):
        if name == 'TemperatureArray':
            return d.get('p_points')
        if d.get('press_col') is None:
            return None
        rows = read_columns(d['filename'], d['skiprows'], [int(d['press_col'])], d['delimiter'])
        return [r[0] * PRESS_UNITS[d['press_units']] for r in rows]

    def judged(self, what):
        c = _h['ctx']
        why = domain(self)
        if why is not None:
            c.event('contract-domain-skip:%s:%s' % (what, why))
            return False
        return True

    # ---- conditions (named functions; record into ctx and return True) ----
    def profile_has_one_value_per_layer(self, result):
        c = _h['ctx']
        if not judged(self, 'one-per-layer'):
            return True
        n = self._vmon_init['nlayers']
        r = np.asarray(result)
        c.check('contract:one-per-layer', r.ndim == 1 and r.shape[0] == n, got_shape=list(r.shape), **witness(self))
        return True

    def profile_is_finite_and_positive(self, result):
        c = _h['ctx']
        if not judged(self, 'finite-positive'):
            return True
        r = np.asarray(result, dtype=float)
        ok = bool(np.all(np.isfinite(r)) and np.all(r > 0))
        c.check('contract:finite-positive', ok, nan=int(np.sum(np.isnan(r))), nonpositive=int(np.sum(r <= 0)),
                inf=int(np.sum(np.isinf(r))), **witness(self))
        return True

    def profile_stays_within_its_controls(self, result):
        c = _h['ctx']
        name = type(self).__name__
        if name == 'Guillot2010' or not judged(self, 'within-controls'):
            return True
        kind, t, d = controls(self)
        r = np.asarray(result, dtype=float)
        n = max(int(self._vmon_init['nlayers']), len(t))
        lo, hi = float(np.min(t)), float(np.max(t))
        if kind == 'Isothermal':
            c.check('contract:isothermal-constant', bool(np.all(r == t[0])), **witness(self))
            return True
        # tolerance: the moving average is a difference of running sums (partial sums <= n*Tmax, n additions):
        # |error| <= 2 n^2 eps Tmax; interpolation / convex combinations add a few eps more
        tol = max(1e-12, 4.0 * n * n * EPS) * hi
        over = float(max(np.max(r) - hi, lo - np.min(r), 0.0)) if r.size else 0.0
        c.monitors['contract:within-controls'] += 0
        c.residual['contract:within-controls'] = max(c.residual.get('contract:within-controls', 0.0), over / tol)
        c.check('contract:within-controls', over <= tol, overshoot=over, tol=tol, lo=lo, hi=hi,
                got_min=float(np.min(r)), got_max=float(np.max(r)), **witness(self))
        if lo == hi:
            c.check('contract:constant-when-controls-equal', bool(np.all(np.abs(r - lo) <= tol)),
                    maxdev=float(np.max(np.abs(r - lo))), tol=tol, **witness(self))
        return True

    def guillot_matches_closed_form(self, result):
        c = _h['ctx']
        if type(self).__name__ != 'Guillot2010' or not judged(self, 'guillot'):
            return True
        kind, t, d = controls(self)
        init = self._vmon_init
        g = planet_gravity(init['planet'])
        want, rtol = guillot_reference(init['P'], g, float(d['T_irr']), float(d['kappa_irr']), float(d['kappa_v1']),
                                       float(d['kappa_v2']), float(d['alpha']), float(d['T_int']))
        if not (np.all(np.isfinite(want)) and np.all(want > 0)):
            c.event('contract-domain-skip:guillot:reference-not-finite-positive')
            return True
        r = np.asarray(result, dtype=float)
        if r.shape != want.shape:
            return True         # already reported by one-per-layer
        # 2e-9: agreement of the IAU-nominal planet constants with the repository's unit conversion
        bound = (rtol + 2e-9) * np.abs(want)
        err = np.abs(r - want)
        err = np.where(np.isnan(err), np.inf, err)
        frac = float(np.max(err / bound))
        c.residual['contract:guillot-closed-form'] = max(c.residual.get('contract:guillot-closed-form', 0.0),
                                                         min(frac, 1e300))
        i = int(np.argmax(err / bound))
        c.check('contract:guillot-closed-form', frac <= 1.0, at=i, got=float(r[i]), want=float(want[i]),
                rtol=float(rtol[i] + 2e-9), g=g, **witness(self))
        return True

    for cls in (Isothermal, NPoint, Guillot2010, Rodgers2000, TemperatureArray):
        fget = cls.__dict__['profile'].fget
        for cond in (guillot_matches_closed_form, profile_stays_within_its_controls,
                     profile_is_finite_and_positive, profile_has_one_value_per_layer):
            fget = icontract.ensure(cond, error=PostBroken)(fget)
        cls.profile = property(fget, doc=cls.__dict__['profile'].__doc__)
    _h['domain'] = domain
