"""File writers and reference tables for C14 (one physical table -> every supported container).

Nothing here imports taurex.  Units written are the units each reader documents:
  cross-section pickle      : wno [cm-1], t [K], p [bar], xsecarr[P,T,wn] [cm2]
  cross-section HDF5        : bin_edges [cm-1], t [K], p [declared unit, attrs['units']], xsecarr[P,T,wn] [cm2], mol_name
  Exo-Transmit text         : line 1 temperatures [K], line 2 pressures [bar]; per wavelength [m] a line with the
                              wavelength, then one line per pressure: P  sigma(T_1) ... sigma(T_n)  [m2]
  CIA pickle (.db)          : wno [cm-1], t [K], xsecarr[T,wn] [m5 per pair]
  HITRAN .cia text          : per temperature block a header 'pair wn_start wn_end npoints T max' and npoints lines
                              'wn sigma' with sigma in cm5 per pair (reader multiplies by 1e-10, floors negatives)
  k-table pickle            : bin_centers, t, p [bar], kcoeff[P,T,wn,g] [cm2], weights, ngauss, name
  k-table HDF5              : bin_centers, ngauss, t, p [declared unit], kcoeff, weights ; molecule from the file name
"""
import os
import pickle

import numpy as np

# Pa per unit -- CODATA / SI definitions, written here independently of astropy
PA_PER_UNIT = {
    'Pa': 1.0,
    'bar': 1.0e5,
    'mbar': 1.0e2,
    'Ba': 0.1,                 # barye = dyn/cm2
    'kPa': 1.0e3,
    'hPa': 1.0e2,
    'Torr': 101325.0 / 760.0,
    'atm': 101325.0,           # astropy knows it only through its CDS format
    'mmHg': 133.322387415,     # CDS only
}


# ------------------------------------------------------------------ names
ISOTOPOLOGUES = [
    # (file-name stem, sanitised molecule)
    ('H2O', 'H2O'), ('1H2-16O', 'H2O'), ('CH4', 'CH4'), ('12C-1H4', 'CH4'), ('CO2', 'CO2'), ('12C-16O2', 'CO2'),
    ('CO', 'CO'), ('12C-16O', 'CO'), ('14N-1H3', 'NH3'), ('NH3', 'NH3'), ('1H-12C-14N', 'HCN'), ('HCN', 'HCN'),
    ('48Ti-16O', 'TiO'), ('TiO', 'TiO'), ('12C2-1H2', 'C2H2'), ('23Na-1H', 'NaH'), ('SiO', 'SiO'),
    ('28Si-16O', 'SiO'), ('H2S', 'H2S'), ('1H2-32S', 'H2S'),
]
SUFFIXES = ['', '', '_x', '_v2', '_pokazatel', '_abc123']


def reference_sanitise(stem):
    """Independent statement of the naming rule: element symbols (capital + optional lower-case letter) with their
    trailing counts, in order; isotope numbers (digits in front of a symbol), dashes and lower-case suffixes drop."""
    out, i, n = [], 0, len(stem)
    while i < n:
        c = stem[i]
        if 'A' <= c <= 'Z':
            sym = c
            i += 1
            if i < n and 'a' <= stem[i] <= 'z':
                sym += stem[i]
                i += 1
            cnt = ''
            while i < n and stem[i].isdigit():
                cnt += stem[i]
                i += 1
            out.append(sym + cnt)
        else:
            i += 1
    return ''.join(out)


# ------------------------------------------------------------------ grids
def wn_grid(rng, n):
    """Strictly increasing wavenumber grid [cm-1] with relative spacing >= 1e-3 (keeps wn/dwn <= 1e3)."""
    lo = float(10 ** rng.uniform(1.5, 3.5))
    kind = rng.integers(0, 3)
    if kind == 0:
        g = np.linspace(lo, lo * float(10 ** rng.uniform(0.2, 1.2)), n)
    elif kind == 1:
        g = np.logspace(np.log10(lo), np.log10(lo) + rng.uniform(0.2, 1.2), n)
    else:
        steps = rng.uniform(0.002, 0.3, n - 1)
        g = lo * np.concatenate([[1.0], np.cumprod(1.0 + steps)])
    return np.asarray(g, dtype=float)


def tp_grids(rng, nP, nT):
    T = np.sort(rng.uniform(60, 3500, nT))
    for i in range(1, nT):
        if T[i] - T[i - 1] < 5:
            T[i] = T[i - 1] + 5 + rng.uniform(0, 50)
    lo = rng.uniform(-3, 2)
    lp = lo + np.concatenate([[0.0], np.cumsum(rng.uniform(0.05, 2.5, nP - 1))])
    if rng.random() < 0.25:
        Ti = np.round(T).astype(np.int64)        # a temperature axis typed as whole numbers: integer dtype in the file
        if np.all(np.diff(Ti) > 0):
            T = Ti
    return T, 10 ** lp


def xsec_table(rng, nP, nT, nwn, lo=-30.0, hi=-16.0):
    base = rng.uniform(lo, hi, (1, 1, nwn))
    x = 10 ** np.clip(base + rng.normal(0, 0.6, (nP, nT, nwn)), lo - 2, hi + 2)
    return x


# ----------------------------------------------------------- cross-sections
def write_xsec_pickle(path, wn, T, P_pa, xsec_cm2):
    with open(path, 'wb') as fh:
        pickle.dump({'wno': np.array(wn, dtype=float), 't': np.array(T),
                     'p': np.array(P_pa, dtype=float) / 1e5, 'xsecarr': np.array(xsec_cm2, dtype=float)}, fh)


def write_xsec_hdf5(path, mol_name, wn, T, P_pa, xsec_cm2, unit, name_kind='str', with_doi=False):
    import h5py
    with h5py.File(path, 'w') as f:
        f.create_dataset('bin_edges', data=np.array(wn, dtype=float))
        f.create_dataset('t', data=np.array(T))
        p = f.create_dataset('p', data=np.array(P_pa, dtype=float) / PA_PER_UNIT[unit])
        p.attrs['units'] = unit
        f.create_dataset('xsecarr', data=np.array(xsec_cm2, dtype=float))
        if name_kind == 'str':
            f.create_dataset('mol_name', data=mol_name)
        elif name_kind == 'bytes-array':
            f.create_dataset('mol_name', data=np.array([mol_name.encode()]))
        else:
            f.create_dataset('mol_name', data=mol_name.encode())
        if with_doi:
            f.create_dataset('DOI', data=np.array([b'10.0000/vmon.synthetic']))


def write_xsec_exotransmit(path, wn, T, P_pa, xsec_cm2, order='wavelength-ascending', rng=None):
    """Exo-Transmit layout; values in m2 (= cm2 / 1e4), wavelengths in metres, pressures in bar."""
    wn = np.asarray(wn, dtype=float)
    idx = np.arange(len(wn))
    if order == 'wavelength-ascending':
        idx = idx[::-1]
    elif order == 'shuffled':
        idx = rng.permutation(len(wn))
    x_m2 = np.asarray(xsec_cm2, dtype=float) / 1e4
    lines = [' '.join(repr(float(t)) for t in T), ' '.join(repr(float(p) / 1e5) for p in P_pa)]
    for k in idx:
        lines.append(repr(1e-2 / float(wn[k])))
        for i, p in enumerate(P_pa):
            lines.append(repr(float(p) / 1e5) + ' ' + ' '.join(repr(float(v)) for v in x_m2[i, :, k]))
    with open(path, 'w') as fh:
        fh.write('\n'.join(lines) + '\n')


# --------------------------------------------------------------------- CIA
CIA_PAIRS = ['H2-H2', 'H2-He', 'N2-N2', 'CO2-CO2', 'N2-H2', 'O2-O2', 'CH4-He']


def cia_physical_table(rng, interior_gap=False, near_ranges=False):
    """A HITRAN-style CIA data set: 1..3 disjoint wavenumber ranges, each tabulated at its own subset of the
    temperatures.  Returns (blocks, expected) where blocks = [(range_id, wn[], T, sigma_m5[])] in file order and
    expected = dict(wn, T, x[T, wn]) is the unified table the reader documents: zeros outside a range's own
    temperature span, linear interpolation in T inside it."""
    nT = int(rng.integers(3 if interior_gap else 2, 7))
    temps = np.sort(np.round(rng.uniform(40, 3000, nT), 1))
    for i in range(1, nT):
        if temps[i] - temps[i - 1] < 1:
            temps[i] = temps[i - 1] + float(np.round(rng.uniform(5, 200), 1))
    ngroups = int(rng.integers(2 if interior_gap else 1, 4))
    gapped = int(rng.integers(0, ngroups)) if interior_gap else -1
    full = (gapped + 1) % ngroups if interior_gap else 0         # one range carries every temperature of the file
    lo = float(np.round(10 ** rng.uniform(0.5, 2.5), 3))
    groups = []
    shared = False
    for gi in range(ngroups):
        n = int(rng.integers(2, 12))
        width = float(10 ** rng.uniform(1.0, 3.0))
        wn = np.round(np.linspace(lo, lo + width, n), 4)
        if rng.random() < 0.25:
            lo = float(wn[-1])               # the next range starts ON the last wavenumber of this one (both records kept)
            shared = True
        else:
            lo = float(wn[-1] + np.round(10 ** rng.uniform(0.3, 2.0), 3))
        if gi == gapped:
            # a range that lacks one of the file's temperatures INSIDE its own span (the reader interpolates it)
            own = np.delete(temps, int(rng.integers(1, nT - 1)))
        elif gi == full or rng.random() < 0.4:
            own = temps.copy()                                   # tabulated at every temperature
        else:
            k = int(rng.integers(1, nT + 1))
            own = np.sort(rng.choice(temps, k, replace=False))   # its own subset
        mag = rng.uniform(-56, -44)
        sig = {float(t): 10 ** (mag + rng.normal(0, 0.5, n)) for t in own}
        groups.append({'wn': wn, 'temps': own, 'sigma': sig})
        if near_ranges and gi == 0:
            # a second range whose limits differ from this one's only from the seventh significant digit on (the same
            # band re-measured on a grid a hair off), as many points, tabulated at its own temperatures: another range
            # all the same, its records interleave with this one's in the unified table
            eps_ = float(10 ** rng.uniform(-7.0, -6.2))
            wn2 = np.array(wn) * (1.0 + eps_)
            wn2[-1] = wn[-1] * (1.0 - eps_)
            k2 = int(rng.integers(1, nT + 1))
            own2 = np.sort(rng.choice(temps, k2, replace=False))
            sig2 = {float(t): 10 ** (mag + rng.normal(0, 0.5, n)) for t in own2}
            groups.append({'wn': wn2, 'temps': own2, 'sigma': sig2})
    # expected unified table
    wn_all = np.concatenate([g['wn'] for g in groups])
    x = np.zeros((nT, len(wn_all)))
    col = 0
    for g in groups:
        n = len(g['wn'])
        own = g['temps']
        for ti, t in enumerate(temps):
            t = float(t)
            if t in g['sigma']:
                row = g['sigma'][t]
            elif t < own.min() or t > own.max():
                row = np.zeros(n)
            else:
                j = int(np.searchsorted(own, t))
                t0, t1 = float(own[j - 1]), float(own[j])
                a, b = g['sigma'][t0], g['sigma'][t1]
                row = a + (b - a) * (t - t0) / (t1 - t0)
            x[ti, col:col + n] = row
        col += n
    blocks = []
    for gi, g in enumerate(groups):
        for t in g['temps']:
            blocks.append((gi, g['wn'], float(t), g['sigma'][float(t)]))
    spans, c = [], 0
    col_group = np.zeros(len(wn_all), dtype=int)
    for gi, g in enumerate(groups):   # (first column, end column, lowest and highest temperature the range is tabulated at)
        spans.append((c, c + len(g['wn']), float(g['temps'].min()), float(g['temps'].max())))
        col_group[c:c + len(g['wn'])] = gi
        c += len(g['wn'])
    # the unified table is in ascending wavenumber (ranges that interleave are merged record by record)
    order = np.argsort(wn_all, kind='stable')
    wn_all, x, col_group = wn_all[order], x[:, order], col_group[order]
    ngroups = len(groups)
    return blocks, {'wn': wn_all, 'T': temps, 'x': x, 'ngroups': ngroups, 'groups': spans, 'gapped': gapped,
                    'order': order, 'col_group': col_group,
                    'partial': any(len(g['temps']) < nT for g in groups),
                    'shared_wavenumber': bool(len(np.unique(wn_all)) != len(wn_all))}


def write_cia_pickle(path, wn, T, x_m5):
    with open(path, 'wb') as fh:
        pickle.dump({'wno': np.array(wn, dtype=float), 't': np.array(T),
                     'xsecarr': np.array(x_m5, dtype=float)}, fh)


def write_cia_hitran(path, pair, blocks, negatives=None):
    """blocks: [(range_id, wn[], T, sigma_m5[])].  negatives: {(block_index, point_index): magnitude_m5} written as a
    negative number of that magnitude (the reader floors them to zero)."""
    negatives = negatives or {}
    with open(path, 'w') as fh:
        for bi, (gi, wn, T, sig) in enumerate(blocks):
            cm5 = np.asarray(sig, dtype=float) * 1e10
            fh.write('%20s %s %s %7d %s %10.3E %6.3f %s\n' % (pair, repr(float(wn[0])), repr(float(wn[-1])), len(wn),
                                                           repr(float(T)), float(cm5.max()), -0.999, 'vmon synthetic'))
            for k in range(len(wn)):
                v = float(cm5[k])
                if (bi, k) in negatives:
                    v = -abs(float(negatives[(bi, k)])) * 1e10
                fh.write('%s %s\n' % (repr(float(wn[k])), repr(v)))


# ----------------------------------------------------------------- k-tables
def write_ktable_pickle(path, name, wn, T, P_pa, kcoeff_cm2, weights):
    with open(path, 'wb') as fh:
        pickle.dump({'bin_centers': np.array(wn, dtype=float), 't': np.array(T),
                     'p': np.array(P_pa, dtype=float) / 1e5, 'kcoeff': np.array(kcoeff_cm2, dtype=float),
                     'weights': np.array(weights, dtype=float), 'ngauss': len(weights), 'name': name,
                     'bin_edges': np.array(wn, dtype=float)}, fh)


def write_ktable_hdf5(path, wn, T, P_pa, kcoeff_cm2, weights, unit):
    import h5py
    with h5py.File(path, 'w') as f:
        f.create_dataset('bin_centers', data=np.array(wn, dtype=float))
        f.create_dataset('ngauss', data=len(weights))
        f.create_dataset('t', data=np.array(T))
        p = f.create_dataset('p', data=np.array(P_pa, dtype=float) / PA_PER_UNIT[unit])
        p.attrs['units'] = unit
        f.create_dataset('kcoeff', data=np.array(kcoeff_cm2, dtype=float))
        f.create_dataset('weights', data=np.array(weights, dtype=float))


# ------------------------------------------------------------- tolerances
def bracket_corner_max(Tg, Pg, table, T, P):
    """Largest table entry (per wavenumber / trailing axes) among the nodes that can take part in interpolating
    (T, P): the bracketing nodes widened by one index (a 1-ulp difference in a pressure node may move the bracket)."""
    nT, nP = len(Tg), len(Pg)
    j = int(np.clip(np.searchsorted(Tg, T), 1, nT - 1))
    i = int(np.clip(np.searchsorted(Pg, P), 1, nP - 1))
    js = slice(max(j - 2, 0), min(j + 2, nT))
    is_ = slice(max(i - 2, 0), min(i + 2, nP))
    return np.max(np.abs(table[is_, js]), axis=(0, 1))


def makedirs(*parts):
    d = os.path.join(*parts)
    os.makedirs(d, exist_ok=True)
    return d
