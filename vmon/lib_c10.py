"""C10 helpers: icontract postconditions on TaurexChemistry.initialize_chemistry and on every built-in
Gas.initialize_profile, an independent element-mass table + formula parser, and the bookkeeping the
contracts need (declared constructor arguments, gases added, opacity data available at construction).
"""
import functools
import math
import re

import icontract
import numpy as np
import scipy.constants as sc

from vmon.contracts import PostBroken
from vmon.lib_c12 import tap_init_deep, redeclare, sync_decl  # noqa: F401  (re-exported for the property module)

EPS = float(np.finfo(float).eps)
AMU = sc.physical_constants['atomic mass constant'][0]
_h = {'ctx': None, 'installed': False, 'available': None}

# IUPAC abridged standard atomic weights (2013 and later), typed from the periodic table -- independent of
# taurex.util.util.mass, which holds an older edition.  The editions differ by up to 2.7e-4 (Ti), hence MASS_RTOL.
ATOMIC_WEIGHT = {
    'H': 1.008, 'He': 4.0026, 'C': 12.011, 'N': 14.007, 'O': 15.999, 'F': 18.998, 'Ne': 20.180, 'Na': 22.990,
    'Mg': 24.305, 'Al': 26.982, 'Si': 28.085, 'P': 30.974, 'S': 32.06, 'Cl': 35.45, 'Ar': 39.948, 'K': 39.098,
    'Ca': 40.078, 'Ti': 47.867, 'V': 50.942, 'Cr': 51.996, 'Fe': 55.845, 'Kr': 83.798, 'Xe': 131.29,
}
MASS_RTOL = 5e-4

# Parmentier (2018) deep-atmosphere abundances A0 of the built-in power-law profile types (log10), from the
# PowerGas documentation: H2, H2O, TiO, VO, H-, Na, K
POWER_DEEP = {'H2': -0.1, 'H2O': -3.3, 'TiO': -7.1, 'VO': -9.2, 'H-': -8.3, 'Na': -5.5, 'K': -7.1}


# (alpha, beta, gamma) of the same table
POWER_COEFF = {'H2': (1.0, 2.41e4, 6.5), 'H2O': (2.0, 4.83e4, 15.9), 'TiO': (1.6, 5.94e4, 23.0), 'VO': (1.5, 5.4e4, 23.8),
               'H-': (0.6, -0.14e4, 7.7), 'Na': (0.6, 1.89e4, 12.2), 'K': (0.6, 1.28e4, 12.7)}


def parse_formula(formula):
    """'C2H6' -> {'C': 2, 'H': 6}; supports one level of (), [] groups with a multiplier."""
    pos = 0
    stack = [{}]
    n = len(formula)
    while pos < n:
        ch = formula[pos]
        if ch in '([':
            stack.append({})
            pos += 1
        elif ch in ')]':
            pos += 1
            m = re.match(r'\d+', formula[pos:])
            mult = int(m.group()) if m else 1
            pos += len(m.group()) if m else 0
            grp = stack.pop()
            for k, v in grp.items():
                stack[-1][k] = stack[-1].get(k, 0) + v * mult
        else:
            m = re.match(r'([A-Z][a-z]?)(\d*)', formula[pos:])
            if not m:
                raise ValueError('cannot parse %r at %d' % (formula, pos))
            el, cnt = m.group(1), int(m.group(2)) if m.group(2) else 1
            if el not in ATOMIC_WEIGHT:
                raise ValueError('element %s not in the reference table' % el)
            stack[-1][el] = stack[-1].get(el, 0) + cnt
            pos += len(m.group())
    if len(stack) != 1:
        raise ValueError('unbalanced brackets in %r' % formula)
    return stack[0]


def molar_mass(formula):
    """Molecular mass in atomic mass units from the reference table."""
    return sum(ATOMIC_WEIGHT[e] * c for e, c in parse_formula(formula).items())


def self_test():
    probs = []
    for f, want in (('H2O', 18.015), ('CO2', 44.009), ('C2H6', 30.070), ('TiO', 63.866), ('He', 4.0026),
                    ('C10H8', 128.174), ('Ca(OH)2', 74.092)):
        if abs(molar_mass(f) - want) > 2e-3:
            probs.append('molar_mass(%s)=%r != %r' % (f, molar_mass(f), want))
    return probs


# -------------------------------------------------------------------- contracts
def gas_controls(self):
    """(kind, lo, hi, rtol, declaration) for a built-in gas profile, or None."""
    decl = self.__dict__.get('_vmon_decl')
    if decl is None or decl[1].get('_unbound'):
        return None
    name, a = decl
    mol = a.get('molecule_name')
    mapping = {'ConstantGas': [(mol, 'mix_ratio')],
               'TwoLayerGas': [('%s_surface' % mol, 'mix_ratio_surface'), ('%s_top' % mol, 'mix_ratio_top'),
                               ('%s_P' % mol, 'mix_ratio_P')],
               'TwoPointGas': [('%s_surface' % mol, 'mix_ratio_surface'), ('%s_top' % mol, 'mix_ratio_top')],
               'PowerGas': [('%s_surface' % mol, 'mix_ratio_surface'), ('%s_alpha' % mol, 'alpha'),
                            ('%s_beta' % mol, 'beta'), ('%s_gamma' % mol, 'gamma')]}.get(name, [])
    sync_decl(self, mapping, _h['ctx'])       # fallback for callers that change values without redeclaring
    return decl


def install(ctx):
    _h['ctx'] = ctx
    if _h['installed']:
        return
    _h['installed'] = True
    from taurex.data.profiles.chemistry.taurexchemistry import TaurexChemistry
    from taurex.data.profiles.chemistry.gas.constantgas import ConstantGas
    from taurex.data.profiles.chemistry.gas.twolayergas import TwoLayerGas
    from taurex.data.profiles.chemistry.gas.twopointgas import TwoPointGas
    from taurex.data.profiles.chemistry.gas.arraygas import ArrayGas
    from taurex.data.profiles.chemistry.gas.powergas import PowerGas

    for c in (ConstantGas, TwoLayerGas, TwoPointGas, ArrayGas, PowerGas):
        tap_init_deep(c)

    # ---- chemistry bookkeeping: declared arguments, availability at construction, gases added ----
    orig_init = TaurexChemistry.__init__
    tap_init_deep(TaurexChemistry)
    tapped_init = TaurexChemistry.__init__

    @functools.wraps(orig_init)
    def chem_init(self, *a, **kw):
        if '_vmon_avail' not in self.__dict__:
            self.__dict__['_vmon_avail'] = None if _h['available'] is None else frozenset(_h['available'])
            self.__dict__['_vmon_gases'] = []
        return tapped_init(self, *a, **kw)
    chem_init._vmon_tapped = True
    TaurexChemistry.__init__ = chem_init

    orig_add = TaurexChemistry.addGas

    @functools.wraps(orig_add)
    def addGas(self, gas):
        r = orig_add(self, gas)
        self.__dict__.setdefault('_vmon_gases', []).append(gas)      # only reached when the gas was accepted
        return r
    TaurexChemistry.addGas = addGas

    def wit(self, **kw):
        decl = self.__dict__.get('_vmon_decl', (type(self).__name__, {}))
        w = {'cls': decl[0], 'decl': dict(decl[1])}
        w.update(kw)
        return w

    # ------------------------------------------------------------ gas profiles
    def gas_domain(self, nlayers, pressure_profile, temperature_profile):
        d = gas_controls(self)
        if d is None:
            return 'undeclared'
        name, a = d
        if not isinstance(nlayers, (int, np.integer)) or nlayers < 2:
            return 'nlayers<2'
        if name in ('TwoLayerGas', 'TwoPointGas', 'PowerGas'):
            P = None if pressure_profile is None else np.asarray(pressure_profile, dtype=float)
            if P is None or P.shape != (nlayers,) or not np.all(np.isfinite(P)) or np.any(P <= 0) \
                    or np.any(np.diff(P) >= 0):
                return 'no-decreasing-positive-pressure-grid'
        if name == 'ConstantGas':
            v = [a['mix_ratio']]
        elif name in ('TwoLayerGas', 'TwoPointGas'):
            v = [a['mix_ratio_surface'], a['mix_ratio_top']]
            if min(v) <= 0:
                return 'non-positive-control (log interpolation)'
            if name == 'TwoLayerGas' and not (float(a['mix_ratio_P']) > 0 and 0 <= float(a['mix_ratio_smoothing']) <= 100):
                return 'two-layer-pressure-or-window-outside-range'
        elif name == 'ArrayGas':
            v = list(np.asarray(a['mix_ratio_array'], dtype=float).ravel())
            if len(v) < 2:
                return 'fewer-than-two-points'
        elif name == 'PowerGas':
            T = None if temperature_profile is None else np.asarray(temperature_profile, dtype=float)
            if T is None or T.shape != (nlayers,) or not np.all(np.isfinite(T)) or np.any(T <= 0):
                return 'no-positive-temperature-profile'
            ptype = a['molecule_name'] if a['profile_type'] == 'auto' else a['profile_type']
            for k in ('mix_ratio_surface', 'alpha', 'beta', 'gamma'):
                if a[k] is None and ptype not in POWER_DEEP:
                    return 'power-law-coefficient-missing'
            v = [a['mix_ratio_surface'] if a['mix_ratio_surface'] is not None else 10.0 ** POWER_DEEP[ptype]]
            if v[0] <= 0:
                return 'non-positive-control'
            # 10^-gamma * P^alpha * 10^(beta/T): a factor that overflows next to one that underflows to zero is 0*inf,
            # i.e. the product is not representable in doubles (only absurd coefficients reach this)
            co = POWER_COEFF.get(ptype, (None, None, None))
            al, be, ga = (a[k] if a[k] is not None else co[i] for i, k in enumerate(('alpha', 'beta', 'gamma')))
            with np.errstate(all='ignore'):
                logs = np.concatenate([[-float(ga)], float(al) * np.log10(P * 1e-5), float(be) / T])
            if not np.all(np.isfinite(logs)) or (np.any(logs > 307) and np.any(logs < -322)):
                return 'power-law-factors-not-representable'
        else:
            return 'unknown-gas-class'
        v = np.asarray(v, dtype=float)
        if not np.all(np.isfinite(v)) or np.any(v < 0):
            return 'negative-or-non-finite-control'
        return None

    def gas_profile_has_one_finite_value_per_layer_within_its_controls(self, nlayers, temperature_profile,
                                                                         pressure_profile):
        c = _h['ctx']
        why = gas_domain(self, nlayers, pressure_profile, temperature_profile)
        if why is not None:
            c.event('contract-domain-skip:gas:%s' % why)
            return True
        name, a = gas_controls(self)
        r = np.asarray(self.mixProfile, dtype=float)
        c.check('contract:gas.one-per-layer', r.shape == (nlayers,), got_shape=list(r.shape), nlayers=int(nlayers),
                **wit(self))
        if r.ndim != 1 or r.size == 0:
            return True
        c.check('contract:gas.finite', bool(np.all(np.isfinite(r))), nan=int(np.sum(np.isnan(r))), nlayers=int(nlayers),
                **wit(self))
        n = int(nlayers)
        if name == 'ConstantGas':
            lo = hi = float(a['mix_ratio'])
            rtol = 0.0
        elif name == 'TwoPointGas':
            lo, hi = sorted([float(a['mix_ratio_surface']), float(a['mix_ratio_top'])])
            # exponent a*log10(P)+b is formed from numbers up to |log10 c| + |a log10 P|: a few eps of those, times ln 10
            P = np.asarray(pressure_profile, dtype=float)
            span = abs(math.log10(P[0]) - math.log10(P[-1]))
            big = abs(math.log10(lo)) + abs(math.log10(hi)) + (abs(math.log10(hi / lo)) / span) * \
                float(np.max(np.abs(np.log10(P))))
            rtol = 1e-13 + 8.0 * EPS * math.log(10.0) * (1.0 + big)
        elif name == 'TwoLayerGas':
            lo, hi = sorted([float(a['mix_ratio_surface']), float(a['mix_ratio_top'])])
            # moving average of log10 values as a difference of running sums: |error| <= 2 n^2 eps max|log10 c|
            rtol = 1e-13 + math.log(10.0) * 4.0 * n * n * EPS * max(abs(math.log10(lo)), abs(math.log10(hi)), 1.0)
        elif name == 'ArrayGas':
            v = np.asarray(a['mix_ratio_array'], dtype=float).ravel()
            lo, hi = float(np.min(v)), float(np.max(v))
            rtol = 1e-13
        else:   # PowerGas: 0 <= mix <= deep value
            ptype = a['molecule_name'] if a['profile_type'] == 'auto' else a['profile_type']
            hi = float(a['mix_ratio_surface']) if a['mix_ratio_surface'] is not None else 10.0 ** POWER_DEEP[ptype]
            lo = 0.0
            rtol = 1e-13
        tol = rtol * max(abs(hi), abs(lo))
        over = float(max(np.nanmax(r) - hi, lo - np.nanmin(r), 0.0))
        mon = 'contract:gas.within-controls'
        c.monitors[mon] += 0
        if tol > 0:
            c.residual[mon] = max(c.residual.get(mon, 0.0), over / tol)
        c.check(mon, over <= tol, overshoot=over, tol=tol, lo=lo, hi=hi, got_min=float(np.nanmin(r)),
                got_max=float(np.nanmax(r)), nlayers=n, **wit(self))
        return True

    for cls in (ConstantGas, TwoLayerGas, TwoPointGas, ArrayGas, PowerGas):
        cls.initialize_profile = icontract.ensure(gas_profile_has_one_finite_value_per_layer_within_its_controls,
                                                  error=PostBroken)(cls.__dict__['initialize_profile'])

    # --------------------------------------------------------------- chemistry
    def chem_state(self, nlayers):
        """Everything the conditions need, from the declaration and the public accessors."""
        decl = self.__dict__.get('_vmon_decl')
        if decl is None or decl[1].get('_unbound') or type(self) is not TaurexChemistry:
            return None, 'undeclared-or-subclass'
        a = decl[1]
        fills = [a['fill_gases']] if isinstance(a['fill_gases'], str) else list(a['fill_gases'])
        if len(fills) > 1:
            if isinstance(a['ratio'], (float, int)):
                sync_decl(self, [('%s_%s' % (fills[1], fills[0]), 'ratio')], _h['ctx'])
            else:
                sync_decl(self, [('%s_%s' % (g, fills[0]), ('ratio', i)) for i, g in enumerate(fills[1:])], _h['ctx'])
        ratio = a['ratio']
        ratios = [float(ratio)] if isinstance(ratio, (float, int)) else [float(v) for v in ratio]
        if len(fills) == 1:
            ratios = []
        if len(ratios) != len(fills) - 1:
            return None, 'ratio-count'
        if any((not math.isfinite(v)) or v < 0 for v in ratios):
            return None, 'negative-or-non-finite-ratio'
        if not isinstance(nlayers, (int, np.integer)) or nlayers < 1:
            return None, 'nlayers<1'
        gases = list(self.__dict__.get('_vmon_gases', []))
        traces = []
        for g in gases:
            p = np.asarray(g.mixProfile, dtype=float)
            if p.shape != (nlayers,) or not np.all(np.isfinite(p)) or np.any(p < 0):
                return None, 'trace-profile-not-a-valid-abundance'
            traces.append((g.molecule, p))
        total = np.zeros(nlayers)
        for _, p in traces:
            total = total + p
        return dict(fills=fills, ratios=ratios, traces=traces, total=total, n=int(nlayers)), None

    def chem_judged(self, nlayers, what):
        st, why = chem_state(self, nlayers)
        if st is None:
            _h['ctx'].event('contract-domain-skip:chem:%s:%s' % (what, why))
            return None
        k = max(len(st['traces']), 1)
        near = (st['total'] != 1.0) & (np.abs(st['total'] - 1.0) <= 4 * EPS * k)
        if np.any(near):        # the float sum cannot tell which side of one the exact total lies on
            _h['ctx'].event('contract-domain-skip:chem:%s:trace-total-within-rounding-of-one' % what)
            return None
        return st

    def traces_above_one_are_rejected(self, nlayers):
        c = _h['ctx']
        st = chem_judged(self, nlayers, 'rejected')
        if st is None:
            return True
        # reaching a postcondition means no exception was raised
        c.check('contract:chem.rejects-traces-above-one', not bool(np.any(st['total'] > 1.0)),
                max_total=float(np.max(st['total'])), **wit(self))
        return True

    def mixture_is_nonnegative_and_sums_to_one(self, nlayers):
        c = _h['ctx']
        st = chem_judged(self, nlayers, 'mixture')
        if st is None or np.any(st['total'] > 1.0):
            return True
        mp = np.asarray(self.mixProfile, dtype=float)
        ngas = len(st['fills']) + len(st['traces'])
        ok = c.check('contract:chem.shape', mp.shape == (ngas, st['n']), got_shape=list(mp.shape),
                     want=[ngas, st['n']], **wit(self))
        if not ok:
            return True
        c.check('contract:chem.nonnegative', bool(np.all(mp >= 0)), min=float(np.min(mp)), **wit(self))
        c.close('contract:chem.sums-to-one', mp.sum(axis=0), np.ones(st['n']), 1e-12, **wit(self))
        return True

    def fill_gases_keep_their_ratios_and_traces_their_profiles(self, nlayers):
        c = _h['ctx']
        st = chem_judged(self, nlayers, 'ratios')
        if st is None or np.any(st['total'] > 1.0):
            return True
        try:
            main = np.asarray(self.get_gas_mix_profile(st['fills'][0]), dtype=float)
        except KeyError:
            c.check('contract:chem.fill-ratios', False, missing=st['fills'][0], **wit(self))
            return True
        # the fill gases share exactly what the traces leave
        rem = 1.0 - st['total']
        share = 1.0 + sum(st['ratios'])
        c.close('contract:chem.fill-main', main, rem / share, 1e-12, atol=1e-15, **wit(self))
        for gname, r in zip(st['fills'][1:], st['ratios']):
            got = np.asarray(self.get_gas_mix_profile(gname), dtype=float)
            # "exactly the requested ratio": one multiplication, so at most an ulp or two
            c.close('contract:chem.fill-ratios', got, r * main, 4 * EPS, gas=gname, ratio=r, **wit(self))
        for gname, p in st['traces']:
            got = np.asarray(self.get_gas_mix_profile(gname), dtype=float)
            c.check('contract:chem.trace-rows', got.shape == p.shape and bool(np.all(got == p)), gas=gname, **wit(self))
        return True

    def mu_is_the_abundance_weighted_molecular_mass(self, nlayers):
        c = _h['ctx']
        st = chem_judged(self, nlayers, 'mu')
        if st is None or np.any(st['total'] > 1.0):
            return True
        names = st['fills'] + [g for g, _ in st['traces']]
        try:
            ref_m = [molar_mass(g) * AMU for g in names]
        except ValueError:
            c.event('contract-domain-skip:chem:mu:formula-outside-reference-table')
            return True
        mu = np.asarray(self.muProfile, dtype=float)
        if mu.shape != (st['n'],):
            c.check('contract:chem.mu-weighted-sum', False, got_shape=list(mu.shape), **wit(self))
            return True
        rows = [np.asarray(self.get_gas_mix_profile(g), dtype=float) for g in names]
        # (a) every molecule's mass agrees with the independent table/parser to the spread between IUPAC editions
        own_m = [float(self.get_molecular_mass(g)) for g in names]
        c.close('contract:chem.molecular-mass', own_m, ref_m, MASS_RTOL, gases=names)
        # (b) mu is exactly the weighted sum (tight), (c) and agrees with the independent masses (table tolerance)
        c.close('contract:chem.mu-weighted-sum', mu, sum(x * m for x, m in zip(rows, own_m)), 1e-12, **wit(self))
        c.close('contract:chem.mu-independent-masses', mu, sum(x * m for x, m in zip(rows, ref_m)), MASS_RTOL, **wit(self))
        return True

    def gases_split_by_opacity_availability(self, nlayers):
        c = _h['ctx']
        avail = self.__dict__.get('_vmon_avail')
        st = chem_judged(self, nlayers, 'split')
        if st is None or np.any(st['total'] > 1.0):
            return True
        if avail is None:
            c.event('contract-domain-skip:chem:split:availability-not-recorded')
            return True
        names = st['fills'] + [g for g, _ in st['traces']]
        want_a = [g for g in names if g in avail]
        want_i = [g for g in names if g not in avail]
        got_a, got_i = list(self.activeGases), list(self.inactiveGases)
        c.check('contract:chem.active-inactive-split', sorted(got_a) == sorted(want_a) and sorted(got_i) == sorted(want_i),
                got_active=got_a, want_active=want_a, got_inactive=got_i, want_inactive=want_i, **wit(self))
        amp, imp = self.activeGasMixProfile, self.inactiveGasMixProfile
        na = 0 if amp is None else np.asarray(amp).shape[0]
        ni = 0 if imp is None else np.asarray(imp).shape[0]
        ok = na == len(want_a) and ni == len(want_i)
        if ok:
            for k, g in enumerate(got_a):
                ok = ok and bool(np.all(np.asarray(amp)[k] == self.get_gas_mix_profile(g)))
            for k, g in enumerate(got_i):
                ok = ok and bool(np.all(np.asarray(imp)[k] == self.get_gas_mix_profile(g)))
            full = np.asarray(self.mixProfile, dtype=float)
            for k, g in enumerate(names):
                ok = ok and bool(np.all(full[k] == self.get_gas_mix_profile(g)))
        c.check('contract:chem.split-profiles-aligned', ok, n_active=na, n_inactive=ni, **wit(self))
        return True

    f = TaurexChemistry.__dict__['initialize_chemistry']
    for cond in (gases_split_by_opacity_availability, mu_is_the_abundance_weighted_molecular_mass,
                 fill_gases_keep_their_ratios_and_traces_their_profiles, mixture_is_nonnegative_and_sums_to_one,
                 traces_above_one_are_rejected):
        f = icontract.ensure(cond, error=PostBroken)(f)
    TaurexChemistry.initialize_chemistry = f
    _h['chem_state'] = chem_state
