"""C16 -- output files hold what was computed and reload to the same model.

Monitors
  * taps on HDF5Output.create_group and on every HDF5OutputGroup writer (write_array/write_scalar/
    write_string/write_string_array/create_group): an event log of (hdf5 path, kind, value snapshot taken
    BEFORE the real writer runs; logged when the writer completed);
  * tap on taurex.util.util.store_thing (which python type reached which branch of the type dispatch);
  * tap on h5py.File.__init__ (h5py opens do not raise audit events) plus a sys.addaudithook for
    builtin ``open``: which files were opened in which mode, by the writer and by the loader.
Oracles (offline, over the file read back with h5py only)
  (a) every leaf of a generated nested dictionary is found unchanged under the same nested name
      (independent layout function lib_c16.expected_layout), nothing else is in the file, and every logged
      write is in the file;
  (b) the stored spectrum dictionary of every binner/output size describes itself consistently;
  (c) model.write -> taurex_hdf5_to_model gives the same classes, parameter values and spectrum.
Known-bad input classes of the unchanged tree are exercised by their own strata (workloads *_known) under their
own monitor names ``name[stratum]``, so that the main workloads stay sharp detectors for everything else.
"""
import hashlib
import os
import sys

import numpy as np

from vmon import lib_c16 as L
from vmon import taps, world

PROPERTY = 'C16'
RULE = ('(a) nested dictionaries to depth 4 from a seeded generator (python/numpy scalars incl. nan/inf/-0/extremes, '
        'arrays of rank 0-3 and five dtypes, strings incl. long and non-ASCII, lists/tuples of numbers, nested lists, '
        'lists of strings up to the documented 64 ASCII bytes, lists of dicts, empty containers; strata: lists of '
        'unequal-length arrays, string lists beyond 64 bytes / non-ASCII), written through store_dictionary of the file '
        'object or of a group (named or not, fresh or appended file) and through the writer API directly; (b) model '
        'outputs of synthetic worlds (with the contribution dictionaries) and synthetic (grid, flux, tau) tuples through '
        'every binner and output size; (c) synthetic worlds over every built-in model/temperature/pressure/gas/chemistry/'
        'contribution class with non-default constructor values, optionally with fitting parameters changed after '
        'construction, opacities from pickle files or in memory, written with model.write and reloaded with '
        'taurex_hdf5_to_model. A case is non-trivial when a file was written and read back; distinct = distinct '
        'content signatures')
ASSUMPTIONS = [
    'the layout store_dictionary promises (dict->group, number->scalar, array->dataset, str->string, list of '
    'numbers->array, list of str->string array, list that is no regular array-> <key><index> entries) is read from '
    'store_thing and mirrored independently in lib_c16.expected_layout',
    'leaves directly under the file root are outside the interface (class Output offers create_group only): counted as '
    'domain-skip, the root is given dictionaries of dictionaries',
    'scalar types the writer refuses loudly (ValueError "Cannot save <type>": numpy float32/int32/bool_ scalars), '
    'NUL characters in strings and mixed str/number lists are not generated',
    '(b) binned_spectrum is judged against the real binner applied to the STORED native spectrum; the binning '
    'arithmetic itself belongs to the binning properties',
    '(c) "same spectrum" is judged at 1e-12 against the original model evaluated in the contribution order of the '
    'reloaded model (the loader adds contributions alphabetically; summation order and the tau>10 early exit are not '
    'commutative in floating point); the original order is held to the early-exit licence of C01',
    '(c) an optional parameter that was None may come back as the class\'s own negative "unset" sentinel',
    '(c) PhoenixStar and the lightcurve model need external data/packages and are not exercised',
]
_Q = {'models_known': 9, 'dicts_known': 4, 'dicts': 220, 'api': 60, 'spectra': 50, 'synth_spectra': 120, 'models': 55}
_T = {'models_known': 27, 'dicts_known': 12, 'dicts': 1200, 'api': 300, 'spectra': 200, 'synth_spectra': 800,
      'models': 220}
BUDGET = {
    'quick': [dict(name='main', env={'NUMBA_BOUNDSCHECK': '1'}, shards=4, cases=_Q)],
    'thorough': [dict(name='main', env={'NUMBA_BOUNDSCHECK': '1'}, shards=16, cases=_T)],
}
REQUIRED = dict(
    monitors=['roundtrip-leaf', 'roundtrip-string-list', 'roundtrip-string-list[outside-S64-ascii]',
              'irregular-list-stored-per-element[ragged-arrays]', 'same-nested-names', 'logged-write-in-file',
              'file-open-modes', 'file-only-through-h5py', 'metadata-attrs', 'wlgrid=1e4/wngrid', 'stored=computed',
              'binned-wlwidth:SimpleBinner', 'binned-wlwidth:FluxBinner', 'binned-wnwidth-of-same-bins',
              'binned=binner(stored-native)', 'binned-tau=binner(tau)', 'tau-presence',
              'model-written', 'model-reloaded', 'reload-classes', 'reload-parameter-names', 'reload-parameters',
              'reload-spectrum', 'reload-spectrum-original-order', 'reload-leaves-file-untouched'],
    classes=['same-binner:dozens-of-results-earlier-ones-again', 'same-binner:same-size-and-ends', 'same-binner:other-size', 'leaf:float', 'leaf:int', 'leaf:npfloat', 'leaf:npint', 'leaf:bool', 'leaf:array', 'leaf:string',
             'leaf:numlist', 'leaf:numtuple', 'leaf:nestlist', 'leaf:strlist', 'leaf:strtuple', 'leaf:dictlist',
             'leaf:raggedlist', 'strlist-element-outside-S64-ascii',
             'array-rank:0', 'array-rank:1', 'array-rank:2', 'array-rank:3', 'depth:4', 'append',
             'store:root+name', 'store:group', 'store:group+name',
             'binner:FluxBinner', 'binner:SimpleBinner', 'binner:NativeBinner', 'size:heavy', 'size:light', 'size:lighter',
             'spectra-model:TransmissionModel', 'spectra-model:EmissionModel', 'spectra-model:DirectImageModel',
             'model:TransmissionModel', 'model:EmissionModel', 'model:DirectImageModel',
             'T:Isothermal', 'T:Guillot2010', 'T:NPoint', 'T:Rodgers2000',
             'gas:ConstantGas', 'gas:TwoLayerGas', 'gas:PowerGas', 'gas:ArrayGas',
             'P:SimplePressureProfile', 'chem:TaurexChemistry',
             'contrib:AbsorptionContribution', 'contrib:CIAContribution', 'contrib:RayleighContribution',
             'contrib:SimpleCloudsContribution', 'contrib:FlatMieContribution', 'contrib:LeeMieContribution',
             'contrib:HydrogenIon', 'history:parameters-changed', 'opacity:files', 'opacity:memory',
             'contribution-order-changed-by-reload', 'models:free-draw', 'same-binner:result-arrays-refilled-in-place'] + ['stratum:' + k for k in L.KNOWN_BAD])

_log = {'writes': [], 'opens': [], 'builtin_opens': [], 'on': False}
_hook_installed = [False]

# stratum -> (known-finding key, monitors that mechanism can make fail, necessary witness condition)
MODEL_FINDINGS = {
    'twopoint-gas': ('C16/twopoint-not-exported', {'model-reloaded'},
                     lambda w: 'Class of name TwoPointGas does not exist' in str(w.get('message'))),
    'temperature-array': ('C16/temperature-array-not-exported', {'model-reloaded'},
                          lambda w: 'Class of name TemperatureArray does not exist' in str(w.get('message'))),
    'array-pressure': ('C16/arraypressure-write-omits-array', {'model-reloaded'},
                       lambda w: w.get('exception') == 'TypeError' and "'array'" in str(w.get('message'))),
    'chemistry-file': ('C16/chemistryfile-write-omits-gases', {'model-reloaded'},
                       lambda w: w.get('exception') == 'TypeError' and 'ChemistryFile' in str(w.get('kinds'))),
    'powergas-defaults': ('C16/powergas-write-none', {'model-written'},
                          lambda w: w.get('exception') == 'TypeError'),
    'guillot-T_int': ('C16/guillot-write-omits-T_int', {'reload-parameters', 'reload-spectrum',
                                                        'reload-spectrum-original-order'},
                      lambda w: w.get('parameter') in (None, 'T_int_guillot')),
    'new-path-method': ('C16/transmission-write-omits-new-path-method', {'reload-spectrum',
                                                                        'reload-spectrum-original-order'},
                        lambda w: w.get('which') in (None, 'spectrum')),
    'temperature-file': ('C16/file-profiles-write-omit-filename', {'model-reloaded'},
                         lambda w: w.get('exception') in ('ValueError', 'TypeError', 'OSError', 'FileNotFoundError')),
    'pressure-file': ('C16/file-profiles-write-omit-filename', {'model-reloaded'},
                      lambda w: w.get('exception') in ('ValueError', 'TypeError', 'OSError', 'FileNotFoundError')),
}


def classify(f):
    """Known findings are recognised from the input class (stratum / binner / element class) the monitor name
    carries plus the structural signature of the mechanism -- never from values."""
    mon = f.get('monitor') or ''
    w = f.get('witness', {}) or {}
    feat = f.get('features', {}) or {}
    if mon == 'roundtrip-string-list[outside-S64-ascii]' and w.get('outside_s64_ascii') is True:
        return 'C16/string-array-truncation'
    if mon == 'irregular-list-stored-per-element[ragged-arrays]' and w.get('exception') == 'ValueError' and \
            'inhomogeneous' in str(w.get('message')):
        return 'C16/ragged-list-valueerror'
    if mon == 'binned-wlwidth:FluxBinner' and feat.get('binner') == 'FluxBinner' and \
            w.get('stored_is_reciprocal_of_wnwidth') is True:
        return 'C16/fluxbinner-wlwidth'
    if mon.endswith(']') and '[' in mon:
        base, stratum = mon[:-1].split('[', 1)
        if feat.get('stratum') == stratum and stratum in MODEL_FINDINGS:
            key, monitors, cond = MODEL_FINDINGS[stratum]
            if base in monitors and cond(w):
                return key
    return None


# -------------------------------------------------------------------- taps
def setup(ctx):
    import h5py
    from taurex.output.hdf5 import HDF5Output, HDF5OutputGroup

    def rec(kind):
        def before(self, a, kw):
            if not _log['on'] or self._entry is None:
                return None
            name = a[0] if a else kw.get(kind_arg[kind])
            val = a[1] if len(a) > 1 else None
            snap = val
            if isinstance(val, np.ndarray):
                snap = val.copy()
            elif isinstance(val, list):
                snap = list(val)
            meta = a[2] if len(a) > 2 else kw.get('metadata')
            return (self._entry.name.rstrip('/') + '/' + str(name), kind, snap, dict(meta) if meta else None)

        def after(self, a, kw, res, exc, token):
            # only writes the real writer completed are part of the log (a refused write falls back to other calls)
            if token is not None and exc is None:
                _log['writes'].append(token)
                ctx.event('tap:' + kind)
        return before, after
    kind_arg = {'array': 'array_name', 'scalar': 'scalar_name', 'string': 'string_name', 'strlist': 'string_name'}
    taps.tap(HDF5OutputGroup, 'write_array', *rec('array'))
    taps.tap(HDF5OutputGroup, 'write_scalar', *rec('scalar'))
    taps.tap(HDF5OutputGroup, 'write_string', *rec('string'))
    taps.tap(HDF5OutputGroup, 'write_string_array', *rec('strlist'))

    def grp(self, a, kw):
        if not _log['on']:
            return
        ent = self._entry if isinstance(self, HDF5OutputGroup) else self.fd
        if ent is None:
            return
        _log['writes'].append((ent.name.rstrip('/') + '/' + str(a[0] if a else kw['group_name']), 'group', None, None))
        ctx.event('tap:create_group')
    taps.tap(HDF5OutputGroup, 'create_group', grp)
    taps.tap(HDF5Output, 'create_group', grp)

    def h5open(self, a, kw):
        if _log['on']:
            name = a[0] if a else kw.get('name')
            mode = a[1] if len(a) > 1 else kw.get('mode', 'r')
            _log['opens'].append((os.fspath(name) if isinstance(name, (str, bytes, os.PathLike)) else repr(name), mode))
            ctx.event('tap:h5py.File')
    taps.tap(h5py.File, '__init__', h5open)

    import taurex.util.util as tutil

    def seen_type(a, kw):
        if _log['on']:
            ctx.event('store_thing:' + type(a[2] if len(a) > 2 else kw.get('item')).__name__)
    taps.tap_function(tutil, 'store_thing', seen_type)

    if not _hook_installed[0]:
        def audit(event, args):
            if event == 'open' and _log['on'] and isinstance(args[0], str):
                _log['builtin_opens'].append((args[0], args[1]))
        sys.addaudithook(audit)
        _hook_installed[0] = True


def teardown(ctx):
    taps.untap_all()
    _log['on'] = False


def start_log():
    for k in ('writes', 'opens', 'builtin_opens'):
        _log[k] = []
    _log['on'] = True


def stop_log():
    _log['on'] = False
    return {k: list(_log[k]) for k in ('writes', 'opens', 'builtin_opens')}


def file_digest(path):
    with open(path, 'rb') as fh:
        return hashlib.blake2b(fh.read(), digest_size=16).hexdigest()


# ------------------------------------------------------------ (a) checkers
def check_leaf(ctx, path, kind, want, entry, **wit):
    """One leaf of the expectation against what h5py returns for ``path``."""
    if entry is None:
        return ctx.check('same-nested-names', False, missing=path, kind=kind, **wit)
    typ, val, dtype, shape, attrs = entry
    if kind == 'group':
        return ctx.check('same-nested-names', typ == 'group', path=path, found=typ, **wit)
    if typ != 'dataset':
        return ctx.check('same-nested-names', False, path=path, found=typ, want=kind, **wit)
    if kind == 'string':
        got = L.decode(val)
        return ctx.check('roundtrip-leaf', isinstance(got, str) and got == want, path=path, kind=kind,
                         got=repr(got)[:200], want=repr(want)[:200], **wit)
    if kind == 'strlist':
        ok_shape = ctx.check('roundtrip-string-list-shape', tuple(shape) == (len(want), 1), path=path,
                             shape=list(shape), n=len(want))
        if not ok_shape:
            return False
        ok = True
        for i, s in enumerate(want):
            raw = val[i, 0]
            try:
                got = raw.decode('utf-8')
            except Exception:
                got = repr(raw)
            outside = L.outside_s64_ascii(s)
            ok &= ctx.check('roundtrip-string-list' + ('[outside-S64-ascii]' if outside else ''), got == s, path=path,
                            index=i, got=got[:200], want=s[:200], want_utf8_bytes=len(s.encode('utf-8')),
                            outside_s64_ascii=outside, **wit)
        return ok
    # scalar / array
    want_arr = np.asarray(want)
    if kind == 'scalar' and isinstance(want, (bool, np.bool_)):
        ok, why = (np.asarray(val).shape == () and bool(val) == bool(want)), 'bool differs'
    elif kind == 'scalar' and isinstance(want, int):
        ok, why = L.same_values(val, np.int64(want))
    else:
        ok, why = L.same_values(val, want_arr)
    return ctx.check('roundtrip-leaf', ok, path=path, kind=kind, why=why, got=val, want=want_arr, **wit)


def check_file_against(ctx, filename, expect, log, root='/', allow_extra=()):
    """expect: {path: (kind, value)} -- every leaf present & equal, no unexpected entries, every logged write
    present & equal."""
    content = L.read_h5(filename)
    content.pop('__root_attrs__', None)
    for path, (kind, want) in expect.items():
        check_leaf(ctx, path, kind, want, content.get(path))
    extra = sorted(p for p in content if p not in expect and not any(p == e or p.startswith(e + '/') for e in allow_extra))
    ctx.check('same-nested-names', not extra, unexpected_entries=extra[:10], n_expected=len(expect))
    # the event log: what the writer was asked to write is what the file holds
    for path, kind, snap, meta in log['writes']:
        ent = content.get(path)
        if kind == 'array' and isinstance(snap, list):
            continue            # the list form recurses into <name><idx> writes, which are logged themselves
        if ent is None:
            ctx.check('logged-write-in-file', False, path=path, kind=kind)
            continue
        if kind == 'group':
            ctx.check('logged-write-in-file', ent[0] == 'group', path=path)
        elif kind == 'string':
            ctx.check('logged-write-in-file', L.decode(ent[1]) == snap, path=path, kind=kind)
        elif kind == 'strlist':
            pass                # judged element-wise by roundtrip-string-list
        else:
            if isinstance(snap, (bool, np.bool_)):
                ok = bool(ent[1]) == bool(snap)
            else:
                g, w = np.asarray(ent[1]), np.asarray(snap)
                ok = g.shape == w.shape and (np.array_equal(g, w, equal_nan=True) if w.dtype.kind in 'fc'
                                             else np.array_equal(g, w))
            ctx.check('logged-write-in-file', ok, path=path, kind=kind)
        if meta:
            for k, v in meta.items():
                got = ent[4].get(k)
                ctx.check('metadata-attrs', got is not None and np.all(np.asarray(got) == np.asarray(v)), path=path,
                          attr=k, got=got, want=v)
    return content


def check_opens(ctx, log, filename, modes):
    got = [m for n, m in log['opens'] if os.path.realpath(n) == os.path.realpath(filename)]
    ctx.check('file-open-modes', got == list(modes), file=os.path.basename(filename), got=got, want=list(modes))
    wr = [(n, m) for n, m in log['builtin_opens'] if os.path.realpath(n) == os.path.realpath(filename)]
    ctx.check('file-only-through-h5py', not wr, builtin_opens=wr)


# ----------------------------------------------------------- (a) workloads
def strip_ragged(d):
    """Copy of d without the irregular (ragged) numeric lists."""
    out = {}
    for k, v in d.items():
        if isinstance(v, dict):
            out[k] = strip_ragged(v)
        elif isinstance(v, list) and v and all(isinstance(x, np.ndarray) for x in v) and \
                len({x.shape for x in v}) > 1:
            continue
        else:
            out[k] = v
    return out


def store(ctx, fn, dic, how, group, append):
    """Write ``dic`` the way ``how`` says; returns (path prefix of the leaves, h5py open modes)."""
    from taurex.output.hdf5 import HDF5Output
    if how == 'root':                      # HDF5Output.store_dictionary(dic, group_name=group)
        with HDF5Output(fn, append=append) as o:
            o.store_dictionary(dic, group_name=group)
        return ('/' + group) if group is not None else ''
    with HDF5Output(fn, append=append) as o:   # as taurex.py does: a group's store_dictionary
        out = o.create_group('Output')
        out.store_dictionary(dic, group_name=group)
    return '/Output' + (('/' + group) if group is not None else '')


def wl_dicts(ctx, rng, special=None):
    from taurex.output.hdf5 import HDF5Output
    feats = set()
    dic = L.rnd_dict(rng, 1, feats)
    if special is not None:
        sub = {'plain': L.rnd_float(rng)}
        sub['special'] = L.ragged_list(rng) if special == 'ragged-arrays' else L.outside_string_list(rng)
        dic[L.rnd_key(rng, set(dic))] = sub
    how = ['root', 'group'][rng.integers(0, 2)]
    group = L.rnd_key(rng, set()) if rng.random() < 0.6 else None
    if how == 'root' and group is None:
        # the root object offers create_group only (class Output); leaves directly under the root are outside
        # its interface -> only dictionaries of dictionaries are written there
        ctx.event('domain-skip:leaf-directly-under-file-root')
        dic = {k: v for k, v in dic.items() if isinstance(v, dict)}
    append = bool(rng.random() < 0.35)
    fn = os.path.join(ctx.scratch, 'd_%d.h5' % ctx.cases)
    has_ragged = _has_ragged(dic)
    feats = L.features_of(dic)
    ctx.observe(*sorted(feats))
    ctx.observe('store:' + how + ('+name' if group is not None else ''))
    ctx.feature(leaves=sorted(feats), group=group, append=append, how=how, has_ragged=has_ragged, special=special)
    expect = {}
    modes = []
    start_log()
    try:
        if append:
            ctx.observe('append')
            first = strip_ragged(L.rnd_dict(rng, 3, set()))
            with HDF5Output(fn) as o:
                o.store_dictionary(first, group_name='Earlier')
            modes.append('w')
            expect['/Earlier'] = ('group', None)
            expect.update(L.expected_layout(first, '/Earlier'))
        if has_ragged:
            # a list that is not a regular array is to be stored element by element as <key><index>
            probe = os.path.join(ctx.scratch, 'probe_%d.h5' % ctx.cases)
            _log['on'] = False
            try:
                store(ctx, probe, dic, how, group, False)
                ok = True
            except ValueError as e:
                ok = False
                ctx.check('irregular-list-stored-per-element[ragged-arrays]', False, exception=type(e).__name__,
                          message=str(e)[:200], has_ragged=True)
            _log['on'] = True
            if os.path.exists(probe):
                os.remove(probe)
            if ok:
                ctx.check('irregular-list-stored-per-element[ragged-arrays]', True)
            else:
                dic = strip_ragged(dic)
        prefix = store(ctx, fn, dic, how, group, append)
        modes.append('a' if append else 'w')
    finally:
        log = stop_log()
    p = ''
    for part in [x for x in prefix.split('/') if x]:
        p += '/' + part
        expect[p] = ('group', None)
    expect.update(L.expected_layout(dic, prefix))
    check_file_against(ctx, fn, expect, log)
    check_opens(ctx, log, fn, modes)
    nleaves = sum(1 for k, _ in expect.values() if k != 'group')
    ctx.sig('dict', tuple(sorted(feats)), nleaves, how, group is not None, append)
    ctx.sample({'leaves': sorted(feats), 'entries': len(expect), 'how': how, 'group': group, 'append': append})
    os.remove(fn)


def wl_dicts_known(ctx, rng):
    """Strata for the two list forms the unchanged tree is known to mishandle."""
    special = ['outside-S64-ascii', 'ragged-arrays'][(ctx.case['index'] + ctx.shard) % 2]
    ctx.observe('stratum:' + special)
    return wl_dicts(ctx, rng, special=special)


def _has_ragged(d):
    for v in d.values():
        if isinstance(v, dict):
            if _has_ragged(v):
                return True
        elif isinstance(v, list) and v and all(isinstance(x, np.ndarray) for x in v) and len({x.shape for x in v}) > 1:
            return True
    return False


def wl_api(ctx, rng):
    """The writer API used directly (as component write() methods do), with metadata and list forms."""
    from taurex.output.hdf5 import HDF5Output
    fn = os.path.join(ctx.scratch, 'a_%d.h5' % ctx.cases)
    feats = set()
    expect = {}
    used = set()
    start_log()
    try:
        with HDF5Output(fn) as o:
            g = o.create_group('G')
            expect['/G'] = ('group', None)
            for _ in range(int(rng.integers(2, 9))):
                k = L.rnd_key(rng, used)
                meta = None
                if rng.random() < 0.3:
                    meta = {'unit': 'um', 'n': int(rng.integers(0, 9))}
                    feats.add('metadata')
                r = rng.integers(0, 7)
                if r == 0:
                    v = L.rnd_array(rng)
                    g.write_array(k, v, meta)
                    expect['/G/' + k] = ('array', v)
                    feats.add('write_array')
                elif r == 1:
                    v = [L.rnd_array(rng) for _ in range(int(rng.integers(1, 4)))]
                    g.write_array(k, v, meta)          # list form: <name><idx>
                    for i, a in enumerate(v):
                        expect['/G/%s%d' % (k, i)] = ('array', a)
                    feats.add('write_array(list)')
                elif r == 2:
                    v = [L.rnd_float(rng) for _ in range(int(rng.integers(1, 6)))]
                    g.write_list(k, v)
                    expect['/G/' + k] = ('array', np.array(v))
                    feats.add('write_list')
                elif r == 3:
                    v = [L.rnd_float(rng), L.rnd_int(rng), np.float64(L.rnd_float(rng)), np.int64(L.rnd_int(rng))][
                        rng.integers(0, 4)]
                    g.write_scalar(k, v, meta)
                    expect['/G/' + k] = ('scalar', v)
                    feats.add('write_scalar')
                elif r == 4:
                    v = L.rnd_string(rng, feats)
                    g.write_string(k, v, meta)
                    expect['/G/' + k] = ('string', v)
                    feats.add('write_string')
                elif r == 5:
                    v = [L.rnd_string(rng, feats, nonascii_ok=False, maxlen=64) for _ in range(int(rng.integers(1, 5)))]
                    g.write_string_array(k, v, meta)
                    expect['/G/' + k] = ('strlist', v)
                    feats.add('write_string_array')
                else:
                    sub = g.create_group(k)
                    expect['/G/' + k] = ('group', None)
                    v = L.rnd_array(rng)
                    sub.write_array('inner', v)
                    expect['/G/' + k + '/inner'] = ('array', v)
                    feats.add('create_group')
    finally:
        log = stop_log()
    ctx.feature(api=sorted(feats))
    content = check_file_against(ctx, fn, expect, log)
    check_opens(ctx, log, fn, ['w'])
    ctx.observe(*['api:' + f for f in feats])
    ctx.sig('api', tuple(sorted(feats)), len(expect))
    os.remove(fn)


# ------------------------------------------------------------ (b) spectra
SIZES = ['heavy', 'light', 'lighter']


def make_binner(rng, native_wn, kind=None):
    """(binner, name, declared (centre, width) pairs or None)."""
    from taurex.binning import FluxBinner, SimpleBinner, NativeBinner
    kind = kind or ['FluxBinner', 'SimpleBinner', 'NativeBinner'][rng.choice(3, p=[0.2, 0.45, 0.35])]
    lo, hi = float(np.min(native_wn)), float(np.max(native_wn))
    if kind == 'NativeBinner':
        return NativeBinner(), kind, None
    n = int(rng.integers(2, max(3, min(12, len(native_wn)))))
    grid = np.sort(rng.uniform(lo, hi, n))
    for i in range(1, n):
        if grid[i] <= grid[i - 1]:
            grid[i] = grid[i - 1] * (1 + 1e-6) + 1e-9
    widths = None
    if rng.random() < 0.6:
        widths = np.gradient(grid) * rng.uniform(0.3, 1.0, n)
    if kind == 'FluxBinner':
        if rng.random() < 0.4:                     # the class sorts grid and widths itself
            perm = rng.permutation(n)
            grid = grid[perm]
            widths = widths[perm] if widths is not None else None
        b = FluxBinner(grid.copy(), None if widths is None else widths.copy())
    else:
        b = SimpleBinner(grid.copy(), None if widths is None else widths.copy())
    declared = None if widths is None else sorted(zip(grid.tolist(), widths.tolist()))
    ctor = (type(b), grid.copy(), None if widths is None else widths.copy())
    return b, kind, (grid, declared, ctor)


def judge_spectrum_group(ctx, content, base, binner, kind, decl, size, result, wit):
    """The stored spectrum dictionary against the statement (all values are the ones read back)."""
    from taurex.util.util import compute_bin_edges

    def ds(name):
        e = content.get(base + '/' + name)
        return None if e is None or e[0] != 'dataset' else np.asarray(e[1])
    wn, wl, flux = ds('native_wngrid'), ds('native_wlgrid'), ds('native_spectrum')
    ok = ctx.check('spectrum-entries-present', wn is not None and wl is not None and flux is not None, **wit)
    if not ok:
        return
    ctx.close('wlgrid=1e4/wngrid', wl, 1e4 / wn, 4e-16, which='native', **wit)
    # what was computed is what was stored
    ctx.close('stored=computed', wn, result[0], 0.0, which='native_wngrid', **wit)
    ctx.close('stored=computed', flux, result[1], 0.0, which='native_spectrum', **wit)
    ntau, btau = ds('native_tau'), ds('binned_tau')
    bins = kind != 'NativeBinner'
    want_native = size == 'heavy'
    want_binned = bins and size in ('heavy', 'light')
    ctx.check('tau-presence', (ntau is not None) == want_native and (btau is not None) == want_binned,
              native_tau=ntau is not None, binned_tau=btau is not None, **wit)
    if ntau is not None:
        ctx.close('stored=computed', ntau, result[2], 0.0, which='native_tau', **wit)
    if not bins:
        ctx.check('native-binner-has-no-binned-entries',
                  not any(k.startswith(base + '/binned_') for k in content), **wit)
        return
    bwn, bwl, bwnw, bwlw, bsp = (ds('binned_wngrid'), ds('binned_wlgrid'), ds('binned_wnwidth'), ds('binned_wlwidth'),
                                 ds('binned_spectrum'))
    ok = ctx.check('spectrum-entries-present', all(v is not None for v in (bwn, bwl, bwnw, bwlw, bsp)), which='binned', **wit)
    if not ok:
        return
    ctx.close('wlgrid=1e4/wngrid', bwl, 1e4 / bwn, 4e-16, which='binned', **wit)
    # widths: dlambda = 1e4 * dnu / nu^2 at the bin centre  (three roundings)
    ctx.close('binned-wlwidth:' + kind, bwlw, 1e4 * bwnw / bwn ** 2, 1e-14,
              stored_is_reciprocal_of_wnwidth=bool(np.allclose(bwlw, 1.0 / bwnw, rtol=1e-14, atol=0)), **wit)
    grid, declared, ctor = decl
    if declared is not None:
        got_pairs = sorted(zip(bwn.tolist(), bwnw.tolist()))
        ctx.close('binned-wnwidth-of-same-bins', np.array(got_pairs), np.array(declared), 0.0, **wit)
    else:
        order = np.argsort(grid) if kind == 'FluxBinner' else np.arange(len(grid))
        ctx.close('binned-wnwidth-of-same-bins', bwnw, compute_bin_edges(np.asarray(grid)[order])[-1], 1e-15, **wit)
    # "the binner applied to the stored native spectrum": a FRESH binner object of the same declaration, so that
    # anything the used binner remembers from earlier grids cannot vouch for itself
    fresh = ctor[0](ctor[1].copy(), None if ctor[2] is None else ctor[2].copy())
    ctx.close('binned=binner(stored-native)', bsp, fresh.bindown(wn, flux)[1], 1e-14, **wit)
    if btau is not None:
        ctx.close('binned-tau=binner(tau)', btau, fresh.bindown(wn, np.asarray(result[2]))[1], 1e-14, **wit)


def store_and_judge_spectrum(ctx, rng, result, tag, extra=None, binner_t=None, want_binner=False):
    from taurex import OutputSize
    from taurex.output.hdf5 import HDF5Output
    binner, kind, decl = binner_t or make_binner(rng, result[0])
    size = SIZES[rng.integers(0, 3)]
    ctx.observe('binner:' + kind, 'size:' + size)
    wit = dict(binner=kind, output_size=size)
    ctx.feature(binner=kind, size=size, source=tag)
    out = binner.generate_spectrum_output(result, output_size=getattr(OutputSize, size))
    if extra:
        out.update(extra(binner, getattr(OutputSize, size)))
    fn = os.path.join(ctx.scratch, 's_%d.h5' % ctx.cases)
    start_log()
    try:
        with HDF5Output(fn) as o:
            grp = o.create_group('Output')
            grp.store_dictionary(out, group_name='Spectra')
    finally:
        log = stop_log()
    expect = {'/Output': ('group', None), '/Output/Spectra': ('group', None)}
    expect.update(L.expected_layout(out, '/Output/Spectra'))
    content = check_file_against(ctx, fn, expect, log)
    check_opens(ctx, log, fn, ['w'])
    judge_spectrum_group(ctx, content, '/Output/Spectra', binner, kind, decl, size, result, wit)
    os.remove(fn)
    if want_binner:
        return kind, size, (binner, kind, decl)
    return kind, size


def wl_synth_spectra(ctx, rng):
    n = int(rng.integers(4, 120))
    wn = world.wn_grid(rng, n)
    nl = int(rng.integers(1, 8))
    flux = 10 ** rng.uniform(-6, -1, n)
    tau = np.exp(-10 ** rng.uniform(-3, 2, (nl, n)))
    result = (wn, flux, tau, None)
    long = ctx.case['index'] % 30 == 13
    kind, size, bt = store_and_judge_spectrum(ctx, rng, result, 'synthetic', want_binner=True,
                                              binner_t=make_binner(rng, wn, ['FluxBinner', 'SimpleBinner'][rng.integers(0, 2)]) if long else None)
    if long:
        # a long history on ONE binner (one binner writing the outputs of a whole campaign): dozens of results on different
        # native grids, earlier results written again in between and at the end; every stored group is judged like the first
        results = [result]
        nres = int(rng.integers(22, 36)) if ctx.tier == 'quick' else int(rng.integers(50, 150))
        for j in range(nres):
            n2 = int(rng.integers(4, 120))
            wn2 = np.sort(rng.uniform(wn[0], wn[-1], n2))
            wn2[0], wn2[-1] = wn[0], wn[-1]
            if not np.all(np.diff(wn2) > 0):
                continue
            results.append((wn2, 10 ** rng.uniform(-6, -1, n2), np.exp(-10 ** rng.uniform(-3, 2, (nl, n2))), None))
            store_and_judge_spectrum(ctx, rng, results[-1], 'synthetic-same-binner-long', binner_t=bt)
            if j % 3 == 2:
                store_and_judge_spectrum(ctx, rng, results[int(rng.integers(0, max(len(results) // 2, 1)))],
                                         'synthetic-same-binner-long', binner_t=bt)
        for k_ in rng.integers(0, max(len(results) // 2, 1), 5):
            store_and_judge_spectrum(ctx, rng, results[int(k_)], 'synthetic-same-binner-long', binner_t=bt)
        ctx.observe('same-binner:dozens-of-results-earlier-ones-again')
    # the SAME binner object writes the output of further model results (the program does this once per contribution
    # and a script once per model): native grids of the same size and end points but other interior points, then
    # other sizes -- every stored group is judged like the first
    for _ in range(int(rng.integers(0, 3))):
        how = ['same-size-and-ends', 'same-size-and-ends', 'other-size'][rng.integers(0, 3)]
        if how == 'same-size-and-ends' and n >= 3:
            u = np.sort(rng.uniform(0, 1, n - 2))
            for i in range(1, len(u)):
                if u[i] <= u[i - 1] + 1e-9:
                    u[i] = u[i - 1] + 1e-6
            wn2 = np.concatenate([[wn[0]], wn[0] + (wn[-1] - wn[0]) * np.clip(u, 1e-6, 1 - 1e-6), [wn[-1]]])
            if not np.all(np.diff(wn2) > 0):
                continue
        else:
            n2 = int(rng.integers(4, 120))
            wn2 = np.sort(rng.uniform(wn[0], wn[-1], n2))
            wn2[0], wn2[-1] = wn[0], wn[-1]
            if not np.all(np.diff(wn2) > 0):
                continue
        r2 = (wn2, 10 ** rng.uniform(-6, -1, len(wn2)), np.exp(-10 ** rng.uniform(-3, 2, (nl, len(wn2)))), None)
        if len(wn2) == n and rng.random() < 0.5:
            # the producer's OWN arrays, refilled in place with the next result (a model that keeps and refills its
            # output buffers): the same objects, other content
            wn[...], flux[...], tau[...] = r2[0], r2[1], r2[2]
            r2 = result
            ctx.observe('same-binner:result-arrays-refilled-in-place')
        store_and_judge_spectrum(ctx, rng, r2, 'synthetic-same-binner', binner_t=bt)
        ctx.observe('same-binner:' + how)
    ctx.sig('synth', kind, size, n, nl, float(wn[0]))


def wl_spectra(ctx, rng):
    """Real model output (and the contribution dictionaries the program stores next to it)."""
    from taurex.exceptions import InvalidModelException
    from taurex.util.output import store_contributions
    spec = L.rnd_model_spec(rng, force={'T': ['isothermal', 'npoint', 'guillot'][rng.integers(0, 3)], 'P': 'simple',
                                        'chem': 'taurex'})
    spec['gases'] = [g if g['kind'] in ('constant', 'array') else {'kind': 'constant', 'mol': g['mol'], 'mix': 1e-5}
                     for g in spec['gases']]
    world.reset_caches()
    world.install_opacities(spec)
    install_cia_for(spec)
    model = L.build_full_model(spec, ctx.scratch)
    try:
        model.build()
        result = model.model()
    except InvalidModelException as e:
        if spec['temperature']['kind'] not in ('guillot', 'npoint'):
            raise
        ctx.license(type(e).__name__)      # Guillot value checks / NPoint slope limit: documented rejections
        return
    ctx.observe('spectra-model:' + type(model).__name__)

    def extra(binner, size):
        return {'Contributions': store_contributions(binner, model, output_size=size - 3)}
    kind, size = store_and_judge_spectrum(ctx, rng, result, type(model).__name__, extra if rng.random() < 0.5 else None)
    ctx.sig('spectra', kind, size, type(model).__name__, spec['nlayers'], round(spec['planet_mass'], 6))
    ctx.sample({'binner': kind, 'size': size, 'model': type(model).__name__, 'native_points': int(len(result[0]))})


def install_cia_for(spec):
    pairs = []
    for c in spec['contributions']:
        if not isinstance(c, str) and c['name'] == 'CIA':
            pairs = c['cia_pairs']
    if pairs:
        wn = next(iter(spec['tables'].values()))['wn']
        world.install_cia(np.random.default_rng(spec['cia_seed']), pairs, wn, 'mixed')


# -------------------------------------------------------------- (c) models
def prepare_opacities(ctx, spec, use_files):
    from taurex.cache import OpacityCache
    world.reset_caches()
    if use_files:
        d = os.path.join(ctx.scratch, 'xsec_%d' % ctx.cases)
        os.makedirs(d, exist_ok=True)
        for m, t in spec['tables'].items():
            world.write_pickle_xsec(os.path.join(d, m + '.pickle'), t['wn'], t['T'], t['P'], t['xsec'])
        OpacityCache().set_opacity_path(d)
        OpacityCache().set_interpolation(spec.get('interpolation', 'linear'))
    else:
        world.install_opacities(spec)
    install_cia_for(spec)


def wl_models(ctx, rng, force=None, stratum='safe'):
    from taurex.exceptions import InvalidModelException
    from taurex.output.hdf5 import HDF5Output
    from taurex.util.hdf5 import taurex_hdf5_to_model
    if stratum == 'safe' and rng.random() < 0.5:
        # every finding that once needed its own stratum is repaired: half of the main draws are unrestricted, so that
        # combinations of those component classes and their non-default constructor values are stored and reloaded too
        stratum = None
        ctx.observe('models:free-draw')
    spec = L.rnd_model_spec(rng, force=force, stratum=stratum)
    ctx.feature(stratum=stratum or 'free')
    tag = '' if stratum in ('safe', None) else '[%s]' % stratum      # known-bad strata never share a monitor with the main one
    use_files = bool(rng.random() < 0.5)
    prepare_opacities(ctx, spec, use_files)
    model = L.build_full_model(spec, ctx.scratch)
    kinds = {'T': type(model.temperature).__name__, 'P': type(model.pressure).__name__,
             'chem': type(model.chemistry).__name__, 'model': type(model).__name__,
             'gases': sorted({type(g).__name__ for g in (getattr(model.chemistry, '_gases', None) or [])
                              if hasattr(g, 'molecule')}),
             'contribs': sorted(type(c).__name__ for c in model.contribution_list)}
    ctx.feature(kinds=kinds, spec_T=spec['temperature'], model_kw={'new_path_method': spec['new_path_method'],
                                                                     'ngauss': spec['ngauss']},
                gases=spec['gases'], opacity_files=use_files, pressure_reverse=spec['pressure_reverse'])
    try:
        model.build()
        history = False
        if rng.random() < 0.5:
            # history: fitting parameters changed after construction (as a retrieval does)
            names = sorted(n for n in model.fittingParameters if stratum != 'safe' or n != 'T_int_guillot')
            for nm in rng.choice(names, min(len(names), int(rng.integers(1, 4))), replace=False):
                p = model.fittingParameters[str(nm)]
                v = p[2]()
                if isinstance(v, (int, float, np.floating)) and np.isfinite(v) and v > 0:
                    p[3](float(v) * float(rng.uniform(0.9, 1.1)))
                    history = True
        res0 = model.model()
    except InvalidModelException as e:
        if kinds['T'] not in ('Guillot2010', 'NPoint'):
            raise
        ctx.license(type(e).__name__)      # Guillot value checks / NPoint slope limit: documented rejections
        return
    if not np.all(np.isfinite(res0[1])):
        ctx.event('domain-skip:non-finite-spectrum')
        return
    ctx.feature(history=history)
    ctx.observe('model:' + kinds['model'], 'T:' + kinds['T'], 'P:' + kinds['P'], 'chem:' + kinds['chem'])
    ctx.observe(*['gas:' + g for g in kinds['gases']])
    ctx.observe(*['contrib:' + c for c in kinds['contribs']])
    ctx.observe('opacity:' + ('files' if use_files else 'memory'))
    if history:
        ctx.observe('history:parameters-changed')
    outdir = os.path.join(ctx.scratch, 'out')
    os.makedirs(outdir, exist_ok=True)
    fn = os.path.join(outdir, 'm_%d.h5' % ctx.cases)
    want_classes = L.component_classes(model)
    want_params = L.parameter_values(model)
    start_log()
    try:
        try:
            with HDF5Output(fn) as o:
                model.write(o)
        except Exception as e:
            ctx.check('model-written' + tag, False, exception=type(e).__name__, message=str(e)[:300], kinds=kinds)
            return
        ctx.check('model-written' + tag, True)
        digest = file_digest(fn)
        n_open = len(_log['opens'])
        try:
            m2 = taurex_hdf5_to_model(fn)
        except Exception as e:
            import traceback
            ctx.check('model-reloaded' + tag, False, exception=type(e).__name__, message=str(e)[:300], kinds=kinds,
                      where=traceback.format_exc()[-700:])
            return
        ctx.check('model-reloaded' + tag, True)
    finally:
        log = stop_log()
    modes = [m for n, m in log['opens'] if os.path.realpath(n) == os.path.realpath(fn)]
    ctx.check('file-open-modes', modes == ['w', 'r'], got=modes, want=['w', 'r'])
    ctx.check('reload-leaves-file-untouched', file_digest(fn) == digest)
    # every logged write is in the file (component write() methods)
    content = L.read_h5(fn)
    for path, kind, snap, meta in log['writes']:
        ctx.check('logged-write-in-file', path in content, path=path, kind=kind)
    got_classes = L.component_classes(m2)
    ctx.check('reload-classes' + tag, got_classes == want_classes, got=got_classes, want=want_classes)
    try:
        m2.build()
        res2 = m2.model()
    except Exception as e:
        ctx.check('reloaded-model-runs' + tag, False, exception=type(e).__name__, message=str(e)[:300], kinds=kinds)
        return
    ctx.check('reloaded-model-runs' + tag, True)
    got_params = L.parameter_values(m2)
    ctx.check('reload-parameter-names' + tag, sorted(got_params) == sorted(want_params),
              missing=sorted(set(want_params) - set(got_params)), extra=sorted(set(got_params) - set(want_params)))
    for nm in sorted(set(want_params) & set(got_params)):
        if want_params[nm] is None:
            # an unset optional parameter: stored as the class's own "unset" sentinel (negative) or absent
            g = got_params[nm]
            ctx.check('reload-unset-parameter' + tag, g is None or (isinstance(g, (int, float, np.number)) and g < 0),
                      parameter=nm, got=g)
            continue
        # values pass through a unit conversion and back at most once: 4 ulp
        ctx.close('reload-parameters' + tag, got_params[nm], want_params[nm], 1e-15 * 4, parameter=nm, kinds=kinds)
    ctx.close('reload-spectrum' + tag, res2[0], res0[0], 0.0, which='grid')
    order0 = [type(c).__name__ for c in model.contribution_list]
    order2 = [type(c).__name__ for c in m2.contribution_list]
    base = res0
    if order0 != order2 and sorted(order0) == sorted(order2):
        # The loader adds contributions in the file's (alphabetical) order.  The sum of contributions is
        # commutative, but floating-point summation and the tau>10 early exit of the transmission integral are
        # not: the 1e-12 comparison is made against the original model evaluated in the reloaded order, and the
        # original order is held to the bound the early exit licenses (C01: 2*sum((Rp+z)dz)*exp(-10)/Rs^2).
        ctx.observe('contribution-order-changed-by-reload')
        model.contribution_list.sort(key=lambda c: order2.index(type(c).__name__))
        base = model.model()
        atol = 0.0
        if kinds['model'] == 'TransmissionModel':
            z, dz = np.asarray(model.altitudeProfile, dtype=float), np.asarray(model.deltaz, dtype=float)
            atol = 2.0 * float(np.sum((model.planet.fullRadius + z) * dz)) * float(np.exp(-10.0)) / model.star.radius ** 2
        ctx.close('reload-spectrum-original-order' + tag, res2[1], res0[1], 1e-9, atol=atol, kinds=kinds)
    # identical parameter values (checked above to 4 ulp) and identical evaluation order: 1e-12 (DESIGN)
    ctx.close('reload-spectrum' + tag, res2[1], base[1], 1e-12, which='spectrum', kinds=kinds)
    ctx.sig('model', kinds['model'], kinds['T'], kinds['P'], kinds['chem'], tuple(kinds['gases']), tuple(kinds['contribs']),
            history, round(spec['planet_mass'], 6))
    ctx.sample({'kinds': kinds, 'history': history, 'parameters': len(want_params),
                'spectrum_minmax': [float(np.min(res0[1])), float(np.max(res0[1]))]})
    os.remove(fn)


def wl_models_known(ctx, rng):
    """One stratum per known-bad condition (cycled by case index), everything else from the safe set."""
    stratum = L.KNOWN_BAD[(ctx.case['index'] + ctx.shard) % len(L.KNOWN_BAD)]
    ctx.observe('stratum:' + stratum)
    return wl_models(ctx, rng, stratum=stratum)


WORKLOADS = {'models_known': wl_models_known, 'dicts_known': wl_dicts_known, 'dicts': wl_dicts, 'api': wl_api, 'spectra': wl_spectra, 'synth_spectra': wl_synth_spectra,
             'models': wl_models}

LEVEL_TEXT = ('Exploration by runtime monitoring: every HDF5 writer call (arrays, scalars, strings, string arrays, groups) '
              'is tapped into an event log, h5py file opens and builtin opens are recorded, and the files are read back '
              'with h5py alone. An independent layout function decides where each leaf of thousands of generated nested '
              'dictionaries must be and with which value (bit-for-bit incl. NaN and signed zero); stored spectrum '
              'dictionaries of every binner and output size are judged for self-consistency (1e4/wn, widths converted at '
              'the bin centre, binner applied to the stored native spectrum, optical depths per size); models over every '
              'built-in component class are written, reloaded with taurex_hdf5_to_model and compared by class, by every '
              'fitting-parameter getter (4 ulp) and by spectrum (1e-12). Held = held on the recorded executions; known '
              'defects are exercised in their own strata and reported as KNOWN-FINDING.')
LEVEL_NOTE = ('Trusted: h5py as the independent reader; lib_c16.expected_layout as the statement of the dictionary layout; '
              'the real binner as the oracle for "binned = binner(stored native)". The loader re-adds contributions in '
              'alphabetical order: the 1e-12 spectrum comparison is made in that order, the original order is held to '
              'the C01 early-exit bound. PhoenixStar and the lightcurve model are not exercised.')
TECHNIQUE = ('call taps on the HDF5 writers/h5py.File + audit hook, offline checker over the event log and the file read '
             'back with h5py, write->reload metamorphic oracle over seeded component combinations')
