"""C17 -- observations load independent of row order, with aligned columns and units.

Monitors
  * tap on ArraySpectrum.__init__ (fires for ObservedSpectrum and TaurexSpectrum too, through super()): the rows
    handed to the loader are snapshotted BEFORE the call; AFTER it the finished object is decided against them by
    an independent oracle (sorting, unit conversion, mid-point widths and edges written here).
  * tap on BaseSpectrum.create_binner + an __init__ tap on FluxBinner: the binner must have been declared with
    exactly the observation's centres and widths.
  * workloads: array, text file (np.loadtxt route, several number formats / delimiters / comment lines) and
    TauREx-HDF5 (Output/Spectra/instrument_* written with h5py) sources, each loaded from the rows in sorted
    order and in several permutations; all public properties must be identical, and a model that encodes its own
    wavenumber, binned with the observation's binner, must land on the observed values element by element.

Tolerances (derived)
  sorting / attachment: exact (0) -- rows are only moved.  wavenumber = 1e4/lambda and 1e4*dl/l^2: 4 ulp (1e-15).
  mid-point widths: (a+b)/2 against a+(b-a)/2 differ by an ulp of lambda, relative to a spacing d that is
  8*eps*lambda/d  (1e-12 for d/lambda = 1e-3); HDF5 route: lambda = 1e4/nu is rounded once more (1e-14).
  alignment: a native grid of spacing D binned with overlap weights returns the centre of a bin that lies inside
  the native range to within D/2 for a spectrum f(nu)=nu.
"""
import os

import numpy as np

from vmon import contracts, taps, world
from vmon import refmodel as R

PROPERTY = 'C17'
RULE = ('observations from a seeded generator: 2..60 distinct wavelengths in 0.3..30 um (linear, constant-R, '
        'irregular, two instruments with a gap), 3 or 4 columns, non-uniform values, errors and widths (widths '
        'narrower than, equal to and wider than the spacing, so bins may overlap), rows sorted ascending, descending '
        'and randomly permuted; sources: array, text file, TauREx HDF5; a case is non-trivial when the loader ran and '
        'its object was judged; distinct = distinct (source, columns, n, grid kind, checksum) tuples')
ASSUMPTIONS = [
    'wavelengths are all distinct (with ties "its own wavelength" is ambiguous and argsort is not stable)',
    '3 columns: the outermost mid-point edge lambda_min - (lambda_2 - lambda_min)/2 must be positive, 4 columns: '
    'lambda - width/2 > 0; otherwise the wavenumber edge does not exist (counted as domain-skip)',
    'bin edges are judged in the form the loader exposes: 2n edges (lower, upper per bin) with 4 columns, n+1 shared '
    'edges with 3 columns; consistency is exact in wavelength (edges = lambda -+ width/2 or mid-points) and the '
    'wavenumber width is the first-order conversion 1e4*dl/l^2, as the statement says',
    'TauREx-HDF5 files are written by the harness with h5py with the dataset names TaurexSpectrum reads',
]
_Q = {'array': 300, 'text': 120, 'hdf5': 100}
_T = {'array': 1200, 'text': 400, 'hdf5': 300}
BUDGET = {
    'quick': [dict(name='main', env={}, shards=4, cases=_Q)],
    'thorough': [dict(name='main', env={}, shards=16, cases=_T)],
}
REQUIRED = dict(
    monitors=['obs:wavenumber-ascending', 'obs:wavenumber=1e4/wavelength', 'obs:rows-attached', 'obs:widths-4col',
              'obs:widths-midpoint', 'obs:edges-4col', 'obs:edges-midpoint', 'obs:edges-bracket-centres',
              'binner:declared-with-observation-grid', 'binner:returns-observation-grid',
              'binner:model-aligned-with-observation', 'order-independence', 'text:rows-as-written',
              'hdf5:columns-as-written', 'obs:still-one-observation-after-the-caller-re-used-its-array'],
    classes=['source:array', 'source:text', 'source:hdf5', 'columns:3', 'columns:4', 'order:ascending-wavelength',
             'order:descending-wavelength', 'order:random', 'n:2', 'grid:linear', 'grid:constR', 'grid:irregular',
             'grid:two-instruments', 'widths:overlapping-bins', 'widths:narrow',
             'second-observation:same-count-and-ends-other-spacing', 'second-observation:columns-3', 'rows-dtype:i',
             'rows:tied-centres', 'widths:tied-centres', 'array:caller-re-used-its-array'])
EPS = float(np.finfo(float).eps)

_state = {'last_obs': None, 'last_binner_decl': None, 'ctx': None}


def classify(f):
    return None


# ------------------------------------------------------------------ oracle
def midpoint_edges_desc(lam):
    """Edges from neighbouring mid-points of a DESCENDING wavelength grid; ends extrapolated by half a spacing."""
    n = len(lam)
    e = np.empty(n + 1)
    e[1:-1] = 0.5 * (lam[:-1] + lam[1:])
    e[0] = lam[0] + 0.5 * (lam[0] - lam[1])
    e[-1] = lam[-1] - 0.5 * (lam[-2] - lam[-1])
    return e


def in_domain(rows):
    if rows.ndim != 2 or rows.shape[0] < 2 or rows.shape[1] not in (3, 4) or not np.all(np.isfinite(rows)):
        return 'shape-or-non-finite'
    lam = rows[:, 0]
    if np.any(lam <= 0) or (len(np.unique(lam)) != len(lam) and rows.shape[1] != 4):
        return 'wavelengths-not-positive-distinct'         # bins that share a centre need their own widths (4 columns)
    if rows.shape[1] == 4:
        if np.any(rows[:, 3] <= 0) or np.any(lam - rows[:, 3] / 2 <= 0):
            return 'width-reaches-zero-wavelength'
    else:
        s = np.sort(lam)
        if s[0] - 0.5 * (s[1] - s[0]) <= 0:
            return 'midpoint-edge-not-positive'
    return None


def canon(lam, width=None, *more):
    """Order of rows: wavelength descending; rows that share a wavelength (a broad band centred on a channel) by
    width.  The property fixes each row's content, not the order of tied rows among themselves."""
    lam = np.asarray(lam, dtype=float)
    if width is None:
        return np.argsort(-lam, kind='stable')
    return np.lexsort(tuple(np.asarray(m, dtype=float) for m in more[::-1]) + (np.asarray(width, dtype=float), -lam))


def judge_observation(ctx, obs, rows, source):
    """Decide one loaded observation against the rows it was loaded from."""
    why = in_domain(rows)
    if why:
        ctx.event('domain-skip:' + why)
        return None
    n, ncol = rows.shape
    tied = len(np.unique(rows[:, 0])) != n
    order = canon(rows[:, 0], *((rows[:, 3], rows[:, 2], rows[:, 1]) if ncol == 4 else ()))       # wavelength descending <=> wavenumber ascending
    srt = rows[order]
    lam = srt[:, 0]
    wit = dict(source=source, n=n, columns=ncol)
    wn = np.asarray(obs.wavenumberGrid, dtype=float)
    ok = ctx.check('obs:shapes', wn.shape == (n,) and np.shape(obs.spectrum) == (n,) and
                   np.shape(obs.errorBar) == (n,) and np.shape(obs.binWidths) == (n,) and
                   np.shape(obs.wavelengthGrid) == (n,), **wit)
    if not ok:
        return None
    ctx.check('obs:wavenumber-ascending', np.all(np.diff(wn) >= 0) if tied else np.all(np.diff(wn) > 0), wn=wn, **wit)
    ctx.close('obs:wavenumber=1e4/wavelength', wn, 1e4 / lam, 4 * EPS, **wit)
    # rows that share a wavelength are compared in the canonical order of both sides (identity when there are none)
    pg = canon(obs.wavelengthGrid, obs.binWidths, obs.errorBar, obs.spectrum) if tied else np.arange(n)
    if tied:
        ctx.observe('rows:tied-centres')
    # every value, error bar (and width) is still attached to its own wavelength: the rows are only moved
    ctx.close('obs:rows-attached', np.asarray(obs.wavelengthGrid)[pg], lam, 0.0, what='wavelength', **wit)
    ctx.close('obs:rows-attached', np.asarray(obs.spectrum)[pg], srt[:, 1], 0.0, what='value', **wit)
    ctx.close('obs:rows-attached', np.asarray(obs.errorBar)[pg], srt[:, 2], 0.0, what='error', **wit)
    edges = np.asarray(obs.binEdges, dtype=float)
    bw = np.asarray(obs.binWidths, dtype=float)[pg]
    if ncol == 4 and edges.shape == (2 * n,):
        edges = edges.reshape(n, 2)[pg].reshape(-1)
    if ncol == 4:
        dl = srt[:, 3]
        ctx.close('obs:widths-4col', bw, 1e4 * dl / lam ** 2, 8 * EPS, **wit)
        if ctx.check('obs:edges-4col', edges.shape == (2 * n,), what='two edges per bin', shape=list(edges.shape), **wit):
            ctx.close('obs:edges-4col', edges[0::2], 1e4 / (lam + dl / 2), 8 * EPS, what='lower', **wit)
            ctx.close('obs:edges-4col', edges[1::2], 1e4 / (lam - dl / 2), 8 * EPS, what='upper', **wit)
            ctx.check('obs:edges-bracket-centres', np.all(edges[0::2] < wn[pg]) and np.all(wn[pg] < edges[1::2]), **wit)
    else:
        e = midpoint_edges_desc(lam)
        dl = np.abs(np.diff(e))
        # rounding of a mid-point is an ulp of lambda; relative to the spacing that is eps*lambda/dl
        rt = 1e-14 + 8 * EPS * lam / dl
        ctx.close('obs:widths-midpoint', bw, 1e4 * dl / lam ** 2, rt, **wit)
        if ctx.check('obs:edges-midpoint', edges.shape == (n + 1,), what='n+1 shared edges', shape=list(edges.shape), **wit):
            ctx.close('obs:edges-midpoint', edges, 1e4 / e, 8 * EPS, **wit)
            ctx.check('obs:edges-bracket-centres', np.all(edges[:-1] < wn) and np.all(wn < edges[1:]), **wit)
            # consistent with centres and widths: in wavelength, consecutive edges are one (converted) width apart
            ctx.close('obs:edges-midpoint', np.abs(np.diff(1e4 / edges)), bw * lam ** 2 / 1e4, rt + 1e-13,
                      what='edge spacing equals width (in wavelength)', **wit)
    return srt


# -------------------------------------------------------------------- taps
def setup(ctx):
    from taurex.data.spectrum.array import ArraySpectrum
    from taurex.data.spectrum.spectrum import BaseSpectrum
    from taurex.binning import FluxBinner
    _state['ctx'] = ctx
    contracts.tap_init(FluxBinner)

    def before_init(self, a, kw):
        spec = a[0] if a else kw.get('spectrum')
        ctx.event('tap:ArraySpectrum.__init__')
        return None if spec is None else np.array(spec, dtype=float, copy=True)

    def after_init(self, a, kw, res, exc, rows):
        if exc is not None or rows is None:
            return
        src = {'ArraySpectrum': 'array', 'ObservedSpectrum': 'text', 'TaurexSpectrum': 'hdf5'}.get(
            type(self).__name__, type(self).__name__)
        srt = judge_observation(ctx, self, rows, src)
        _state['last_obs'] = (self, rows, srt)
    taps.tap(ArraySpectrum, '__init__', before_init, after_init)

    def after_binner(self, a, kw, res, exc, tok):
        if exc is not None:
            return
        ctx.event('tap:create_binner')
        decl = getattr(res, '_vmon_decl', (None, {}))[1]
        ok = isinstance(res, FluxBinner) and 'wngrid' in decl
        g = np.asarray(decl.get('wngrid'), dtype=float) if ok else None
        w = decl.get('wngrid_width') if ok else None
        ok = ok and w is not None and np.array_equal(g, np.asarray(self.wavenumberGrid, dtype=float)) and \
            np.array_equal(np.asarray(w, dtype=float), np.asarray(self.binWidths, dtype=float))
        ctx.check('binner:declared-with-observation-grid', ok, binner=type(res).__name__,
                  declared_widths=None if w is None else np.asarray(w), obs_widths=np.asarray(self.binWidths))
    taps.tap(BaseSpectrum, 'create_binner', None, after_binner)


def teardown(ctx):
    taps.untap_all()


# -------------------------------------------------------------- generators
def gen_rows(rng, ncol=None, n=None):
    n = int(n or rng.choice([2, 2, 3, 4, 5, 8, 13, 25, 60]))
    ncol = int(ncol or rng.choice([3, 4]))
    kind = ['linear', 'constR', 'irregular', 'two-instruments'][rng.integers(0, 4)]
    l0 = float(rng.uniform(0.3, 5.0))
    if kind == 'linear':
        lam = np.linspace(l0, l0 * rng.uniform(1.05, 6.0), n)
    elif kind == 'constR':
        lam = l0 * (1 + 1 / max(float(10 ** rng.uniform(0.8, 3)), n / 3.0)) ** np.arange(n)
    elif kind == 'irregular':
        lam = l0 + np.cumsum(rng.uniform(0.2, 3.0, n) * l0 * 10 ** rng.uniform(-3, -0.5))
    else:
        k = max(n // 2, 1)
        a = np.linspace(l0, l0 * 1.5, k)
        b = np.linspace(l0 * 3, l0 * 6, n - k) if n - k > 1 else np.array([l0 * 4.0])[:n - k]
        lam = np.concatenate([a, b])
    lam = np.unique(lam)
    if len(lam) < 2:
        lam = np.array([l0, l0 * 1.3])
    n = len(lam)
    # for 3 columns the outermost mid-point edge must stay positive
    if ncol == 3 and lam[0] - 0.5 * (lam[1] - lam[0]) <= 0:
        lam = lam + (lam[1] - lam[0])
    sp = np.gradient(lam) if n > 2 else np.full(n, lam[1] - lam[0])
    value = 1e4 / lam                                   # the observed value encodes its own wavenumber
    err = 10 ** rng.uniform(-5, -2, n) * value          # non-uniform error bars
    cols = [lam, value, err]
    wkind = 'derived'
    if ncol == 4:
        wkind = ['narrow', 'touching', 'overlapping-bins', 'mixed'][rng.integers(0, 4)]
        if wkind == 'narrow':
            w = sp * rng.uniform(0.01, 0.6, n)
        elif wkind == 'touching':
            w = sp * 1.0
        elif wkind == 'overlapping-bins':
            w = sp * rng.uniform(1.2, 3.0, n)
        else:
            w = sp * 10 ** rng.uniform(-2, 0.4, n)
        w = np.minimum(w, 1.8 * lam * 0.99)             # lambda - w/2 > 0
        cols.append(w)
    rows = np.column_stack(cols)
    if ncol == 4 and n >= 3 and rng.random() < 0.15:
        # a broad band centred exactly on a channel (one to three of them): rows that share a wavelength and differ in
        # width, value encoding the same wavenumber, their own error bars
        extra = []
        for j in rng.choice(n, int(rng.integers(1, min(n, 3) + 1)), replace=False):
            wb = min(float(w[j] * rng.uniform(2.5, 8.0)), 1.8 * lam[j] * 0.99)
            extra.append([lam[j], value[j], float(10 ** rng.uniform(-5, -2) * value[j]), wb])
        rows = np.vstack([rows, np.array(extra)])
        wkind = 'tied-centres'
    if rng.random() < 0.08 and n <= 9:
        # a table typed by hand: whole numbers, the whole array of integer dtype (wavelengths dividing 10000 so that the
        # value can still encode its own wavenumber exactly)
        lam_i = np.sort(rng.choice([1, 2, 4, 5, 8, 10, 16, 20, 25], n, replace=False))
        ints = [lam_i, 10000 // lam_i, rng.integers(1, 50, n)]
        if ncol == 4:
            ints.append(np.full(n, 1, dtype=np.int64))
        rows = np.column_stack(ints).astype(np.int64)
        kind, wkind = 'linear', ('derived' if ncol == 3 else 'narrow')
    return rows, kind, wkind


def permutations(rng, n):
    """ascending wavelength, descending wavelength, random permutations (rows were generated ascending)."""
    out = [('ascending-wavelength', np.arange(n)), ('descending-wavelength', np.arange(n)[::-1])]
    for _ in range(2):
        p = rng.permutation(n)
        out.append(('random', p))
    return out


def props_of(obs):
    d = {k: np.array(getattr(obs, k), dtype=float, copy=True)
         for k in ('wavenumberGrid', 'wavelengthGrid', 'spectrum', 'errorBar', 'binWidths', 'binEdges')}
    n = len(d['wavenumberGrid'])
    if len(np.unique(d['wavelengthGrid'])) != n:
        # rows that share a wavelength: compared in canonical order (which of them comes first is not stated)
        pg = canon(d['wavelengthGrid'], d['binWidths'], d['errorBar'], d['spectrum'])
        for k in d:
            d[k] = d[k][pg] if d[k].shape == (n,) else (d[k].reshape(n, 2)[pg].reshape(-1) if d[k].shape == (2 * n,) else d[k])
        d['_perm'] = pg
    return d


def check_binner(ctx, rng, obs, tag):
    """The binner created from the observation bins a model onto exactly the observation's rows."""
    b = obs.create_binner()
    wn = np.asarray(obs.wavenumberGrid, dtype=float)
    bw = np.asarray(obs.binWidths, dtype=float)
    lo, hi = float(np.min(wn - bw / 2)), float(np.max(wn + bw / 2))
    D = max(float(np.min(bw)) / 8.0, (hi - lo) / 3000.0)
    native = np.arange(lo - 3 * D, hi + 3 * D, D)
    if native[0] - D <= 0:
        native = native[native - D > 0]
    model = native.copy()                                 # f(nu) = nu: the model encodes its own wavenumber
    if rng.random() < 0.5:
        p = rng.permutation(len(native))                  # the model rows may come in any order as well
        native, model = native[p], model[p]
    r = b.bindown(native, model)
    ctx.check('binner:returns-observation-grid', np.array_equal(np.asarray(r[0]), wn) and
              np.array_equal(np.asarray(r[3]), bw), tag=tag)
    # bins that lie wholly inside the range covered by the native bins (centre -+ D/2)
    inside = (wn - bw / 2 >= native.min() - D / 2) & (wn + bw / 2 <= native.max() + D / 2)
    ctx.event('alignment-bins-judged', int(inside.sum()))
    ctx.event('alignment-bins-outside-native-range', int((~inside).sum()))
    binned = np.asarray(r[1], dtype=float)
    # aligned element by element with the observed values (value column = 1e4/lambda = own wavenumber)
    ctx.close('binner:model-aligned-with-observation', binned[inside], np.asarray(obs.spectrum)[inside], 1e-12,
              atol=0.5 * D * (1 + 1e-9), tag=tag, D=D)
    # a model that is NOT linear in wavenumber tells the widths apart as well: element i of the result has to be the
    # overlap-weighted mean over the bin of observation row i (its own centre AND its own width)
    nat = np.sort(native)
    quad = (nat / nat[0]) ** 2
    if rng.random() < 0.5:
        p2 = rng.permutation(len(nat))
        r2 = b.bindown(nat[p2], quad[p2])
    else:
        r2 = b.bindown(nat, quad)
    want, _, tot = R.overlap_mean(nat - D / 2, nat + D / 2, quad, wn - bw / 2, wn + bw / 2)
    got2 = np.asarray(r2[1], dtype=float)
    ctx.close('binner:model-aligned-with-observation', got2[inside], want[inside], 1e-10, tag=tag, model='quadratic',
              tied=bool(len(np.unique(wn)) != len(wn)))
    return binned


def run_source(ctx, rng, source, rows, load):
    """load(rows_in_some_order) -> observation object; judged by the taps; compared across orders."""
    n = len(rows)
    base = None
    for oname, p in permutations(rng, n):
        _state['last_obs'] = None
        obs = load(rows[p])
        ctx.observe('order:' + oname)
        got = props_of(obs)
        binned = check_binner(ctx, rng, obs, oname)
        if '_perm' in got:
            binned = binned[got.pop('_perm')]
        if base is None:
            base = (got, binned)
            continue
        same = all(np.array_equal(got[k], base[0][k]) for k in got)
        ctx.check('order-independence', same, order=oname, source=source,
                  differing=[k for k in got if not np.array_equal(got[k], base[0][k])])
        ctx.close('order-independence', binned, base[1], 1e-13, what='binned model', order=oname)


def observe_case(ctx, source, rows, kind, wkind):
    ctx.observe('source:' + source, 'columns:%d' % rows.shape[1], 'n:%d' % len(rows), 'grid:' + kind, 'widths:' + wkind,
                'rows-dtype:' + rows.dtype.kind)
    ctx.feature(source=source, n=len(rows), columns=int(rows.shape[1]), grid=kind, widths=wkind)
    ctx.sig(source, rows.shape, kind, wkind, float(rows.sum()))
    ctx.sample({'source': source, 'n': len(rows), 'columns': int(rows.shape[1]), 'grid': kind, 'widths': wkind,
                'first_rows': rows[:2]})


# ---------------------------------------------------------------- workloads
def wl_array(ctx, rng):
    from taurex.data.spectrum.array import ArraySpectrum
    rows, kind, wkind = gen_rows(rng)
    observe_case(ctx, 'array', rows, kind, wkind)
    run_source(ctx, rng, 'array', rows, lambda r: ArraySpectrum(np.array(r, copy=True)))
    # the caller RE-USES the array it built the observation from (the next data set is read into the same work array):
    # the observation either kept its own copy (nothing changes) or is a view of the caller's rows (then it is what a
    # fresh observation of the new content is) -- anything in between (new values with the old widths or edges, rows no
    # longer in ascending wavenumber) is an observation that contradicts itself
    if rng.random() < 0.6:
        nrow = rows.shape[0]
        si = int(rng.integers(0, 4))
        start = [np.arange(nrow), np.argsort(rows[:, 0])[::-1], np.argsort(rows[:, 0]), rng.permutation(nrow)][si]
        arr = np.array(rows[start], dtype=float, copy=True)
        obs = ArraySpectrum(arr)
        before = props_of(obs)
        nxt = np.array(rows[rng.permutation(nrow)], dtype=float, copy=True)
        nxt[:, 0] = nxt[:, 0] * float(rng.uniform(1.01, 1.2))         # another grid: the wavelengths of the next data set
        nxt[:, 1] = 1e4 / nxt[:, 0]
        if rows.shape[1] == 3 and np.sort(nxt[:, 0])[0] - 0.5 * np.diff(np.sort(nxt[:, 0]))[0] <= 0:
            nxt = None
        if nxt is not None:
            arr[...] = nxt
            after = props_of(obs)
            fresh = props_of(ArraySpectrum(np.array(arr, copy=True)))

            def same(x, y):
                return all(k in y and np.array_equal(x[k], y[k]) for k in x if k != '_perm')
            ctx.check('obs:still-one-observation-after-the-caller-re-used-its-array', same(after, before) or same(after, fresh),
                      kept_its_copy=same(after, before), follows_the_array=same(after, fresh), rows_given_in=
                      ['as-generated', 'descending-wavelength', 'ascending-wavelength', 'random'][si], n=nrow, columns=int(rows.shape[1]))
            ctx.observe('array:caller-re-used-its-array')
    # ANOTHER observation right after it, with the same number of rows and the same first and last wavelength but the
    # other spacing (linear <-> geometric): nothing derived for the first grid may be handed to the second.  Every
    # loaded object is judged by the tap on the loader.
    n = rows.shape[0]
    if n >= 3 and rng.random() < 0.6:
        lam = np.sort(rows[:, 0])
        lin = np.linspace(lam[0], lam[-1], n)
        geo = np.geomspace(lam[0], lam[-1], n)
        lam2 = geo if np.max(np.abs(lam - lin)) <= np.max(np.abs(lam - geo)) else lin
        lam2[0], lam2[-1] = lam[0], lam[-1]
        if rows.shape[1] == 3 and lam2[0] - 0.5 * (lam2[1] - lam2[0]) <= 0:
            return
        r2 = rows[np.argsort(rows[:, 0])].copy()
        r2[:, 0] = lam2
        r2[:, 1] = 1e4 / lam2
        if rows.shape[1] == 4:
            r2[:, 3] = np.minimum(r2[:, 3], 1.8 * lam2 * 0.99)
        order = rng.permutation(n) if rng.random() < 0.5 else np.arange(n)
        ArraySpectrum(np.array(r2[order], copy=True))
        ctx.observe('second-observation:same-count-and-ends-other-spacing', 'second-observation:columns-%d' % rows.shape[1])


def wl_text(ctx, rng):
    from taurex.data.spectrum.observed import ObservedSpectrum
    rows, kind, wkind = gen_rows(rng, n=int(rng.choice([2, 3, 5, 8, 20, 40])))
    observe_case(ctx, 'text', rows, kind, wkind)
    fmt = ['%.17g', '%.18e', '%r'][rng.integers(0, 3)]
    delim = [' ', '\t', '   '][rng.integers(0, 3)]
    header = rng.random() < 0.5
    counter = [0]

    def load(r):
        counter[0] += 1
        path = os.path.join(world.scratch_dir(ctx, 'c17'), 'obs-%d-%d.dat' % (ctx.cases, counter[0]))
        with open(path, 'w') as fh:
            if header:
                fh.write('# wavelength(um) depth error%s\n' % (' width' if r.shape[1] == 4 else ''))
            for row in r:
                fh.write(delim.join((repr(float(v)) if fmt == '%r' else fmt % v) for v in row) + '\n')
        obs = ObservedSpectrum(path)
        last = _state['last_obs']
        # the rows the loader judged are the rows that were written
        ctx.check('text:rows-as-written', last is not None and last[0] is obs and np.array_equal(last[1], r),
                  fmt=fmt, header=bool(header))
        os.remove(path)
        return obs
    run_source(ctx, rng, 'text', rows, load)


def wl_hdf5(ctx, rng):
    """TauREx output file: Output/Spectra/instrument_{wngrid,spectrum,noise,wnwidth} (wavenumber units)."""
    import h5py
    from taurex.data.spectrum.taurex import TaurexSpectrum
    rows, kind, wkind = gen_rows(rng, ncol=4, n=int(rng.choice([2, 3, 5, 8, 20, 40])))
    observe_case(ctx, 'hdf5', rows, kind, wkind)
    # what an instrument writes: wavenumber centres, spectrum, noise and wavenumber widths
    wn = 1e4 / rows[:, 0]
    wnw = 1e4 * rows[:, 3] / rows[:, 0] ** 2
    wnw = np.minimum(wnw, 1.5 * wn)            # so that lambda - dlambda/2 stays positive after conversion
    tab = np.column_stack([wn, wn.copy(), rows[:, 2], wnw])        # spectrum encodes its own wavenumber
    counter = [0]

    def load(t):
        counter[0] += 1
        path = os.path.join(world.scratch_dir(ctx, 'c17'), 'out-%d-%d.h5' % (ctx.cases, counter[0]))
        with h5py.File(path, 'w') as f:
            g = f.create_group('Output').create_group('Spectra')
            g.create_dataset('instrument_wngrid', data=t[:, 0])
            g.create_dataset('instrument_spectrum', data=t[:, 1])
            g.create_dataset('instrument_noise', data=t[:, 2])
            g.create_dataset('instrument_wnwidth', data=t[:, 3])
            if rng.random() < 0.5:
                g.create_dataset('native_wngrid', data=np.linspace(100, 200, 7))   # other datasets are ignored
        obs = TaurexSpectrum(path)
        os.remove(path)
        # ascending wavenumber; rows that share a centre in the canonical order of both sides
        o = np.lexsort((t[:, 1], t[:, 2], t[:, 3], t[:, 0]))
        ts = t[o]
        w = dict(n=len(t))
        pg = np.lexsort((np.asarray(obs.spectrum), np.asarray(obs.errorBar), np.asarray(obs.binWidths),
                         np.asarray(obs.wavenumberGrid)))
        ctx.close('hdf5:columns-as-written', np.asarray(obs.wavenumberGrid)[pg], ts[:, 0], 4 * EPS, what='wavenumber', **w)
        ctx.close('hdf5:columns-as-written', np.asarray(obs.spectrum)[pg], ts[:, 1], 0.0, what='spectrum', **w)
        ctx.close('hdf5:columns-as-written', np.asarray(obs.errorBar)[pg], ts[:, 2], 0.0, what='noise', **w)
        ctx.close('hdf5:columns-as-written', np.asarray(obs.binWidths)[pg], ts[:, 3], 16 * EPS, what='wavenumber width', **w)
        return obs
    run_source(ctx, rng, 'hdf5', tab, load)
    # observed only (outside the statement): a file without instrument output
    if rng.random() < 0.1:
        path = os.path.join(world.scratch_dir(ctx, 'c17'), 'noinstr-%d.h5' % ctx.cases)
        with h5py.File(path, 'w') as f:
            f.create_group('Output').create_group('Spectra').create_dataset('native_wngrid', data=np.arange(3.0))
        try:
            TaurexSpectrum(path)
            ctx.event('hdf5-without-instrument:loaded')
        except Exception as e:
            ctx.event('hdf5-without-instrument:raised-' + type(e).__name__)
        os.remove(path)


WORKLOADS = {'array': wl_array, 'text': wl_text, 'hdf5': wl_hdf5}

LEVEL_TEXT = ('Exploration by runtime monitoring: a tap on ArraySpectrum.__init__ (reached by ObservedSpectrum and '
              'TaurexSpectrum through super()) snapshots the rows given to the loader and decides the finished object '
              'against an independent oracle (ascending wavenumber = 1e4/wavelength, every value/error/width still on '
              'its own wavelength, first-order width conversion or mid-point widths, edges bracketing the centres); a '
              'tap on create_binner checks the FluxBinner was declared with exactly those centres and widths; workloads '
              'load each generated observation from array, text and TauREx-HDF5 sources in sorted, reversed and random '
              'row orders, require identical objects and bin a model that encodes its own wavenumber onto the '
              'observation. Held = held on the recorded executions.')
LEVEL_NOTE = ('Trusted: the oracle in vmon/props/c17.py; h5py/np.loadtxt as file readers; HDF5 observation files are '
              'written by the harness with the dataset names the loader reads, not by a TauREx run.')
TECHNIQUE = 'call taps on the observation loaders and create_binner + independent row/units oracle + permutation metamorphic relation over seeded observations'
