"""C13 -- restricting the spectral grid never changes the values computed on it.

Monitors: paired executions on one world -- model(), model(wngrid=g), model(wngrid=g, cutoff_grid=False),
model_contrib / model_full_contrib on g, model() again -- with C01's taps (per-layer transmittance, which
contributions were integrated per layer) and C02's taps (emission clamp licence); taps on Opacity.opacity /
KTable.opacity results; numba kernels under NUMBA_BOUNDSCHECK=1 (a stale per-grid size shows as IndexError).
"""
import math

import numpy as np

from vmon import own
from vmon import faults
from vmon import refmodel as R
from vmon import world
from vmon.props import c01 as base
from vmon.props import c02 as emis

PROPERTY = 'C13'
RULE = ('synthetic worlds whose molecules have DIFFERENT native grids (3..300 points, linear/log/irregular); requested '
        'grids inside, at the edge of, partly outside and observation-shaped relative to the native range; transmission '
        'and emission; observations satisfying the stated width condition for the binning claim; distinct = distinct '
        '(workload, model, nlayers, grid-class, native sizes, planet) tuples')
ASSUMPTIONS = [
    'binning claim judged only when the generator-recorded width condition holds (no observation bin wider than the '
    'widest mid-point-derived bin; native spacing below half that width over the observed range)',
    'a requested grid that contains no native point of some molecule is outside "requested grids/observations" '
    'only if it contains no native point of the model grid either; otherwise it is judged',
]
_Q = {'restrict': 40, 'emission': 16, 'binning': 160, 'opacity': 60, 'sequence': 24}
_T = {'restrict': 600, 'emission': 250, 'binning': 350, 'opacity': 1500, 'sequence': 400}
BUDGET = {
    'quick': [dict(name='boundscheck', env={'NUMBA_BOUNDSCHECK': '1'}, shards=4, cases=_Q)],
    'thorough': [dict(name='boundscheck', env={'NUMBA_BOUNDSCHECK': '1'}, shards=16, cases=_T)],
}
REQUIRED = dict(monitors=['restricted-equals-full', 'restricted-grid-is-subset', 'cutoff_grid=False-gives-full',
                          'binned-restricted-equals-binned-full', 'opacity-own-points-unchanged',
                          'opacity-foreign-points-between-neighbours', 'emission-restricted-equals-full',
                          'sequence-no-stale-state', 'per-source-restricted-equals-full',
                          'opacity-part-of-a-request-equals-the-whole-request-there'],
                classes=['sequence:fault', 'grid:inside', 'grid:edge', 'grid:partly-outside', 'grid:observation', 'model:emission',
                         'different-native-grids', 'layout:xsec', 'layout:ktable', 'contrib:HydrogenIon',
                         'sliding-window-same-size', 'request:own-full', 'request:own-points-descending', 'request:own-points-interleaved', 'request:foreign-same-ends-and-count',
                         'request:foreign-shifted-same-count', 'request:own-sub-range', 'request:foreign-random',
                         'requested-order:ascending', 'requested-order:descending', 'requested-order:shuffled', 'requested-order:file-order-with-an-outlying-row',
                         'emission:same-size-window', 'emission:star-written-between-evaluations',
                         'request:work-array-refilled-in-place', 'request:foreign-ending-on-an-end-point',
                         'table:empty-far-wing:exp', 'table:empty-far-wing:linear', 'request:own-sub-range-clear-of-the-empty-wing',
                         'request:foreign-a-hair-off-the-native-points', 'sequence:own-grid-then-same-ends-and-count', 'history:dozens-of-ranges-then-earlier-ranges-again', 'request:same-range-on-two-tables-of-one-molecule'])
CUT = math.exp(-10.0)


def classify(f):
    return None


def setup(ctx):
    base.setup(ctx)
    emis.setup(ctx)


def teardown(ctx):
    base.teardown(ctx)


# --------------------------------------------------------------- generators
def make_case(rng, kind='transmission', hion=False, fine=False, log=None):
    for _ in range(50):
        spec = world.random_world_spec(rng, nlayers=int(rng.choice([2, 3, 5, 7, 13])), n_active=int(rng.integers(1, 4)),
                                       nwn=int(rng.integers(60, 300)) if fine else int(rng.integers(8, 120)),
                                       common_grid=False)
        if fine:
            # the binning claim needs a native grid whose mid-point-derived, centre-symmetric bins are ordered and
            # non-overlapping (C05's domain): linear or logarithmic spacing, not arbitrary irregular spacing
            mols = list(spec['tables'])
            t = spec['tables'][mols[0]]
            n = len(t['wn'])
            lo_, hi_ = t['wn'][0], t['wn'][-1]
            linear = rng.random() < 0.5
            if log is not None:
                linear = not log
            t['wn'] = np.linspace(lo_, hi_, n) if linear else np.logspace(np.log10(lo_), np.log10(hi_), n)
        # first molecule keeps the longest (model) grid; give the others overlapping but different grids
        mols = list(spec['tables'])
        main = spec['tables'][mols[0]]
        for m in mols[1:]:
            t = spec['tables'][m]
            if len(t['wn']) >= len(main['wn']):
                k = max(3, len(main['wn']) - int(rng.integers(1, 5)))
                t['wn'] = t['wn'][:k]
                t['xsec'] = t['xsec'][:, :, :k]
        spec['contributions'] = [c for c in base.pick_contribs(rng, spec)
                                 if kind == 'transmission' or (c if isinstance(c, str) else c['name']) != 'SimpleClouds']
        if hion:
            spec['gases'].append({'kind': 'constant', 'mol': 'H', 'mix': float(10 ** rng.uniform(-8, -2))})
            spec['gases'].append({'kind': 'constant', 'mol': 'e-', 'mix': float(10 ** rng.uniform(-10, -3))})
            spec['contributions'].append('HydrogenIon')
        spec['new_method'] = bool(rng.random() < 0.5)
        spec['cia_magnitude'] = spec['magnitude']
        spec['cia_seed'] = int(rng.integers(0, 2 ** 31))
        spec['ngauss'] = int(rng.choice([1, 2, 4]))
        if world.is_bound(spec):
            return spec
    raise RuntimeError('generator could not draw a bound atmosphere')


def native_of(spec):
    best = None
    for m, t in spec['tables'].items():
        if best is None or len(t['wn']) > len(best):
            best = t['wn']
    return np.asarray(best)


def draw_grid(rng, native):
    """A requested grid (containing at least one point of the model's native grid) and its class."""
    for _ in range(100):
        g, cls = _draw_grid(rng, native)
        if np.any((native >= g.min()) & (native <= g.max())):
            return g, cls
    return np.array([native[0], native[-1]]), 'edge'


def _draw_grid(rng, native):
    lo, hi = native[0], native[-1]
    cls = ['inside', 'edge', 'partly-outside', 'observation'][rng.integers(0, 4)]
    n = int(rng.integers(2, 12))
    if cls == 'inside':
        a, b = sorted(rng.uniform(lo + 0.05 * (hi - lo), hi - 0.05 * (hi - lo), 2))
        g = np.linspace(a, b, n)
    elif cls == 'edge':
        if rng.random() < 0.5:
            g = np.linspace(lo, rng.uniform(lo, hi), n)
        else:
            g = np.linspace(rng.uniform(lo, hi), hi, n)
    elif cls == 'partly-outside':
        if rng.random() < 0.5:
            g = np.linspace(lo - rng.uniform(0.05, 0.5) * (hi - lo), rng.uniform(lo, hi), n)
        else:
            g = np.linspace(rng.uniform(lo, hi), hi + rng.uniform(0.05, 0.5) * (hi - lo), n)
        g = g[g > 0]
    else:
        # observation-shaped: constant resolving power
        a = rng.uniform(lo, lo + 0.5 * (hi - lo))
        Rr = rng.uniform(5, 100)
        g = [a]
        while g[-1] * (1 + 1.0 / Rr) < hi and len(g) < 60:
            g.append(g[-1] * (1 + 1.0 / Rr))
        g = np.array(g)
    g = np.unique(g)
    if len(g) < 2:
        g = np.array([lo + 0.3 * (hi - lo), lo + 0.6 * (hi - lo)])
    return g, cls


def skipped(snap):
    names = [c[0] for c in snap['contribs']]
    per = {}
    for layer, name, tmin in snap['calls']:
        per.setdefault(layer, []).append(name)
    return {l for l in range(snap['n']) if len(per.get(l, [])) < len(names)}


def run_tm(ctx, model, **kw):
    """model.model(**kw) on a built transmission model, with C01's snapshot."""
    base._state['snap'] = None
    out = model.model(**kw)
    snap = base._state['snap']
    base._state['snap'] = None
    snap['wn'] = np.array(out[0])
    snap['depth'] = np.array(out[1], dtype=float)
    snap['ret_trans'] = np.array(out[2], dtype=float)
    return snap


def compare_tm(ctx, monitor, full, sub, label):
    """Values of the restricted run equal those of the full run at the common wavenumbers."""
    idx = np.searchsorted(full['wn'], sub['wn'])
    ok = ctx.check('restricted-grid-is-subset', np.all(idx < len(full['wn'])) and np.array_equal(full['wn'][np.minimum(idx, len(full['wn']) - 1)], sub['wn']),
                   label=label, n_sub=len(sub['wn']))
    if not ok or len(sub['wn']) == 0:
        return
    sk = skipped(full) | skipped(sub)
    if sk:
        ctx.observe('early-exit-observed')
    allow = 2.0 * sum((full['Rp'] + full['z'][l]) * full['dz'][l] for l in sk) * CUT / full['Rs'] ** 2
    ctx.close(monitor, sub['depth'], full['depth'][idx], 1e-10, atol=allow, label=label, skipped=len(sk))
    for l in range(full['n']):
        if l in sk:
            ctx.check(monitor + ':saturated-where-skipped', np.all(np.abs(sub['ret_trans'][l] - full['ret_trans'][l][idx]) <= CUT * (1 + 1e-9)),
                      layer=l, label=label)
        else:
            ctx.close(monitor, sub['ret_trans'][l], full['ret_trans'][l][idx], 1e-10, atol=1e-300, layer=l, label=label)


def build_tm(ctx, spec):
    from taurex.exceptions import InvalidModelException
    model = base.realise(spec)
    try:
        model.build()
    except InvalidModelException as e:
        if model.temperature.__class__.__name__ != 'Guillot2010':
            raise
        ctx.license(type(e).__name__)
        return None
    return model


def observe_case(ctx, spec, kind, gcls=None):
    ctx.observe('model:' + kind, 'nlayers:%d' % spec['nlayers'])
    if len({len(t['wn']) for t in spec['tables'].values()}) > 1:
        ctx.observe('different-native-grids')
    for c in spec['contributions']:
        ctx.observe('contrib:' + (c if isinstance(c, str) else c['name']))
    if gcls:
        ctx.observe('grid:' + gcls)
    ctx.feature(summary=world.spec_summary(spec), kind=kind, grid_class=gcls)


# ---------------------------------------------------------------- workloads
def wl_restrict(ctx, rng):
    spec = make_case(rng)
    native = native_of(spec)
    g, gcls = draw_grid(rng, native)
    observe_case(ctx, spec, 'transmission', gcls)
    model = build_tm(ctx, spec)
    if model is None:
        return
    try:
        full = run_tm(ctx, model)
    except Exception:
        raise
    ctx.close('native-grid-is-longest-molecule-grid', full['wn'], native, 0.0)
    sub = run_tm(ctx, model, wngrid=g)
    compare_tm(ctx, 'restricted-equals-full', full, sub, 'wngrid')
    # the clip keeps every native point inside the requested range
    inside = native[(native >= g.min()) & (native <= g.max())]
    ctx.check('restricted-grid-covers-request', np.all(np.isin(inside, sub['wn'])), n_inside=len(inside), n_sub=len(sub['wn']))
    nocut = run_tm(ctx, model, wngrid=g, cutoff_grid=False)
    ctx.check('cutoff_grid=False-gives-full', np.array_equal(nocut['wn'], full['wn']), n=len(nocut['wn']))
    compare_tm(ctx, 'cutoff_grid=False-gives-full', full, nocut, 'cutoff_grid=False')
    ctx.sig('restrict', spec['nlayers'], gcls, tuple(len(t['wn']) for t in spec['tables'].values()),
            round(spec['planet_mass'], 6), len(sub['wn']))
    ctx.sample({'world': world.spec_summary(spec), 'grid_class': gcls, 'requested': [float(g.min()), float(g.max()), len(g)],
                'native': [float(native[0]), float(native[-1]), len(native)], 'computed_points': len(sub['wn'])})


def wl_emission(ctx, rng):
    from taurex.exceptions import InvalidModelException
    spec = make_case(rng, kind='emission')
    native = native_of(spec)
    g, gcls = draw_grid(rng, native)
    observe_case(ctx, spec, 'emission', gcls)
    model = emis.realise(spec, 'emission')

    def run(**kw):
        emis._state['snap'] = None
        out = model.model(**kw)
        snap = emis._state['snap']
        emis._state['snap'] = None
        res = emis.oracle(ctx, snap, spec)
        return np.array(out[0]), np.array(out[1], dtype=float), snap, res
    try:
        model.build()
        wf, sf, snf, rf = run()
    except InvalidModelException as e:
        if model.temperature.__class__.__name__ != 'Guillot2010':
            raise
        ctx.license(type(e).__name__)
        return
    ws, ss, sns, rs = run(wngrid=g)
    idx = np.searchsorted(wf, ws)
    ok = ctx.check('restricted-grid-is-subset', np.all(idx < len(wf)) and np.array_equal(wf[np.minimum(idx, len(wf) - 1)], ws))
    if ok and len(ws):
        Bstar = R.planck_taurex_units(ws, snf['Tstar'])
        scale = (snf['Rp'] / snf['Rs']) ** 2 / Bstar * math.pi
        ctx.close('emission-restricted-equals-full', ss, sf[idx], 1e-10, atol=(rf['atolI'][idx] + rs['atolI']) * scale, grid=gcls)
    # further windows on the SAME model: windows of equal length at other places of the native grid (anything keyed
    # on the number of points alone -- the stellar spectrum, a per-grid buffer -- would go stale), then the full grid
    if len(wf) >= 12:
        if rng.random() < 0.5:
            # the star is given another temperature through its public setter BETWEEN two evaluations of the same
            # grid (the setter route, as opposed to the constructor): the second evaluation is the new reference
            run()
            model.star.temperature = float(snf['Tstar'] * rng.uniform(0.7, 1.3))
            wf, sf, snf, rf = run()
            ctx.observe('emission:star-written-between-evaluations')
        wlen = int(rng.integers(3, max(4, len(wf) // 3)))
        starts = rng.permutation(np.arange(1, len(wf) - wlen - 1))[:int(rng.integers(2, 5))]
        for i0 in starts:
            gk = wf[int(i0):int(i0) + wlen].copy()
            wk, sk_, snk, rk = run(wngrid=gk)
            ik = np.searchsorted(wf, wk)
            if not (np.all(ik < len(wf)) and np.array_equal(wf[np.minimum(ik, len(wf) - 1)], wk)) or not len(wk):
                ctx.check('restricted-grid-is-subset', False, window=[float(gk[0]), float(gk[-1])])
                continue
            Bk = R.planck_taurex_units(wk, snf['Tstar'])
            sck = (snf['Rp'] / snf['Rs']) ** 2 / Bk * math.pi
            ctx.close('emission-restricted-equals-full', sk_, sf[ik], 1e-10, atol=(rf['atolI'][ik] + rk['atolI']) * sck,
                      grid='window-of-%d' % wlen, start=int(i0))
            ctx.observe('emission:same-size-window')
        wa, sa, sna, ra = run()
        ctx.close('emission-full-again-equals-full', sa, sf, 1e-12, atol=2 * rf['atolI'] * (snf['Rp'] / snf['Rs']) ** 2
                  / R.planck_taurex_units(wf, snf['Tstar']) * math.pi)
    ctx.sig('emission', spec['nlayers'], gcls, tuple(len(t['wn']) for t in spec['tables'].values()), round(spec['planet_mass'], 6))


def wl_binning(ctx, rng):
    """Binning the restricted result equals binning the full result under the stated width condition."""
    from taurex.data.spectrum.array import ArraySpectrum
    outlying = rng.random() < 0.15
    # (the outlying-row layout below on a logarithmic native grid: there the outermost point of a clipped grid has a
    # different bin than it has in the full grid)
    spec = make_case(rng, fine=True, log=True if outlying else None)
    native = native_of(spec)
    lo, hi = native[0], native[-1]
    spacing = float(np.max(np.diff(native)))
    # observation: centres with gaps >= 2.5 native spacings somewhere, widths <= widest mid-point bin
    file_order = None
    for _ in range(200):
        k = int(rng.integers(3, 15))
        a, b = sorted(rng.uniform(lo + 0.1 * (hi - lo), hi - 0.1 * (hi - lo), 2))
        c = np.sort(rng.uniform(a, b, k))
        if outlying:
            # a deliberate layout: one row lies a wide gap away from a cluster of the others, and the file lists it
            # between rows of the cluster - the widest bin of the ordered grid (the outlying row's, as wide as the
            # gap) is then nowhere to be seen between consecutive rows of the file
            k = int(rng.integers(5, 10))
            gap = rng.uniform(0.05, 0.25) * (hi - lo)
            side = 1 if rng.random() < 0.5 else -1
            out = rng.uniform(lo + 0.3 * (hi - lo), hi - 0.3 * (hi - lo))
            sig = float(np.max(np.diff(native[(native > out - gap) & (native < out + gap)]), initial=spacing))
            if 0.3 * gap <= sig:
                continue
            d2 = rng.uniform(0.02, 0.4) * sig
            # the far edge of the outlying row's (gap-wide) bin falls inside the bin of a native point whose centre
            # lies outside it: the row is moved so that its edge is a fraction of a native spacing from such a point
            i0 = int(np.argmin(np.abs(native - (out - side * gap / 2))))
            out = native[i0] + side * (gap / 2 + rng.uniform(0.55 * d2, 0.45 * sig))
            near = out + side * gap                                   # the cluster's row nearest the outlying one
            n2 = near + side * d2
            rest = near + side * rng.uniform(0.5 * sig, 0.3 * gap, k - 3)
            j = int(rng.integers(2, k - 2))
            order = list(rng.permutation(rest))
            order.insert(j - 2, near)
            order.insert(j, out)
            order.insert(j + 2, n2)
            file_order = np.array(order)
            c = np.sort(file_order)
        if np.min(np.diff(c)) <= 0:
            continue
        edges = np.concatenate([[c[0] - (c[1] - c[0]) / 2], (c[:-1] + c[1:]) / 2, [c[-1] + (c[-1] - c[-2]) / 2]])
        W = np.diff(edges)
        Wmax = float(W.max())
        if spacing < 0.5 * Wmax and c[0] - Wmax > lo and c[-1] + Wmax < hi:
            break
    else:
        ctx.event('domain-skip:no-observation-with-width-condition')
        return
    kindw = rng.integers(0, 3)
    if kindw == 0:
        w = W.copy()                                  # the mid-point widths themselves
    elif kindw == 1:
        w = rng.uniform(0.2, 1.0, k) * Wmax           # any width up to the widest
    else:
        w = np.full(k, Wmax)
    ctx.observe('grid:observation', 'obs-width:%d' % kindw)
    observe_case(ctx, spec, 'transmission')
    wl = 1e4 / c
    wlw = 1e4 * w / c ** 2
    obs = ArraySpectrum(np.stack([wl, np.full(k, 1e-3), np.full(k, 1e-5), wlw]).T)
    binner = obs.create_binner()
    model = build_tm(ctx, spec)
    if model is None:
        return
    full = run_tm(ctx, model)
    # the requested grid as the observation gives it (ascending wavenumber), as 10000/ascending-wavelength
    # (descending wavenumber), or in file order (shuffled): which points are asked for is all that may matter
    req = np.array(obs.wavenumberGrid, dtype=float)
    how = ['ascending', 'descending', 'shuffled'][rng.choice(3, p=[0.5, 0.35, 0.15])]
    if file_order is not None:
        how = 'file-order-with-an-outlying-row'
        req = np.sort(req)[np.argsort(np.argsort(file_order))]
    elif how == 'descending':
        req = req[::-1].copy()
    elif how == 'shuffled':
        req = req[rng.permutation(len(req))]
    ctx.observe('requested-order:' + how)
    sub = run_tm(ctx, model, wngrid=req)
    compare_tm(ctx, 'restricted-equals-full', full, sub, 'observation grid (%s)' % how)
    bf = binner.bin_model((full['wn'], full['depth'], full['ret_trans'], None))
    bs = binner.bin_model((sub['wn'], sub['depth'], sub['ret_trans'], None))
    sk = skipped(full) | skipped(sub)
    allow = 2.0 * sum((full['Rp'] + full['z'][l]) * full['dz'][l] for l in sk) * CUT / full['Rs'] ** 2
    ctx.close('binned-restricted-equals-binned-full', bs[1], bf[1], 1e-10, atol=allow, k=k, Wmax=Wmax, spacing=spacing,
              width_kind=int(kindw))
    ctx.close('binned-grid-is-observation-grid', bs[0], obs.wavenumberGrid, 1e-12)
    ctx.sig('binning', spec['nlayers'], k, int(kindw), len(native), round(spec['planet_mass'], 6))


def make_opacity(rng, layout, wing=False, nwn_min=3):
    make_opacity.clear = None
    from taurex.opacity import InterpolatingOpacity
    Fake = world.fake_opacity_class()
    wn = world.wn_grid(rng, int(rng.integers(max(3, nwn_min), 60)))
    T, P, x = world.make_table(rng, ['thin', 'mixed', 'saturating'][rng.integers(0, 3)], int(rng.integers(2, 5)),
                               int(rng.integers(2, 5)), wn)
    mode = ['linear', 'exp'][rng.integers(0, 2)]
    if wing and len(wn) >= 6:
        # an empty far wing: the table is exactly zero over a block of wavenumbers at one end.  In 'exp' mode the package
        # returns NaN there (log of zero) - and only there: what it returns elsewhere may not depend on whether the
        # request includes the wing
        j = int(rng.integers(1, len(wn) // 2))
        if rng.random() < 0.5:
            x[..., :j] = 0.0
            clear = (j, len(wn))
        else:
            x[..., len(wn) - j:] = 0.0
            clear = (0, len(wn) - j)
        make_opacity.clear = clear
        make_opacity.mode = mode
    if layout == 'xsec':
        return Fake('H2O', wn, T, P, x, interpolation_mode=mode), wn, T, P
    from taurex.opacity.ktables.ktable import KTable
    ng = int(rng.integers(1, 6))
    xk = x[..., None] * 10 ** rng.uniform(-1, 1, (1, 1, 1, ng))
    w = rng.random(ng)
    w /= w.sum()

    class FakeK(KTable, Fake):
        @property
        def weights(self):
            return w
    return FakeK('H2O', wn, T, P, xk, interpolation_mode=mode), wn, T, P


def judge_request(ctx, op, t, p, grid, fullv, wn, layout, kind):
    """One request on the (same) opacity object: own native points are returned unchanged, other points lie between
    the two neighbouring native values (the edge value outside the native range)."""
    with np.errstate(all='ignore'):
        v = np.array(op.opacity(t, p, grid))
    fv = fullv.reshape(len(wn), -1)
    ok_shape = ctx.check('opacity-request-shape', v.shape[0] == len(grid), got=list(v.shape), n=len(grid), kind=kind, layout=layout)
    if not ok_shape:
        return
    vv = v.reshape(len(grid), -1)
    idx = np.searchsorted(wn, grid)
    own = bool(np.all(idx < len(wn)) and np.array_equal(wn[np.minimum(idx, len(wn) - 1)], grid)
               and (len(grid) < 2 or np.all(np.diff(idx) == 1)))
    if own:
        ctx.check('opacity-own-points-unchanged', np.array_equal(vv, fv[idx], equal_nan=True), layout=layout, n=len(grid),
                  kind=kind, nan_in_full=int(np.sum(~np.isfinite(fv))), nan_in_request=int(np.sum(~np.isfinite(vv))))
        return
    if len(grid) >= 3:
        # restriction invariance for requests that are NOT native points either: the same request without its first /
        # last point(s) returns, at the points kept, what the whole request returned
        a_ = int(len(grid) % 2 == 0)                   # (which end points are dropped follows from the request alone)
        b_ = len(grid) - int(len(grid) % 3 == 0)
        if a_ == 0 and b_ == len(grid):
            b_ -= 1
        part = np.array(grid[a_:b_])
        if np.any((wn >= part.min()) & (wn <= part.max())):
            with np.errstate(all='ignore'):
                pv = np.array(op.opacity(t, p, part)).reshape(len(part), -1)
            ctx.close('opacity-part-of-a-request-equals-the-whole-request-there', pv, vv[a_:b_], 1e-13, atol=0.0,
                      layout=layout, kind=kind, n_whole=len(grid), n_part=len(part), n_native=len(wn),
                      whole=[float(grid[0]), float(grid[-1])], native=[float(wn[0]), float(wn[-1])])
    ok = True
    for j, f in enumerate(grid):
        hi_i = int(np.searchsorted(wn, f, side='left'))
        lo_i = hi_i - 1
        cand = [fv[k] for k in (lo_i, hi_i) if 0 <= k < len(wn)]
        if hi_i < len(wn) and wn[hi_i] == f:
            cand = [fv[hi_i]]
        if not np.all(np.isfinite(cand)):
            continue                       # next to the empty wing of an 'exp' table: no finite neighbours to lie between
        lo_v = np.min(cand, axis=0)
        hi_v = np.max(cand, axis=0)
        tol = 1e-12 * np.abs(hi_v)
        ok = ok and bool(np.all(vv[j] >= lo_v - tol) and np.all(vv[j] <= hi_v + tol))
    ctx.check('opacity-foreign-points-between-neighbours', ok, layout=layout, n_foreign=len(grid), n_native=len(wn),
              request=[float(np.min(grid)), float(np.max(grid))], native=[float(wn[0]), float(wn[-1])], kind=kind,
              request_dtype=str(np.asarray(grid).dtype), native_dtype=str(np.asarray(wn).dtype),
              got_first=np.asarray(vv[0]).ravel()[:3], native_first=np.asarray(fv[0]).ravel()[:3],
              native_second=np.asarray(fv[min(1, len(wn) - 1)]).ravel()[:3], grid=np.asarray(grid, dtype=float)[:6])


def wl_opacity(ctx, rng):
    """A SEQUENCE of requests on one opacity object (the object lives in the cache and serves every model and every
    layer): own sub-range, the whole native grid, random other points, other points with the SAME end points and
    count as the native grid, a shifted copy of the native grid, and the native grid again."""
    layout = ['xsec', 'ktable'][rng.integers(0, 2)]
    ctx.observe('layout:' + layout)
    long = ctx.case['index'] % 15 == 3
    op, wn, T, P = make_opacity(rng, layout, wing=bool(rng.random() < 0.25), nwn_min=20 if long else 3)
    clear = make_opacity.clear
    t = float(rng.uniform(T[0] * 0.7, T[-1] * 1.2))
    p = float(10 ** rng.uniform(np.log10(P[0]) - 1, np.log10(P[-1]) + 1))
    with np.errstate(all='ignore'):
        fullv = np.array(op.opacity(t, p))
    kinds = ['own-sub-range', 'foreign-random']
    if clear is not None:
        ctx.observe('table:empty-far-wing:' + make_opacity.mode)
        kinds.append('own-sub-range-clear-of-the-empty-wing')
    extra = ['own-full', 'foreign-same-ends-and-count', 'foreign-shifted-same-count', 'own-sub-range', 'foreign-random', 'own-full',
             'foreign-ending-on-an-end-point', 'foreign-ending-on-an-end-point', 'foreign-a-hair-off-the-native-points',
             'foreign-a-hair-off-the-native-points']
    kinds += [extra[k] for k in rng.integers(0, len(extra), int(rng.integers(1, 5)))]
    kinds = [kinds[k] for k in rng.permutation(len(kinds))]
    if long:
        # a long history on one opacity object (it lives in the cache and serves every model of the process): dozens to
        # hundreds of different spectral ranges, then ranges it has served long before
        nr = int(rng.integers(50, 110)) if ctx.tier == 'quick' else int(rng.integers(150, 600))
        kinds = ['own-sub-range' if rng.random() < 0.7 else 'foreign-random' for _ in range(nr)]
        kinds += ['repeat:%d' % int(rng.integers(0, max(nr - 40, 1))) for _ in range(int(rng.integers(10, 25)))]
        ctx.observe('history:dozens-of-ranges-then-earlier-ranges-again')
    if ctx.case['index'] % 3 == 1 and len(wn) >= 3 and layout != 'ktable':
        # the table's own points in ANOTHER ORDER (descending, or interleaved: a caller working in wavelength): every value
        # returned belongs to the wavenumber at the same position of the request (cross-section tables only: a k-table
        # answers such a request through interp1d, whose value AT a node depends on the neighbouring node -- not judged)
        kinds = kinds + ['own-points-descending', 'own-points-interleaved']
    if ctx.case['index'] % 5 == 0:
        # a deliberate order: the table's own grid first, then another grid with the same ends and the same count
        kinds = ['own-full', 'foreign-same-ends-and-count'] + kinds
        ctx.observe('sequence:own-grid-then-same-ends-and-count')
    done = []
    led = own.Ledger(ctx, 'opacity-requests')
    work = {}                   # the caller's work arrays, one per length: refilled in place for the next request
    asked = []
    for kind in kinds:
        if kind.startswith('repeat:'):
            grid = asked[int(kind[7:]) % len(asked)].copy()
            kind = 'range-served-long-before'
        elif kind == 'own-sub-range-clear-of-the-empty-wing':
            grid = wn[clear[0]:clear[1]].copy()
            if len(grid) > 2 and rng.random() < 0.5:
                grid = grid[1:-1] if clear[0] == 0 else grid[:-1]
        elif kind == 'own-sub-range':
            i0 = int(rng.integers(0, len(wn) - 1))
            i1 = int(rng.integers(i0 + 1, len(wn) + 1))
            grid = wn[i0:i1].copy()
        elif kind == 'own-full':
            grid = wn.copy()
        elif kind in ('own-points-descending', 'own-points-interleaved'):
            if rng.random() < 0.5:
                i0, i1 = 0, len(wn)
            else:
                i0 = int(rng.integers(0, len(wn) - 2))
                i1 = int(rng.integers(i0 + 3, len(wn) + 1))
            grid = wn[i0:i1].copy()
            grid = grid[::-1].copy() if kind == 'own-points-descending' else np.concatenate([grid[0::2], grid[1::2]])
        elif kind == 'foreign-same-ends-and-count':
            if len(wn) < 3:
                continue
            u = np.sort(rng.uniform(0, 1, len(wn) - 2)) ** float(rng.choice([0.5, 2.0, 1.0]))
            grid = np.concatenate([[wn[0]], wn[0] + (wn[-1] - wn[0]) * np.clip(u, 1e-6, 1 - 1e-6), [wn[-1]]])
            grid = np.unique(grid)
            if len(grid) != len(wn):
                continue
        elif kind == 'foreign-ending-on-an-end-point':
            # a request outside the table that TOUCHES it: its last point is the first native point, or its first point the
            # last native one (two tables / instruments that meet at a wavenumber)
            span = float(wn[-1] - wn[0])
            kf = int(rng.integers(2, 8))
            if rng.random() < 0.5:
                grid = np.linspace(float(wn[0]) - float(rng.uniform(0.05, 0.5)) * span, float(wn[0]), kf)
                grid[-1] = wn[0]
            else:
                grid = np.linspace(float(wn[-1]), float(wn[-1]) + float(rng.uniform(0.05, 0.5)) * span, kf)
                grid[0] = wn[-1]
        elif kind == 'foreign-shifted-same-count':
            grid = wn + float(rng.uniform(-0.4, 0.4)) * float(np.min(np.diff(wn)))
        elif kind == 'foreign-a-hair-off-the-native-points':
            # another molecule's table at the same resolution, its points a few parts per million (or per billion) off
            grid = wn * (1.0 + float(rng.choice([-1.0, 1.0])) * float(10 ** rng.uniform(-9, -5.3)))
        else:
            kf = int(rng.integers(2, 15))
            a, b = sorted(rng.uniform(wn[0] - 0.1 * (wn[-1] - wn[0]), wn[-1] + 0.1 * (wn[-1] - wn[0]), 2))
            grid = np.unique(np.linspace(a, b, kf))
        if not np.any((wn >= grid.min()) & (wn <= grid.max())):
            ctx.event('domain-skip:request-contains-no-native-point')
            continue
        if len(grid) in work and work[len(grid)].dtype == np.asarray(grid).dtype and rng.random() < 0.7:
            grid = led.refill(work[len(grid)], grid)
            ctx.observe('request:work-array-refilled-in-place')
        else:
            work[len(grid)] = grid
        asked.append(np.array(grid, dtype=float))
        led.lend(grid, 'requested grid')
        judge_request(ctx, op, t, p, grid, fullv, wn, layout, kind)
        led.settle('request ' + kind)
        ctx.observe('request:' + kind)
        done.append(kind)
    with np.errstate(all='ignore'):
        again = np.array(op.opacity(t, p))
    ctx.check('opacity-native-unchanged-after-requests', np.array_equal(again, fullv, equal_nan=True), layout=layout, sequence=done)
    if ctx.case['index'] % 6 == 2 and clear is None:
        # a SECOND table for the same molecule name in the same process (another line list, a higher-resolution table loaded
        # after the first): both are asked for the very same ranges; each answers from its own native points
        op2, wn2, T2, P2 = make_opacity(rng, layout)
        t2 = float(rng.uniform(T2[0] * 0.7, T2[-1] * 1.2))
        p2 = float(10 ** rng.uniform(np.log10(P2[0]) - 1, np.log10(P2[-1]) + 1))
        with np.errstate(all='ignore'):
            fullv2 = np.array(op2.opacity(t2, p2))
        a_, b_ = max(wn[0], wn2[0]), min(wn[-1], wn2[-1])
        for _ in range(3):
            if b_ <= a_:
                break
            lo_, hi_ = sorted(rng.uniform(a_, b_, 2))
            grid = np.unique(np.linspace(lo_, hi_, int(rng.integers(2, 12))))
            if len(grid) < 2 or not np.any((wn >= grid.min()) & (wn <= grid.max())) or not np.any((wn2 >= grid.min()) & (wn2 <= grid.max())):
                continue
            judge_request(ctx, op, t, p, grid, fullv, wn, layout, 'same-range-on-two-tables-of-one-molecule')
            judge_request(ctx, op2, t2, p2, grid.copy(), fullv2, wn2, layout, 'same-range-on-two-tables-of-one-molecule')
            ctx.observe('request:same-range-on-two-tables-of-one-molecule')
    ctx.sig('opacity', layout, len(wn), tuple(done), round(t, 3))


def wl_sequence(ctx, rng):
    """No per-grid state survives: after a full-grid run, any order of restricted / per-contribution /
    per-component runs on the sub-grid and on the full grid, then the full grid again."""
    spec = make_case(rng, hion=bool(rng.random() < 0.7))
    sliding = rng.random() < 0.5
    if sliding:
        # a uniformly spaced model grid, so that a window shifted by whole steps has the SAME number of points
        # but different wavenumbers (state keyed on the grid size alone would go stale)
        t = spec['tables'][list(spec['tables'])[0]]
        n_ = max(len(t['wn']), 24)
        t['wn'] = np.linspace(t['wn'][0], t['wn'][-1], n_)
        if t['xsec'].shape[2] != n_:
            reps = int(np.ceil(n_ / t['xsec'].shape[2]))
            t['xsec'] = np.tile(t['xsec'], (1, 1, reps))[:, :, :n_] * np.linspace(1.0, 2.0, n_)
    native = native_of(spec)
    g, gcls = draw_grid(rng, native)
    g2 = None
    if sliding:
        step = native[1] - native[0]
        w = int(rng.integers(3, max(4, len(native) // 3)))
        i0 = int(rng.integers(2, len(native) - w - 4))
        shift = int(rng.integers(1, len(native) - w - i0 - 1)) if len(native) - w - i0 - 1 > 1 else 1
        g = native[i0:i0 + w].copy()
        g2 = g + shift * step
        gcls = 'inside'
        ctx.observe('sliding-window-same-size')
    observe_case(ctx, spec, 'transmission', gcls)
    model = build_tm(ctx, spec)
    if model is None:
        return
    first = run_tm(ctx, model)
    ops = ['model-sub', 'contrib-sub', 'full-contrib-sub', 'full-contrib-full', 'contrib-full']
    order = [ops[i] for i in rng.permutation(len(ops))][:int(rng.integers(2, 6))]
    if g2 is not None:
        order = order + ['model-sub2']
        k_ = int(rng.integers(0, len(order)))
        order.insert(k_, 'model-sub')         # make sure a window of the same size was computed before the shifted one
    if rng.random() < 0.5:
        order.insert(int(rng.integers(0, len(order) + 1)), 'fault')
    comp = {}
    for op in order:
        if op == 'fault':
            # an evaluation on a restricted grid is rejected half way (injected InvalidModelException); nothing of the
            # aborted evaluation may survive into the following ones
            how = [lambda: model.model(wngrid=g), lambda: model.model_contrib(wngrid=g),
                   lambda: model.model_full_contrib(wngrid=g), model.model][int(rng.integers(0, 4))]
            before_list = list(model.contribution_list)
            site = faults.drive_into(ctx, rng, how, kmax=3)
            if site == 'rejected':
                return
            if site:
                ctx.observe('sequence:fault')
                if list(model.contribution_list) != before_list:
                    # an aborted per-contribution run leaves the model with a shortened contribution list -- observed,
                    # and put back so that the sequence can go on (C03 speaks of completed runs only)
                    ctx.event('observed:contribution-list-not-restored-after-aborted-model_contrib')
                    model.contribution_list = before_list
            continue
        if op == 'model-sub':
            sub = run_tm(ctx, model, wngrid=g)
            compare_tm(ctx, 'restricted-equals-full', first, sub, 'sequence')
        elif op == 'model-sub2':
            sub2 = run_tm(ctx, model, wngrid=g2)
            compare_tm(ctx, 'restricted-equals-full', first, sub2, 'sequence: shifted window of the same size')
            wn_c2, cd2 = model.model_contrib(wngrid=g2)
            wn_cf, cdf = model.model_contrib()
            idx2 = np.searchsorted(wn_cf, wn_c2)
            for k2 in cd2:
                ctx.close('per-source-restricted-equals-full', np.array(cd2[k2][0], dtype=float),
                          np.array(cdf[k2][0], dtype=float)[idx2], 1e-10, source=k2, order=order, shifted=True)
        elif op.startswith('contrib'):
            wn_c, cd = model.model_contrib(wngrid=g if op.endswith('sub') else None)
            ctx.check('sequence-shapes', all(np.array(v[0]).shape == wn_c.shape for v in cd.values()))
            comp[op] = (np.array(wn_c), {k: np.array(v[0], dtype=float) for k, v in cd.items()})
        else:
            wn_f, fd = model.model_full_contrib(wngrid=g if op.endswith('sub') else None)
            ctx.check('sequence-shapes', all(np.array(t[1]).shape == wn_f.shape and np.array(t[2]).shape[1] == len(wn_f)
                                             for v in fd.values() for t in v))
            comp[op] = (np.array(wn_f), {k + '/' + t[0]: np.array(t[1], dtype=float) for k, v in fd.items() for t in v})
    # per-contribution / per-component spectra on the sub-grid equal those on the full grid at the common points
    # (a single source never triggers the early exit before it is integrated, so no cut-off allowance is needed)
    for a_, b_ in (('contrib-sub', 'contrib-full'), ('full-contrib-sub', 'full-contrib-full')):
        if a_ in comp and b_ in comp:
            ws, ds = comp[a_]
            wf, df = comp[b_]
            idx = np.searchsorted(wf, ws)
            for k in ds:
                if k in df:
                    ctx.close('per-source-restricted-equals-full', ds[k], df[k][idx], 1e-10, source=k, order=order)
    again = run_tm(ctx, model)
    ctx.close('sequence-no-stale-state', again['depth'], first['depth'], 1e-13, order=order)
    ctx.close('sequence-no-stale-state', again['ret_trans'], first['ret_trans'], 1e-13, atol=1e-300, order=order)
    ctx.sig('sequence', spec['nlayers'], gcls, tuple(order), round(spec['planet_mass'], 6))


WORKLOADS = {'restrict': wl_restrict, 'emission': wl_emission, 'binning': wl_binning, 'opacity': wl_opacity,
             'sequence': wl_sequence}

LEVEL_TEXT = ('Exploration by runtime monitoring: on each synthetic world (molecules with different native grids) the real '
              'model is executed on the full grid, on a requested sub-grid (inside / edge / partly outside / observation '
              'shaped), with cutoff_grid=False, per contribution and per component on the sub-grid, and again on the full '
              'grid; taps record per-layer transmittances and which contributions were integrated per layer, and the '
              'executions are compared point by point (1e-10; the exp(-10) cut-off only in layers where a skip was '
              'observed; the Abel-bounded clamp licence for emission). Binning of restricted vs full results is compared '
              'under the generator-enforced width condition; opacity objects are queried on own and foreign points. '
              'NUMBA_BOUNDSCHECK=1 turns any stale per-grid size into an IndexError.'
              ' Results the caller keeps and work arrays it re-uses are followed by an ownership ledger (vmon/own.py).')
LEVEL_NOTE = 'Trusted: FluxBinner/ArraySpectrum as the binning path of the repository (their own correctness is C05/C17).'
TECHNIQUE = 'paired-execution differential monitor (full vs restricted grid) with call taps + numba bounds-check sanitizer'
