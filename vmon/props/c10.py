"""C10 -- atmospheric composition is a valid mixture for every input.

Monitors
  * icontract postconditions on ``TaurexChemistry.initialize_chemistry`` (attached to the real class,
    vmon/lib_c10.py): non-negative ratios, columns sum to one, fill gases share exactly what the traces
    leave in the declared ratios to the first fill gas, trace rows are the gas profiles, mu = sum x_i m_i
    (exactly with the model's per-molecule masses, and each of those against an independent element table
    and formula parser), active/inactive = availability of opacity data recorded when the chemistry was
    built, and "returned normally although the traces exceed one" is a failure.
  * icontract postconditions on ``initialize_profile`` of every built-in gas profile: one finite value per
    layer inside the range of the declared control values (power law: 0..deep value).
  * the workloads decide acceptance/rejection: InvalidChemistryException if and only if the observed trace
    profiles exceed one somewhere; anything else escaping is a failure.
Opacity availability is set up per case through the real cache: in-memory opacity objects and/or real
``.pickle`` cross-section files discovered through ``OpacityCache().set_opacity_path``.
"""
import os
import shutil

import numpy as np

from vmon import own
from vmon import lib_c10 as L
from vmon import world

PROPERTY = 'C10'
RULE = ('mixtures from a seeded generator: 1..4 fill gases (str or list) with ratios over 1e-6..1e3 (float or list), 0..5 trace '
        'gases of every built-in profile kind (constant, two-layer, two-point, array, power law) in dilute, heavy, exactly-unity and '
        'exceeding classes, layer counts 2..60 and 100, log-spaced/irregular pressure grids over 1e-2..12 decades, random temperature '
        'profiles, a random subset of all molecules given opacity data (in-memory objects and/or .pickle files), values changed '
        'through the public fitting parameters and re-initialised; non-trivial = chemistry initialised and judged by the contracts '
        'or rejected; distinct = distinct (fills, ratios, gases, nlayers, availability) tuples')
ASSUMPTIONS = [
    'ratios are given as float or list of floats (the documented types); an int ratio with two fill gases raises TypeError at '
    'construction and is only observed',
    'control abundances of log-interpolated profiles (two-layer, two-point) are positive; zero is used for constant/array gases',
    'molecular masses are compared with IUPAC abridged standard atomic weights to 5e-4 (the spread between table editions); '
    'mu is compared to 1e-12 with the model\'s own per-molecule masses',
    'opacity data are installed before the chemistry object is built (availability is read at construction)',
    'trace totals within 4 eps*k of one (but not exactly one) are counted, not judged',
]
_Q = {'mixture': 180, 'gas': 500, 'model': 20, 'routes': 120, 'long': 2}
_T = {'mixture': 2600, 'gas': 7000, 'model': 250, 'routes': 1500, 'long': 8}
BUDGET = {
    'quick': [dict(name='main', env={}, shards=8, cases=_Q)],
    'thorough': [dict(name='main', env={}, shards=16, cases=_T),
                 dict(name='repo-tests', env={}, shards=1, cases={'repo_tests': 1})],
}
REQUIRED = dict(
    monitors=['contract:chem.nonnegative', 'contract:chem.sums-to-one', 'contract:chem.fill-ratios', 'contract:chem.fill-main',
              'contract:chem.trace-rows', 'contract:chem.mu-weighted-sum', 'contract:chem.molecular-mass',
              'contract:chem.mu-independent-masses', 'contract:chem.active-inactive-split',
              'contract:chem.split-profiles-aligned', 'contract:chem.rejects-traces-above-one', 'contract:chem.shape',
              'contract:gas.one-per-layer', 'contract:gas.finite', 'contract:gas.within-controls',
              'rejects-above-one', 'accepts-valid', 'contract-fired', 'earlier-result-stays-as-returned', 'routes:split-by-availability',
              'routes:one-row-per-gas-one-value-per-layer', 'routes:nonnegative-finite', 'routes:sums-to-one',
              'routes:profile-as-declared', 'routes:get_gas_mix_profile-is-the-row', 'routes:mu-weighted-sum'],
    classes=['history:one-chemistry-object-over-a-hundred-updates', 'history:dozens-of-rejections-on-one-object', 'gas-added-after-initialisation', 'grid:integer-decades', 'after-rejection:abundances-written-down', 'after-rejection:valid-sample-accepted', 'gas:ConstantGas', 'gas:TwoLayerGas', 'gas:TwoPointGas', 'gas:ArrayGas', 'gas:PowerGas',
             'fill:1', 'fill:2', 'fill:3', 'fill:4', 'ratio:float', 'ratio:list', 'mixture:dilute', 'mixture:heavy',
             'mixture:unity', 'mixture:exceed', 'avail:memory', 'avail:file', 'avail:none', 'fill-gas-active',
             'trace-inactive', 'nlayers:2', 'nlayers:100', 'via-forward-model', 'via-setter', 'twolayer:smoothed',
             'route:file', 'route:makefree+file', 'file-gases:1', 'routes:abundance-written',
             'routes:gas-added-after-initialisation', 'routes:active-gas-added-later', 'grid:cold-layers'])

NLAYERS = list(range(2, 61)) + [100]
FILL_POOL = ['H2', 'He', 'Ne', 'N2', 'CO2', 'Ar', 'O2']
TRACE_POOL = ['H2O', 'CH4', 'CO', 'NH3', 'HCN', 'TiO', 'VO', 'C2H2', 'C2H6', 'SO2', 'H2S', 'SiO', 'Na', 'K', 'FeH', 'PH3',
              'C4H10', 'C10H8', 'HCl', 'O3', 'NO2', 'Kr', 'CH3OH', 'HCOOH', 'CH3COOH', 'H2NNH2', 'C2H5OH', 'NH2OH', 'HC3N', 'H2SO4']
POWER_TYPES = ['H2O', 'TiO', 'VO', 'Na', 'K', 'H2']


def classify(f):
    return None


def setup(ctx):
    probs = L.self_test()
    if probs:
        ctx.check('reference-selftest', False, problems=probs)
    L.install(ctx)


# ------------------------------------------------------------------ generators
def gen_nlayers(rng):
    k = rng.integers(0, 10)
    if k == 0:
        return 2
    if k == 1:
        return 100
    if k == 2:
        return int(rng.choice([3, 4, 5, 7, 9, 11]))
    return int(rng.choice(NLAYERS))


def gen_grid(rng, n):
    if n <= 12 and rng.random() < 0.12:
        # exact decades written as integers (10**np.arange(...) is an int64 array), whole-number temperatures as integers
        hi = int(rng.integers(n - 1, 13))
        P = 10 ** np.arange(hi, hi - n, -1)
        T = rng.integers(100, 3500, n) if rng.random() < 0.5 else rng.uniform(100, 3500, n)
        return P, T, 'integer-decades'
    lpmax = rng.uniform(2.0, 8.0)
    kind = ['simple', 'simple', 'irregular', 'narrow'][rng.integers(0, 4)]
    dec = 10 ** rng.uniform(-2, 0.3) if kind == 'narrow' else rng.uniform(2.0, 12.0)
    if kind == 'irregular':
        lp = np.sort(rng.uniform(lpmax - dec, lpmax, n))[::-1].copy()
        for i in range(1, n):
            if lp[i] >= lp[i - 1] - 1e-7:
                lp[i] = lp[i - 1] - 1e-7 - 1e-3 * rng.random()
        P = 10 ** lp
    else:
        lev = np.logspace(lpmax, lpmax - dec, n + 1)
        P = np.sqrt(lev[:-1] * lev[1:])
    T = rng.uniform(100, 3500) * np.ones(n) if rng.random() < 0.3 else rng.uniform(100, 3500, n)
    if rng.random() < 0.15:
        # a cold atmosphere (ice giants, the upper layers of temperate planets): some or all layers between 20 and 100 K
        cold = rng.random(n) < 0.6
        cold[int(rng.integers(0, n))] = True
        T = np.where(cold, rng.uniform(20, 100, n), T)
        kind = kind + '+cold-layers'
    return P, T, kind


def gen_gas(ctx, rng, mol, kind, P, scale):
    """One trace gas whose control values are at most ``scale``.  Returns (object, kind)."""
    from taurex.data.profiles.chemistry import ConstantGas, TwoLayerGas, PowerGas
    from taurex.data.profiles.chemistry.gas.twopointgas import TwoPointGas
    from taurex.data.profiles.chemistry.gas.arraygas import ArrayGas

    def val():
        return float(scale * 10 ** rng.uniform(-10, 0)) if rng.random() < 0.6 else float(scale * rng.uniform(0.05, 1.0))
    if kind == 'ConstantGas':
        v = 0.0 if rng.random() < 0.03 else val()
        g = ConstantGas(mol, mix_ratio=v)
    elif kind == 'TwoLayerGas':
        l0, l1 = np.log10(P[0]), np.log10(P[-1])
        f = rng.uniform(-0.2, 1.2)
        smooth = int(rng.choice([0, 1, 2, 5, 10, 25, 50, 100])) if rng.random() < 0.5 else int(rng.integers(0, 101))
        g = TwoLayerGas(mol, mix_ratio_surface=val(), mix_ratio_top=val(), mix_ratio_P=float(10 ** (l0 + f * (l1 - l0))),
                        mix_ratio_smoothing=smooth)
    elif kind == 'TwoPointGas':
        g = TwoPointGas(mol, mix_ratio_surface=val(), mix_ratio_top=val())
    elif kind == 'ArrayGas':
        k = len(P) if rng.random() < 0.2 else int(rng.integers(2, 9))
        arr = [val() for _ in range(k)]
        if rng.random() < 0.1:
            arr[rng.integers(0, k)] = 0.0
        g = ArrayGas(mol, mix_ratio_array=arr if rng.random() < 0.5 else np.array(arr))
    else:
        ptype = str(rng.choice(POWER_TYPES))
        kw = {}
        if rng.random() < 0.6:
            kw['mix_ratio_surface'] = val()
        if rng.random() < 0.4:
            kw['alpha'] = float(rng.uniform(0.5, 2.5))
        if rng.random() < 0.4:
            kw['beta'] = float(10 ** rng.uniform(4, np.log10(6e4)))
        if rng.random() < 0.4:
            kw['gamma'] = float(rng.uniform(5, 25))
        if mol in POWER_TYPES and rng.random() < 0.5:
            g = PowerGas(mol, **kw)                     # profile_type='auto'
        else:
            g = PowerGas(mol, profile_type=ptype, **kw)
    ctx.observe('gas:' + kind)
    return g


GAS_KINDS = ['ConstantGas', 'TwoLayerGas', 'TwoPointGas', 'ArrayGas', 'PowerGas']


def make_availability(ctx, rng, names):
    """Give a random subset of ``names`` (plus molecules that are not in the mixture) opacity data."""
    from taurex.cache import OpacityCache
    world.reset_caches()
    extras = [str(m) for m in rng.choice(TRACE_POOL + FILL_POOL, 3, replace=False)]
    pool = list(dict.fromkeys(list(names) + extras))
    mode = ['memory', 'file', 'both', 'none'][rng.integers(0, 4)] if rng.random() < 0.9 else 'none'
    p = rng.uniform(0.2, 0.8)
    chosen = [m for m in pool if rng.random() < p] if mode != 'none' else []
    mem, fil = [], []
    for m in chosen:
        (mem if mode == 'memory' or (mode == 'both' and rng.random() < 0.5) else fil).append(m)
    if mode == 'memory':
        fil = []
    wn = np.array([100.0, 200.0, 400.0])
    Tg, Pg = np.array([100.0, 3000.0]), np.array([1e-2, 1e6])
    Fake = world.fake_opacity_class()
    for m in mem:
        OpacityCache().add_opacity(Fake(m, wn, Tg, Pg, np.full((2, 2, 3), 1e-25)))
    d = None
    if fil:
        d = os.path.join(ctx.scratch, 'xs_%d_%d' % (ctx.case['index'], rng.integers(0, 1 << 30)))
        os.makedirs(d)
        for m in fil:
            fn = m + ('.R100' if rng.random() < 0.3 else '') + '.pickle'
            world.write_pickle_xsec(os.path.join(d, fn), wn, Tg, Pg, np.full((2, 2, 3), 1e-25))
        OpacityCache().set_opacity_path(d)
    if mem:
        ctx.observe('avail:memory')
    if fil:
        ctx.observe('avail:file')
    if not chosen:
        ctx.observe('avail:none')
    L._h['available'] = set(mem) | set(fil)
    return set(mem) | set(fil), d


_own = {}


def init_chem(ctx, chem, n, T, P, alt=None):
    """Run initialize_chemistry under the contracts.  Returns 'accepted' or 'rejected'."""
    from taurex.data.profiles.chemistry.taurexchemistry import InvalidChemistryException
    before = ctx.monitors['contract:chem.rejects-traces-above-one']
    try:
        chem.initialize_chemistry(n, T, P, alt)
    except InvalidChemistryException as e:
        ctx.license(type(e).__name__)
        return 'rejected'
    led = _own.get('led')
    if led is not None:
        # what the caller kept from EARLIER initialisations of this object (mean molecular weight, mixing profiles) is
        # still what it was; then the present results are kept as well
        led.settle('a later initialize_chemistry on the same object')
        led.keep(chem.muProfile, 'muProfile')
        for nm_ in ('activeGasMixProfile', 'inactiveGasMixProfile'):
            v_ = getattr(chem, nm_)
            if isinstance(v_, np.ndarray):
                led.keep(v_, nm_)
    st, why = L._h['chem_state'](chem, n)
    ctx.check('contract-fired', ctx.monitors['contract:chem.rejects-traces-above-one'] > before or st is None
              or bool(np.any((st['total'] != 1.0) & (np.abs(st['total'] - 1.0) <= 4 * L.EPS * max(len(st['traces']), 1)))),
              why=why)
    return 'accepted'


def judge(ctx, outcome, gases, n, **wit):
    total = np.zeros(n)
    for g in gases:
        total = total + np.asarray(g.mixProfile, dtype=float)
    k = max(len(gases), 1)
    if np.any((total != 1.0) & (np.abs(total - 1.0) <= 4 * L.EPS * k)):
        ctx.event('domain-skip:trace-total-within-rounding-of-one')
        return None
    if np.any(total > 1.0):
        ctx.check('rejects-above-one', outcome == 'rejected', max_total=float(np.max(total)),
                  layers_above=int(np.sum(total > 1.0)), **wit)
        return 'exceed'
    ctx.check('accepts-valid', outcome == 'accepted', max_total=float(np.max(total)), **wit)
    return 'valid'


# ------------------------------------------------------------------- workloads
def wl_mixture(ctx, rng):
    from taurex.data.profiles.chemistry import TaurexChemistry
    n = gen_nlayers(rng)
    P, T, gk = gen_grid(rng, n)
    ctx.observe('grid:' + gk.replace('+cold-layers', ''))
    if gk.endswith('+cold-layers'):
        ctx.observe('grid:cold-layers')
    nf = int(rng.choice([1, 2, 2, 3, 4]))
    fills = [str(m) for m in rng.choice(FILL_POOL, nf, replace=False)]
    ratios = [float(10 ** rng.uniform(-6, 3)) if rng.random() < 0.3 else float(10 ** rng.uniform(-3, 0)) for _ in fills[1:]]
    if rng.random() < 0.05 and ratios:
        ratios[rng.integers(0, len(ratios))] = 0.0
    k = int(rng.integers(0, 6))
    mols = [str(m) for m in rng.choice(TRACE_POOL, k, replace=False)]
    mclass = ['dilute', 'dilute', 'heavy', 'unity', 'exceed'][rng.integers(0, 5)] if k else 'dilute'
    avail, d = make_availability(ctx, rng, fills + mols)
    gases = []
    from taurex.data.profiles.chemistry import ConstantGas
    if mclass == 'unity':
        parts = {1: [1.0], 2: [0.5, 0.5], 3: [0.5, 0.25, 0.25], 4: [0.5, 0.25, 0.125, 0.125], 5: [0.5, 0.25, 0.125, 0.0625, 0.0625]}[k]
        for m, v in zip(mols, parts):
            gases.append(ConstantGas(m, mix_ratio=v))
            ctx.observe('gas:ConstantGas')
    else:
        scale = {'dilute': 0.2 / max(k, 1), 'heavy': 1.0 / max(k, 1), 'exceed': 1.6 / max(k, 1)}[mclass]
        for m in mols:
            gases.append(gen_gas(ctx, rng, m, GAS_KINDS[rng.integers(0, 5)], P, scale))
        if mclass == 'exceed' and rng.random() < 0.7:
            # push one gas so that the excess is certain somewhere
            i = int(rng.integers(0, k))
            gases[i] = ConstantGas(mols[i], mix_ratio=float(rng.uniform(1.0, 1.5))) if rng.random() < 0.5 else \
                gen_gas(ctx, rng, mols[i], 'TwoPointGas', P, 1.0)
            if type(gases[i]).__name__ == 'TwoPointGas':
                gases[i] = type(gases[i])(mols[i], mix_ratio_surface=float(rng.uniform(1.0, 1.3)), mix_ratio_top=1e-6)
    single_str = nf == 1 and rng.random() < 0.5
    if nf == 2 and rng.random() < 0.5:
        ratio_arg = ratios[0]
        ctx.observe('ratio:float')
    else:
        ratio_arg = list(ratios)
        ctx.observe('ratio:list')
    kw = {'fill_gases': fills[0] if single_str else list(fills)}
    if nf > 1 or rng.random() < 0.5:
        kw['ratio'] = ratio_arg if nf > 1 else 0.17
    chem = TaurexChemistry(**kw)
    for g in gases:
        chem.addGas(g)
    _own['led'] = own.Ledger(ctx, 'mixture')
    ctx.observe('fill:%d' % nf, 'nlayers:%d' % n, 'traces:%d' % k)
    if any(m in avail for m in fills):
        ctx.observe('fill-gas-active')
    if any(m not in avail for m in mols):
        ctx.observe('trace-inactive')
    ctx.feature(fills=fills, ratios=ratios, gases=[(g.molecule, type(g).__name__) for g in gases], nlayers=n, grid=gk,
                mclass=mclass, available=sorted(avail))
    outcome = init_chem(ctx, chem, n, T, P)
    verdict = judge(ctx, outcome, gases, n, fills=fills, ratios=ratios)
    if verdict is not None:
        ctx.observe('mixture:' + (mclass if verdict == 'valid' and mclass != 'exceed' else
                                  ('exceed' if verdict == 'exceed' else 'heavy')))
    if verdict == 'exceed' and outcome == 'rejected':
        # a rejected sample, then a valid one on the SAME chemistry object (what a sampler does all the time): the constant
        # gases are written down through their fitting parameters and the chemistry is initialised again
        fp = chem.fitting_parameters()
        cg = [g for g in gases if type(g).__name__ == 'ConstantGas']
        if cg:
            for g in cg:
                v = float(10 ** rng.uniform(-8, -3))
                fp[g.molecule][3](v)
                L.redeclare(g, mix_ratio=v)
            ctx.observe('via-setter', 'after-rejection:abundances-written-down')
            o6 = init_chem(ctx, chem, n, T, P)
            v6 = judge(ctx, o6, gases, n, after='rejected-then-lowered')
            if v6 == 'valid' and o6 == 'accepted':
                ctx.observe('after-rejection:valid-sample-accepted')
    if verdict == 'valid' and outcome == 'accepted':
        # change a ratio / an abundance through the public fitting parameters and re-initialise (what a sampler does)
        fp = chem.fitting_parameters()
        if nf > 1 and rng.random() < 0.5:
            i = int(rng.integers(0, nf - 1))
            v = float(10 ** rng.uniform(-4, 1))
            fp['%s_%s' % (fills[i + 1], fills[0])][3](v)
            ratios = list(ratios)
            ratios[i] = v
            L.redeclare(chem, ratio=list(ratios))
            ctx.observe('via-setter')
            o2 = init_chem(ctx, chem, n, T, P)
            judge(ctx, o2, gases, n, after='ratio-set')
        cg = [g for g in gases if type(g).__name__ == 'ConstantGas']
        if cg and rng.random() < 0.5:
            g = cg[rng.integers(0, len(cg))]
            v = float(10 ** rng.uniform(-8, 0.1))
            fp[g.molecule][3](v)
            L.redeclare(g, mix_ratio=v)
            ctx.observe('via-setter')
            o3 = init_chem(ctx, chem, n, T, P)
            judge(ctx, o3, gases, n, after='abundance-set')
        # a second initialisation on another grid re-uses the object (layer count changes between retrieval set-ups)
        if rng.random() < 0.3:
            n2 = gen_nlayers(rng)
            P2, T2, _ = gen_grid(rng, n2)
            o4 = init_chem(ctx, chem, n2, T2, P2)
            judge(ctx, o4, gases, n2, after='regrid')
        # a gas added AFTER the chemistry was initialised (a script that extends the composition step by step): the
        # next initialisation must account for it everywhere -- mixing ratios, split, mean molecular weight
        if rng.random() < 0.4:
            pool = [m for m in TRACE_POOL if m not in mols and m not in fills]
            if pool:
                m_new = str(pool[rng.integers(0, len(pool))])
                g_new = gen_gas(ctx, rng, m_new, GAS_KINDS[rng.integers(0, 5)], P, float(10 ** rng.uniform(-6, -1.5)))
                chem.addGas(g_new)
                gases = list(gases) + [g_new]
                ctx.observe('gas-added-after-initialisation')
                o5 = init_chem(ctx, chem, n, T, P)
                judge(ctx, o5, gases, n, after='gas-added')
    _own['led'].settle('all initialisations')
    _own['led'] = None
    if d is not None:
        shutil.rmtree(d, ignore_errors=True)
    ctx.sig('mix', tuple(fills), tuple(ratios), tuple((g.molecule, type(g).__name__) for g in gases), n, tuple(sorted(avail)))
    if outcome == 'accepted':
        ctx.sample({'fills': fills, 'ratios': ratios, 'gases': [(g.molecule, type(g).__name__) for g in gases], 'nlayers': n,
                    'available': sorted(avail), 'active': list(chem.activeGases), 'inactive': list(chem.inactiveGases),
                    'mu_amu_surface': float(chem.muProfile[0] / L.AMU)})


def wl_gas(ctx, rng):
    """Every built-in abundance profile on its own, over the layer counts."""
    n = gen_nlayers(rng)
    P, T, gk = gen_grid(rng, n)
    ctx.observe('grid:' + gk.replace('+cold-layers', ''))
    if gk.endswith('+cold-layers'):
        ctx.observe('grid:cold-layers')
    kind = GAS_KINDS[rng.integers(0, 5)] if rng.random() < 0.6 else 'TwoLayerGas'
    mol = str(rng.choice(TRACE_POOL))
    g = gen_gas(ctx, rng, mol, kind, P, float(10 ** rng.uniform(-6, 0)))
    ctx.observe('nlayers:%d' % n)
    ctx.feature(kind=kind, nlayers=n, grid=gk, decl=g._vmon_decl[1])
    before = ctx.monitors['contract:gas.one-per-layer']
    g.initialize_profile(n, T, P, None)
    ctx.check('contract-fired', ctx.monitors['contract:gas.one-per-layer'] > before, kind=kind)
    if kind == 'TwoLayerGas':
        w = int(n * g._vmon_decl[1]['mix_ratio_smoothing'] / 100.0)
        w += (w % 2 == 0)
        if 3 <= w <= n:
            ctx.observe('twolayer:smoothed')
    # fitting parameters: change a control value and re-initialise
    fp = g.fitting_parameters()
    if kind in ('TwoLayerGas', 'TwoPointGas') and rng.random() < 0.5:
        which = ['surface', 'top'][rng.integers(0, 2)]
        v = float(10 ** rng.uniform(-10, 0))
        fp['%s_%s' % (mol, which)][3](v)
        L.redeclare(g, **{'mix_ratio_' + which: v})
        ctx.observe('via-setter')
        g.initialize_profile(n, T, P, None)
    ctx.sig('gas', kind, n, gk, repr(sorted((k, repr(v)) for k, v in g._vmon_decl[1].items())))
    ctx.sample({'gas': kind, 'nlayers': n, 'decl': g._vmon_decl[1],
                'minmax': [float(np.min(g.mixProfile)), float(np.max(g.mixProfile))]})


def wl_model(ctx, rng):
    """The contracts fire on the chemistry calls a forward model makes while it is built."""
    from taurex.data import Planet
    from taurex.data.stellar import BlackbodyStar
    from taurex.data.profiles.pressure import SimplePressureProfile
    from taurex.data.profiles.temperature import Isothermal
    from taurex.data.profiles.chemistry import TaurexChemistry
    from taurex.model import TransmissionModel
    n = gen_nlayers(rng)
    lpmax = rng.uniform(3.0, 7.0)
    pmax, pmin = 10 ** lpmax, 10 ** (lpmax - rng.uniform(2, 8))
    P = np.sqrt(np.logspace(lpmax, np.log10(pmin), n + 1)[:-1] * np.logspace(lpmax, np.log10(pmin), n + 1)[1:])
    nf = int(rng.integers(1, 4))
    fills = ['H2', 'He', 'Ne'][:nf]
    ratios = [float(10 ** rng.uniform(-3, 0)) for _ in fills[1:]]
    k = int(rng.integers(1, 4))
    mols = [str(m) for m in rng.choice(TRACE_POOL, k, replace=False)]
    avail, d = make_availability(ctx, rng, fills + mols)
    chem = TaurexChemistry(fill_gases=fills, ratio=ratios)
    gases = [gen_gas(ctx, rng, m, GAS_KINDS[rng.integers(0, 5)], P, 0.2 / k) for m in mols]
    for g in gases:
        chem.addGas(g)
    m = TransmissionModel(planet=Planet(planet_mass=float(rng.uniform(0.5, 5)), planet_radius=float(rng.uniform(0.5, 1.5))),
                          star=BlackbodyStar(temperature=5000.0, radius=1.0),
                          pressure_profile=SimplePressureProfile(nlayers=n, atm_min_pressure=pmin, atm_max_pressure=pmax),
                          temperature_profile=Isothermal(T=float(rng.uniform(300, 2500))), chemistry=chem)
    ctx.observe('via-forward-model', 'nlayers:%d' % n, 'fill:%d' % nf)
    ctx.feature(kind='model', nlayers=n, fills=fills, gases=[(g.molecule, type(g).__name__) for g in gases])
    from taurex.data.profiles.chemistry.taurexchemistry import InvalidChemistryException
    before = ctx.monitors['contract:chem.sums-to-one']
    try:
        m.build()
        m.initialize_profiles()
        outcome = 'accepted'
    except InvalidChemistryException as e:      # e.g. a power-law gas with its tabulated deep abundance (H2: 0.79)
        ctx.license(type(e).__name__)
        outcome = 'rejected'
    if outcome == 'accepted':
        ctx.check('contract-fired', ctx.monitors['contract:chem.sums-to-one'] - before >= 2,
                  gained=ctx.monitors['contract:chem.sums-to-one'] - before)
    judge(ctx, outcome, gases, n)
    if d is not None:
        shutil.rmtree(d, ignore_errors=True)
    ctx.sig('model', tuple(fills), tuple(ratios), tuple((g.molecule, type(g).__name__) for g in gases), n)


def wl_routes(ctx, rng):
    """The other two shipped routes to a composition: a table read from a file (``chemistry_type = file``) and the same
    made free with the MakeFreeMixin (``makefree+file``; gases injected with ``addGas``, those already in the table are
    forced).  File: one value per layer and gas as written, split by opacity availability, mu the weighted sum.
    Make-free: every profile (table columns, injected gases replacing their column) divided by their sum -- non-negative,
    summing to one, mu the weighted sum of THAT mixture.  The same object is initialised again after abundances were
    written through the fitting parameters and after a further gas was added."""
    import tempfile
    from taurex.data.profiles.chemistry import ChemistryFile
    from taurex.mixin import enhance_class, MakeFreeMixin
    from taurex.util.util import get_molecular_weight
    n = gen_nlayers(rng)
    P, T, gk = gen_grid(rng, n)
    nf = int(rng.integers(1, 4))
    fills = [str(m) for m in rng.choice(FILL_POOL, nf, replace=False)]
    ntr = int(rng.integers(0, 4)) if nf > 1 or rng.random() < 0.7 else 0
    in_file = [str(m) for m in rng.choice(TRACE_POOL, ntr, replace=False)]
    gases = fills + in_file
    cols = {m: 10 ** rng.uniform(-9, -2) * (np.ones(n) if rng.random() < 0.5 else 10 ** rng.uniform(-1, 0, n)) for m in in_file}
    rest = 1.0 - sum(cols.values()) if cols else np.ones(n)
    w = np.array([1.0] + [float(10 ** rng.uniform(-3, 0)) for _ in fills[1:]])
    for m, r in zip(fills, w):
        cols[m] = rest * r / w.sum()
    order = [int(i) for i in rng.permutation(len(gases))]
    gases = [gases[i] for i in order]
    table = np.column_stack([cols[m] for m in gases])
    makefree = bool(rng.random() < 0.65)
    inject = []
    if makefree:
        k = int(rng.integers(1, 4))
        pool = [m for m in TRACE_POOL if m not in gases]
        names = [str(m) for m in rng.choice(pool, k, replace=False)]
        if in_file and rng.random() < 0.6:
            names[0] = in_file[int(rng.integers(0, len(in_file)))]          # forced: already in the table
        if rng.random() < 0.15:
            names[-1] = fills[int(rng.integers(0, nf))]                     # a main constituent forced
        names = list(dict.fromkeys(names))
        inject = [(m, gen_gas(ctx, rng, m, GAS_KINDS[rng.integers(0, 4)], P, 0.1 / len(names))) for m in names]
    avail, d = make_availability(ctx, rng, gases + [m for m, _ in inject])
    fd, fn = tempfile.mkstemp(suffix='.dat', prefix='c10_chem_', dir=ctx.scratch)
    os.close(fd)
    np.savetxt(fn, table, fmt='%.17e')
    ctx.observe('route:makefree+file' if makefree else 'route:file', 'file-gases:%s' % ('1' if len(gases) == 1 else '2+'),
                'nlayers:%d' % n)
    ctx.feature(kind='routes', makefree=makefree, file_gases=gases, injected=[(m, type(g).__name__) for m, g in inject],
                nlayers=n, available=sorted(avail))
    try:
        if makefree:
            chem = enhance_class(ChemistryFile, MakeFreeMixin, gases=list(gases), filename=fn)
            for m, g in inject:
                chem.addGas(g)
        else:
            chem = ChemistryFile(gases=list(gases), filename=fn)

        def reference(injected):
            X = {m: np.array(table[:, i], dtype=float) for i, m in enumerate(gases)}
            if not makefree:
                return X
            for m, g in injected:
                X[m] = np.array(g.mixProfile, dtype=float) * np.ones(n)       # the gas object's own profile (C10 gas contracts)
            tot = sum(X.values())
            if np.any(tot <= 0):
                return None              # a layer in which every declared profile is zero: there is no mixture to normalise
            return {m: v / tot for m, v in X.items()}

        def judge_now(tag, injected):
            chem.initialize_chemistry(n, T, P, None)
            ref = reference(injected)
            if ref is None:
                ctx.event('domain-skip:routes-empty-mixture-in-a-layer')
                return
            act, ina = list(chem.activeGases), list(chem.inactiveGases)
            ctx.check('routes:split-by-availability', sorted(act) == sorted(m for m in ref if m in avail)
                      and sorted(ina) == sorted(m for m in ref if m not in avail), active=act, inactive=ina,
                      available=sorted(avail), species=sorted(ref), step=tag)
            rows = {}
            for names_, prof in ((act, chem.activeGasMixProfile), (ina, chem.inactiveGasMixProfile)):
                if not names_:
                    continue
                prof = np.asarray(prof, dtype=float)
                if not ctx.check('routes:one-row-per-gas-one-value-per-layer', prof.shape == (len(names_), n),
                                 shape=list(prof.shape), want=[len(names_), n], step=tag):
                    return
                for i, m in enumerate(names_):
                    rows[m] = prof[i]
            allx = np.array([rows[m] for m in rows])
            ctx.check('routes:nonnegative-finite', bool(np.all(np.isfinite(allx)) and np.all(allx >= 0)), step=tag)
            if makefree:
                ctx.close('routes:sums-to-one', allx.sum(axis=0), np.ones(n), 1e-12, step=tag, species=list(rows))
            for m in rows:
                if m in ref:
                    ctx.close('routes:profile-as-declared', rows[m], ref[m], 1e-12, atol=1e-300, gas=m, step=tag,
                              forced=bool(makefree and m in gases and m in [q for q, _ in injected]))
                got = np.asarray(chem.get_gas_mix_profile(m), dtype=float)
                ctx.check('routes:get_gas_mix_profile-is-the-row', got.shape == (n,) and bool(np.array_equal(got, rows[m])),
                          gas=m, shape=list(got.shape), step=tag)
            mu = sum(get_molecular_weight(m) * rows[m] for m in rows)
            ctx.close('routes:mu-weighted-sum', np.asarray(chem.muProfile, dtype=float), mu, 1e-12, step=tag)
            return rows

        judge_now('first', inject)
        if makefree:
            for step in range(int(rng.integers(1, 4))):
                fp = chem.fitting_parameters()
                writable = [m for m, g in inject if m in fp]
                if writable and rng.random() < 0.7:
                    m = writable[int(rng.integers(0, len(writable)))]
                    v = float(10 ** rng.uniform(-9, -1.5))
                    fp[m][3](v)
                    ctx.observe('routes:abundance-written')
                    judge_now('written:' + m, inject)
                else:
                    pool = [q for q in TRACE_POOL if q not in gases and q not in [x for x, _ in inject]]
                    m = str(rng.choice(pool))
                    g = gen_gas(ctx, rng, m, 'ConstantGas', P, 0.05)
                    chem.addGas(g)
                    inject = inject + [(m, g)]
                    if m in avail:
                        ctx.observe('routes:active-gas-added-later')
                    ctx.observe('routes:gas-added-after-initialisation')
                    judge_now('added:' + m, inject)
    finally:
        try:
            os.remove(fn)
        except OSError:
            pass
        if d is not None:
            shutil.rmtree(d, ignore_errors=True)
    ctx.sig('routes', makefree, tuple(gases), tuple(m for m, _ in inject), n, gk)



def wl_long(ctx, rng):
    """A long history on ONE chemistry object, as in a retrieval with abundance priors that reach up to one: a few
    hundred abundance updates through the fitting parameters, valid mixtures and mixtures whose traces exceed one
    interleaved; every initialisation is judged like the first."""
    from taurex.data.profiles.chemistry import TaurexChemistry, ConstantGas
    n = int(rng.integers(2, 12))
    P, T, gk = gen_grid(rng, n)
    fills = ['H2', 'He']
    mols = [str(m) for m in rng.choice(TRACE_POOL, 2, replace=False)]
    avail, d = make_availability(ctx, rng, fills + mols)
    gases = [ConstantGas(m, mix_ratio=1e-4) for m in mols]
    chem = TaurexChemistry(fill_gases=list(fills), ratio=0.17)
    for g in gases:
        chem.addGas(g)
    _own['led'] = None
    fp = chem.fitting_parameters()
    steps = int(rng.integers(130, 220)) if ctx.tier == 'quick' else int(rng.integers(400, 1500))
    rejected = 0
    for i in range(steps):
        g = gases[int(rng.integers(0, 2))]
        v = float(rng.uniform(0.6, 1.5)) if rng.random() < 0.45 else float(10 ** rng.uniform(-8, -0.5))
        fp[g.molecule][3](v)
        L.redeclare(g, mix_ratio=v)
        o = init_chem(ctx, chem, n, T, P)
        verdict = judge(ctx, o, gases, n, step=i, rejected_before=rejected, history='long')
        if verdict == 'exceed':
            rejected += 1
    ctx.observe('history:one-chemistry-object-over-a-hundred-updates')
    if rejected > 50:
        ctx.observe('history:dozens-of-rejections-on-one-object')
    if d is not None:
        shutil.rmtree(d, ignore_errors=True)
    ctx.sig('long', n, tuple(mols), steps, rejected)


def wl_repo_tests(ctx, rng):
    """The repository's own chemistry tests, run in this process with the contracts on (DESIGN 3.4).  Their opacity
    mocks are not the world's: availability is not recorded, so the active/inactive contract only counts them."""
    import pytest
    from vmon import contracts
    tests = os.path.join(contracts.repo_root(), 'tests')
    if not os.path.isdir(tests):
        tests = '/repo/tests'
    world.reset_caches()
    L._h['available'] = None
    # wall-clock must not decide anything: no per-example deadline, no 'too slow' health checks, fixed examples
    import contextlib
    import io
    from hypothesis import HealthCheck, settings
    settings.register_profile('vmon', deadline=None, suppress_health_check=list(HealthCheck), derandomize=True,
                              database=None)
    before = sum(ctx.monitors.values())
    buf = io.StringIO()
    with contextlib.redirect_stdout(buf):
        rc = pytest.main(['-q', '-rf', '-p', 'no:cacheprovider', '--no-header', '-W', 'ignore', '--hypothesis-profile=vmon',
                          os.path.join(tests, 'chemistry')])
    ctx.check('repo-tests-pass-under-contracts', int(rc) == 0, rc=int(rc), output=buf.getvalue()[-2500:])
    gained = sum(ctx.monitors.values()) - before
    ctx.note('contract_evaluations_during_repo_tests', gained)
    ctx.check('repo-tests-reached-contracts', gained > 0)
    ctx.sig('repo-tests')
    ctx.sig('repo-tests', 2)


WORKLOADS = {'long': wl_long, 'repo_tests': wl_repo_tests, 'mixture': wl_mixture, 'gas': wl_gas, 'model': wl_model, 'routes': wl_routes}

LEVEL_TEXT = ('Exploration by runtime monitoring: icontract postconditions attached from the harness to TaurexChemistry.initialize_chemistry '
              'and to initialize_profile of every built-in gas profile judge each initialisation the workloads (and forward models they '
              'build) perform -- non-negativity, unit column sums, exact fill ratios, trace rows, mean molecular weight, active/inactive '
              'split against the opacity data the world installed through the real cache, profile range per layer -- while the workload '
              'decides that InvalidChemistryException is raised exactly when the observed traces exceed one. Held = held on the recorded executions.'
              ' Results the caller keeps and work arrays it re-uses are followed by an ownership ledger (vmon/own.py).')
LEVEL_NOTE = ('Trusted: the IUPAC abridged atomic weights typed into vmon/lib_c10.py (self-tested on seven formulas) to 5e-4; '
              'the Parmentier deep abundances quoted in the PowerGas documentation.')
TECHNIQUE = 'icontract postconditions on initialize_chemistry / Gas.initialize_profile + constructor/addGas taps + independent mass table, over seeded mixtures with real opacity discovery'
