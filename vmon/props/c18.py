"""C18 -- parallel post-processing is invariant to how samples are split across ranks.

Two tiers of simulation of the rank split, both running the real code:
  * 'online' (in-process): R OnlineVariance objects are fed an arbitrary assignment of weighted samples;
    taurex.mpi.allgather is replaced by a function that hands every rank the per-rank values AFTER A PICKLE
    ROUND TRIP (what mpi4py does to every exchanged object); parallelVariance() is evaluated as every rank.
  * 'mp' (multi-process): R real processes on the mpi4py stand-in (vmon/doubles/mpi4py, Unix-socket
    coordinator, pickled payloads) run Optimizer.generate_profiles and compute_derived_trace on identical
    designed sample sets; taps on update_model, OnlineVariance.update and mpi.broadcast write a per-rank event
    log; the merged log is checked offline (exactly-once, conservation, two-pass statistics).
"""
import itertools
import math
import os
import pickle

import numpy as np

from vmon import refmodel as R_
from vmon import world

PROPERTY = 'C18'
RULE = ('online: every assignment of <=6 weighted samples to <=3 ranks exhaustively plus random assignments of up to '
        '200 scalar/vector samples to up to 8 ranks (ranks with zero and one sample, N<R, N=R, N=R+1, equal/skewed/zero/'
        'tied weights); mp: R in {1,2,3,4,5,8} processes, N in 0..24 designed samples, derived selections; distinct = '
        'distinct (workload, R, N, assignment / weight class) tuples')
ASSUMPTIONS = [
    'weights reach OnlineVariance as w + 1e-300 (what Optimizer.sample_parameters yields), so a rank whose samples all '
    'have zero posterior weight still has a positive total weight',
    'the mpi4py stand-in reproduces what mpi4py does to exchanged Python objects (pickle round trip, rank-ordered '
    'results, SUM = "+" in rank order); real MPI transport, shared-memory windows and Split_type are not exercised',
    'variances are compared with atol 1e-12*mean^2 (a constant profile has variance 0 and M2 carries rounding noise)',
]
_Q = {'online': 400, 'online_exhaustive': 1, 'alias': 60, 'mp': 3, 'masked': 30}
_T = {'online': 6000, 'online_exhaustive': 1, 'alias': 600, 'mp': 9, 'masked': 300}
BUDGET = {
    'quick': [dict(name='main', env={'NUMBA_BOUNDSCHECK': '1'}, shards=4, cases=_Q)],
    'thorough': [dict(name='main', env={'NUMBA_BOUNDSCHECK': '1'}, shards=16, cases=_T)],
}
WATCHDOG = {'quick': 900, 'thorough': 3000}
REQUIRED = dict(monitors=['online:variance-not-negative', 'alias:variance-equals-two-pass', 'alias:update-leaves-its-argument-alone', 'online:variance-equals-two-pass', 'online:same-on-every-rank', 'mp:exactly-once',
                          'mp:conservation', 'mp:variance-equals-two-pass', 'mp:same-on-every-rank',
                          'mp:derived-trace-equals-single-process', 'mp:equals-single-process'],
                classes=['rank-with-zero-samples', 'rank-with-one-sample', 'N<R', 'weights:zeros', 'weights:ties',
                         'values:vector', 'mp:R>=3', 'mp:derived', 'mp:binner-pass-through', 'mp:binner-flux',
                         'alias:same-objects-two-accumulators', 'alias:one-buffer-overwritten',
                         'alias:several-accumulators-other-weights', 'values:tight-spread',
                         'weights-handed-over:as-they-are-numpy', 'weights-handed-over:plus-1e-300-numpy', 'values:agree-to-rounding',
                         'values:zero-weight-samples-elsewhere-weighted-ones-identical', 'mp:samples-a-hair-apart', 'history:hundreds-of-samples-on-a-rank', 'values:masked-arrays'])
TOL = 1e-10
EPS = float(np.finfo(float).eps)
_state = {}


def ref_var(values, weights):
    """Weighted population variance to (close to) full precision: the data are shifted by their first sample (exact for
    data that lie close together, and the variance does not depend on the shift) and the two passes run in extended
    precision, so the reference does not itself lose the digits a tight spread leaves."""
    x = np.asarray(values, dtype=np.longdouble)
    w = np.asarray(weights, dtype=np.longdouble)
    d = x - x[0]
    ws = w.reshape((-1,) + (1,) * (d.ndim - 1))
    W = w.sum()
    mean = (d * ws).sum(axis=0) / W
    var = (ws * (d - mean) ** 2).sum(axis=0) / W
    return np.asarray(mean + x[0], dtype=float), np.asarray(var, dtype=float)


def var_allowance(values, mean=None, var=None):
    """Absolute allowance of a variance comparison, derived from what the streaming update can deliver: every update
    stores the running mean rounded to an ulp of its magnitude m (error eps*m, entering M2 multiplied by a deviation
    <= range) and forms products of deviations (eps*range^2); the combined mean of identical per-rank means may differ
    from them by an ulp, which enters squared.  n updates: 4 n eps (range^2 + m range) + (16 eps m)^2.
    (An earlier version allowed 1e-12*|x|^2, which would have hidden a formula that cancels catastrophically when the
    spread is small next to the mean: its error is eps*m^2, i.e. m/range times larger than this allowance.)"""
    x = np.asarray(values, dtype=float)
    if x.size == 0:
        return 1e-300
    n = x.shape[0]
    m = float(np.max(np.abs(x)))
    rng_ = float(np.max(np.max(x, axis=0) - np.min(x, axis=0))) if n else 0.0
    return 4 * n * EPS * (rng_ * rng_ + m * rng_) + (16 * EPS * m) ** 2 + 1e-300


def classify(f):
    w = f.get('witness', {})
    if f['monitor'] == 'mp:derived-trace-equals-single-process' and w.get('tied_weights') and w.get('same_multiset') \
            and w.get('equal_after_sorting_within_weight_ties'):
        return 'C18/derived-trace-tie-order'
    return None


# ------------------------------------------------------------------ online
def pickled(x):
    return pickle.loads(pickle.dumps(x, protocol=pickle.HIGHEST_PROTOCOL))


class Rendezvous:
    """An in-process communicator: every rank runs in its own thread; allgather is a barrier collective that hands each
    rank all ranks' values AFTER A PICKLE ROUND TRIP, in rank order.  It assumes nothing about how many exchanges a
    call makes or what is exchanged -- only that all ranks make the same sequence of collectives (as MPI requires).
    A rank that makes fewer or more collectives than the others shows as a broken barrier (reported, never a hang)."""

    def __init__(self, nranks, ctx):
        import threading
        self.n = nranks
        self.ctx = ctx
        self.local = threading.local()
        self.barrier = threading.Barrier(nranks)
        self.slots = [None] * nranks
        self.broken = False

    def allgather(self, value):
        import threading
        r = self.local.rank
        self.slots[r] = pickle.dumps(value, protocol=pickle.HIGHEST_PROTOCOL)
        try:
            self.barrier.wait(timeout=20)
            out = [pickle.loads(x) for x in self.slots]
            self.barrier.wait(timeout=20)
        except threading.BrokenBarrierError:
            self.broken = True
            raise RuntimeError('collective mismatch between ranks')
        if r == 0:
            self.ctx.event('tap:allgather')
        return out

    def run(self, fns):
        """fns[r]() is executed as rank r; returns (results, errors)."""
        import threading
        from taurex import mpi
        res, err = [None] * self.n, [None] * self.n

        def body(r):
            self.local.rank = r
            try:
                res[r] = fns[r]()
            except BaseException as e:      # reported to the caller
                err[r] = e
                self.barrier.abort()
        orig = mpi.allgather
        mpi.allgather = self.allgather
        try:
            ths = [threading.Thread(target=body, args=(r,)) for r in range(self.n)]
            for t in ths:
                t.start()
            for t in ths:
                t.join(60)
        finally:
            mpi.allgather = orig
        return res, err


def simulate_online(ctx, values, weights, assign, nranks):
    """values[i], weights[i] go to rank assign[i]; returns parallelVariance() as seen by every rank."""
    from taurex.util.math import OnlineVariance
    objs = [OnlineVariance() for _ in range(nranks)]
    # the packaged caller (Optimizer.sample_parameters) hands over weight + 1e-300 as a numpy float; a direct user of the
    # class hands over its weights as they are (exact zeros included).  Both, as numpy floats or Python floats.
    weights = np.asarray(weights, dtype=float)
    style = _state.get('weight_style', 0)
    if style in (0, 1):
        weights = weights + 1e-300
    ctx.observe('weights-handed-over:' + ['plus-1e-300-numpy', 'plus-1e-300-python', 'as-they-are-numpy', 'as-they-are-python'][style])
    for v, w, r in zip(values, weights, assign):
        objs[r].update(np.array(v, dtype=float) if np.ndim(v) else float(v), weight=(float(w) if style in (1, 3) else w))
    rv = Rendezvous(nranks, ctx)
    outs, errs = rv.run([o.parallelVariance for o in objs])
    bad = [repr(e)[:200] for e in errs if e is not None]
    ctx.check('online:every-rank-completes-the-collectives', not bad, errors=bad, nranks=nranks)
    if bad:
        return [np.nan for _ in range(nranks)]
    return outs


def judge_online(ctx, values, weights, assign, nranks, label):
    outs = simulate_online(ctx, values, weights, assign, nranks)
    counts = np.bincount(assign, minlength=nranks) if len(assign) else np.zeros(nranks, dtype=int)
    if np.any(counts == 0):
        ctx.observe('rank-with-zero-samples')
    if np.any(counts == 1):
        ctx.observe('rank-with-one-sample')
    if len(values) < nranks:
        ctx.observe('N<R')
    feat = dict(label=label, nranks=nranks, counts=counts.tolist(), n=len(values))
    if len(values) < 2:
        for o in outs:
            ctx.check('online:fewer-than-two-samples-gives-nan', np.all(np.isnan(o)), **feat)
        return
    if float(np.sum(weights)) <= 0:
        ctx.event('domain-skip:total-weight-zero')
        return
    mean, var = ref_var(np.array(values, dtype=float), np.array(weights, dtype=float) + 1e-300)
    scale = np.max(np.abs(mean)) ** 2 + np.max(np.abs(np.array(values, dtype=float))) ** 2
    for r, o in enumerate(outs):
        ctx.close('online:variance-equals-two-pass', o, var, TOL, atol=var_allowance(values, mean, var), rank=r, **feat)
        # a variance is not negative, however small: the callers take its square root (a nan standard deviation otherwise)
        with np.errstate(invalid='ignore'):
            ctx.check('online:variance-not-negative', bool(np.all(np.asarray(o, dtype=float) >= 0)), rank=r,
                      smallest=float(np.min(np.asarray(o, dtype=float))), **feat)
    for o in outs[1:]:
        ctx.check('online:same-on-every-rank', np.array_equal(np.asarray(o), np.asarray(outs[0]), equal_nan=True), **feat)


def draw_weights(rng, n):
    cls = ['equal', 'skewed', 'zeros', 'ties', 'random'][rng.integers(0, 5)]
    if cls == 'equal':
        w = np.full(n, float(rng.uniform(0.1, 2)))
    elif cls == 'skewed':
        w = 10 ** rng.uniform(-12, 0, n)
    elif cls == 'zeros':
        w = rng.random(n)
        w[rng.random(n) < 0.4] = 0.0
        if n and w.sum() == 0:
            w[0] = 1.0
    elif cls == 'ties':
        w = rng.choice([0.1, 0.2, 0.5], n)
    else:
        w = rng.random(n) + 1e-3
    return w, cls


def wl_online(ctx, rng):
    nranks = int(rng.choice([1, 2, 3, 4, 5, 8]))
    mode = rng.integers(0, 5)
    if mode == 0:
        n = int(rng.integers(0, nranks + 1))          # N < R .. N = R
    elif mode == 1:
        n = nranks + 1
    else:
        n = int(rng.integers(2, 200))
    if ctx.case['index'] % 40 == 7:
        # a long chain: hundreds to thousands of samples on a rank (what a real posterior has), unevenly split
        nranks = int(rng.choice([2, 3, 4, 8]))
        n = int(rng.integers(600, 3000))
        ctx.observe('history:hundreds-of-samples-on-a-rank')
    w, wcls = draw_weights(rng, n)
    ctx.observe('weights:' + wcls)
    vec = rng.random() < 0.5
    if vec:
        ctx.observe('values:vector')
        d = int(rng.integers(2, 6))
        vals = list(rng.normal(rng.uniform(-5, 5), 10 ** rng.uniform(-3, 2), (n, d)))
        if rng.random() < 0.2 and n:
            for v in vals:
                v[0] = 3.25          # one component constant across samples: variance exactly zero
    else:
        vals = list(rng.normal(rng.uniform(-5, 5), 10 ** rng.uniform(-3, 2), n))
    if n and rng.random() < 0.25:
        # a spread that is tiny next to the mean (a temperature known to millikelvins, a converged radius): any formula
        # that subtracts squared means cancels catastrophically here
        centre = float(10 ** rng.uniform(0, 4)) * float(rng.choice([-1, 1]))
        rel = float(10 ** rng.uniform(-9, -4))
        if vec:
            vals = [centre * (1.0 + rel * rng.normal(size=len(vals[0]))) for _ in range(n)]
        else:
            vals = [centre * (1.0 + rel * float(rng.normal())) for _ in range(n)]
        ctx.observe('values:tight-spread')
    elif n >= 2 and rng.random() < 0.2:
        # samples that agree to rounding (a quantity that is not fitted: the same profile in every sample, up to the last
        # bits), the first weights (nearly) zero as in a nested-sampling run: the accumulated sum of squares is ~0 +- ulps
        centre = float(10 ** rng.uniform(-7, 4))
        if vec:
            vals = [centre * (1.0 + EPS * rng.integers(-3, 4, len(vals[0]))) for _ in range(n)]
        else:
            vals = [centre * (1.0 + EPS * float(rng.integers(-3, 4))) for _ in range(n)]
        w = np.array(w, dtype=float)
        k0 = int(rng.integers(1, max(2, n // 2 + 1)))
        w[:k0] = 0.0
        if w.sum() == 0:
            w[-1] = 1.0
        if rng.random() < 0.6:
            # ... and the (nearly) zero-weight samples at the start lie somewhere else (the early, far-away points of a
            # nested-sampling run), the weighted ones agree exactly (duplicates of the best point)
            for i in range(n):
                vals[i] = (vals[i] * 0 + centre) if i >= k0 else vals[i] * float(10 ** rng.uniform(-3, 3))
            ctx.observe('values:zero-weight-samples-elsewhere-weighted-ones-identical')
        ctx.observe('values:agree-to-rounding')
    split = rng.integers(0, 3)
    if split == 0:
        assign = np.arange(n) % nranks                  # the round-robin split the code uses
    elif split == 1:
        assign = rng.integers(0, nranks, n)
    else:
        assign = np.sort(rng.integers(0, nranks, n))    # contiguous blocks, some ranks empty
    style = int(rng.integers(0, 4))
    tot = np.bincount(np.asarray(assign, dtype=int), weights=np.asarray(w, dtype=float), minlength=nranks) if n else np.zeros(nranks)
    cnt = np.bincount(np.asarray(assign, dtype=int), minlength=nranks) if n else np.zeros(nranks, dtype=int)
    if style >= 2 and np.any((cnt > 0) & (tot <= 0)):
        style -= 2           # a rank holding only zero-weight samples: the packaged caller never produces that (w + 1e-300)
    _state['weight_style'] = style
    judge_online(ctx, vals, w, np.asarray(assign, dtype=int), nranks, 'random')
    _state['weight_style'] = 0
    ctx.sig('online', nranks, n, wcls, bool(vec), int(split), tuple(np.bincount(np.asarray(assign, dtype=int), minlength=nranks).tolist()))
    ctx.sample({'workload': 'online', 'ranks': nranks, 'n': n, 'weights': wcls, 'vector': bool(vec),
                'per_rank_counts': np.bincount(np.asarray(assign, dtype=int), minlength=nranks).tolist()})


def wl_masked(ctx, rng):
    """Samples handed over as numpy MASKED arrays (a spectrum with empty bins: NaN under a mask, the same bins in every
    sample): the elements that are not masked have the two-pass weighted variance of their values, on every rank, for every
    split; what is returned for the masked elements is not judged."""
    from taurex.util.math import OnlineVariance
    nranks = int(rng.choice([1, 2, 3, 5]))
    n = int(rng.integers(2, 40))
    d = int(rng.integers(3, 9))
    w, wcls = draw_weights(rng, n)
    w = np.asarray(w, dtype=float) + 1e-300
    mask = np.zeros(d, dtype=bool)
    mask[rng.choice(d, int(rng.integers(1, max(2, d // 2))), replace=False)] = True
    vals = rng.normal(rng.uniform(-5, 5), 10 ** rng.uniform(-2, 2), (n, d))
    vals[:, mask] = np.nan
    assign = np.asarray(rng.integers(0, nranks, n), dtype=int) if rng.random() < 0.5 else np.arange(n) % nranks
    objs = [OnlineVariance() for _ in range(nranks)]
    for v, w_, r in zip(vals, w, assign):
        objs[r].update(np.ma.masked_invalid(v.copy()), weight=w_)
    rv = Rendezvous(nranks, ctx)
    outs, errs = rv.run([o.parallelVariance for o in objs])
    bad = [repr(e)[:200] for e in errs if e is not None]
    if not ctx.check('online:every-rank-completes-the-collectives', not bad, errors=bad, nranks=nranks, values='masked'):
        return
    ctx.observe('values:masked-arrays')
    mean, var = ref_var(vals[:, ~mask], w)
    feat = dict(label='masked', nranks=nranks, n=n, counts=np.bincount(assign, minlength=nranks).tolist())
    for r, o in enumerate(outs):
        got = np.ma.getdata(o) if np.ndim(o) else None
        if got is None or np.shape(got) != (d,):
            ctx.check('online:variance-equals-two-pass', bool(np.ndim(o) == 0 and np.isnan(o)) and n < 2, rank=r, got=repr(o)[:100], **feat)
            continue
        ctx.close('online:variance-equals-two-pass', np.asarray(got, dtype=float)[~mask], var, TOL,
                  atol=var_allowance(list(vals[:, ~mask]), mean, var), rank=r, values='masked', **feat)
    ctx.sig('masked', nranks, n, d, int(mask.sum()), wcls)


def wl_alias(ctx, rng):
    """What the callers really hand over: arrays that live on (a model's profile buffer, a spectrum that is also the
    'binned' spectrum when the binner passes it through).  Per rank TWO accumulators are fed the very same ndarray
    objects (as compute_error does with native and binned spectra under a pass-through binner); sometimes one persistent
    buffer is overwritten with each new sample (as a model that re-uses its output array does).  Both accumulators must
    give the two-pass variance, and no array handed to update() may have been modified."""
    from taurex.util.math import OnlineVariance
    nranks = int(rng.choice([1, 2, 3]))
    n = int(rng.integers(2, 40))
    d = int(rng.integers(1, 6))
    w, wcls = draw_weights(rng, n)
    w = np.asarray(w, dtype=float) + 1e-300
    vals = rng.normal(rng.uniform(-5, 5), 10 ** rng.uniform(-2, 2), (n, d))
    assign = np.arange(n) % nranks
    mode = ['same-objects-two-accumulators', 'one-buffer-overwritten'][rng.integers(0, 2)]
    ctx.observe('alias:' + mode, 'weights:' + wcls)
    A = [OnlineVariance() for _ in range(nranks)]
    B = [OnlineVariance() for _ in range(nranks)]
    handed = []
    buf = np.zeros(d)
    for i in range(n):
        r = int(assign[i])
        if mode == 'one-buffer-overwritten':
            buf[:] = vals[i]
            arr = buf
        else:
            arr = np.array(vals[i], dtype=np.float64)
            handed.append((arr, vals[i].copy()))
        A[r].update(arr, weight=float(w[i]))
        B[r].update(arr, weight=float(w[i]))
        if mode == 'one-buffer-overwritten':
            ctx.check('alias:update-leaves-its-argument-alone', np.array_equal(buf, vals[i]), sample=i, mode=mode)
    for arr, orig in handed:
        if not np.array_equal(arr, orig):
            ctx.check('alias:update-leaves-its-argument-alone', False, mode=mode, got=arr, want=orig)
            break
    else:
        ctx.check('alias:update-leaves-its-argument-alone', True)
    mean, var = ref_var(vals, w)
    scale = np.max(np.abs(mean)) ** 2 + np.max(np.abs(vals)) ** 2
    # a third accumulator per rank with OTHER weights and only part of the samples (one accumulator per posterior mode,
    # say): all accumulators exist before the first parallelVariance() and are then combined one after the other
    w3 = np.asarray(draw_weights(rng, n)[0], dtype=float) + 1e-300
    keep = rng.random(n) < 0.7
    if keep.sum() < 2:
        keep[:] = True
    C = [OnlineVariance() for _ in range(nranks)]
    for i in range(n):
        if keep[i]:
            C[int(assign[i])].update(np.array(vals[i], dtype=np.float64), weight=float(w3[i]))
    mean3, var3 = ref_var(vals[keep], w3[keep])
    order = [('first', A, var), ('second', B, var), ('other-weights', C, var3)]
    if rng.random() < 0.5:
        order = [order[2], order[0], order[1]]
    rv = Rendezvous(nranks, ctx)

    def as_rank(r):
        return lambda: [objs[r].parallelVariance() for _, objs, _ in order]
    outs, errs = rv.run([as_rank(r) for r in range(nranks)])
    bad = [repr(e)[:200] for e in errs if e is not None]
    ctx.check('online:every-rank-completes-the-collectives', not bad, errors=bad, nranks=nranks)
    if not bad:
        for r in range(nranks):
            for (name, _, want), out in zip(order, outs[r]):
                ctx.close('alias:variance-equals-two-pass', out, want, TOL, atol=var_allowance(vals, mean, want), accumulator=name, rank=r,
                          mode=mode, nranks=nranks, n=n, order=[o[0] for o in order])
        ctx.observe('alias:several-accumulators-other-weights')
    ctx.sig('alias', mode, nranks, n, d, wcls)


def wl_online_exhaustive(ctx, rng):
    """Every assignment of n<=6 samples to R<=3 ranks (only shard 0 enumerates; the space is fixed)."""
    if ctx.shard != 0:
        ctx.sig('exhaustive-skip', ctx.shard)
        ctx.sig('exhaustive-skip2', ctx.shard)
        return
    total = 0
    for nranks in (1, 2, 3):
        for n in range(0, 7):
            vals = list(rng.normal(1.0, 2.0, n))
            for wcls, w in (('equal', np.ones(n)), ('zeros', np.array([0.0 if i % 2 else 0.7 for i in range(n)])),
                            ('skewed', 10.0 ** (-np.arange(n, dtype=float)))):
                ctx.observe('weights:' + wcls)
                for assign in itertools.product(range(nranks), repeat=n):
                    judge_online(ctx, vals, w, np.array(assign, dtype=int), nranks, 'exhaustive')
                    total += 1
                    ctx.sig('exh', nranks, n, wcls, assign)
    ctx.note('exhaustive_assignments', total)


# ---------------------------------------------------------------- multi-process
def make_mp_case(rng, index=0):
    """Identical on the parent and on every rank (same rng stream)."""
    Rn = int(rng.choice([2, 3, 4, 5, 8, 2, 3]))
    for _ in range(50):
        spec = world.random_world_spec(rng, nlayers=int(rng.choice([3, 4])), nwn=int(rng.integers(4, 8)), n_active=1,
                                       tkind='isothermal', gas_kinds=['constant'], n_inactive_trace=0, fill=['H2', 'He'])
        spec['contributions'] = ['Absorption']
        if world.is_bound(spec):
            break
    mode = rng.integers(0, 4)
    if mode == 0:
        N = int(rng.integers(0, Rn + 1))
    elif mode == 1:
        N = Rn + 1
    else:
        N = int(rng.integers(Rn + 2, 25))
    if int(index) % 3 == 2:
        N = max(N, 2)
    mol = spec['gases'][0]['mol']
    T = rng.uniform(400, 2500, N)
    lm = rng.uniform(-8, -2, N)
    rad = spec['planet_radius'] * rng.uniform(0.9, 1.1, N)
    hair = bool(int(index) % 3 == 2 and N >= 2)
    if hair:
        # a tightly converged posterior: every sample is its own point, but the points lie within a few parts in 1e10 of
        # each other in every fitted parameter
        rad = rad[0] + 1e-10 * np.arange(N) * rng.uniform(0.5, 2.0)
        T = T[0] + 1e-9 * rng.permutation(N) * rng.uniform(0.5, 2.0)
        lm = lm[0] + 1e-10 * rng.permutation(N) * rng.uniform(0.5, 2.0)
    samples = np.stack([rad, T, lm], axis=1) if N else np.zeros((0, 3))
    w, wcls = draw_weights(rng, N)
    derived = [[], ['mu'], ['mu', 'logg', 'avg_T']][rng.integers(0, 3)]
    if N == 0:
        derived = []       # quantiles of an empty trace are undefined in a single process too
    frac = float(rng.choice([1.0, 1.0, 0.5]))
    pyseed = int(rng.integers(0, 2 ** 31))
    return {'R': Rn, 'spec': spec, 'N': N, 'samples': samples, 'weights': w, 'wcls': wcls, 'derived': derived,
            'frac': frac, 'mol': mol, 'pyseed': pyseed, 'passthrough': bool(int(index) % 3 == 1), 'hair': hair}


def rank_main(seed, workload, shard, index):
    """Runs inside one rank process."""
    import random
    from vmon.runner import case_rng
    from taurex.optimizer import Optimizer
    from taurex.data.spectrum.array import ArraySpectrum
    from taurex.util.math import OnlineVariance
    from taurex import mpi
    rng = case_rng(seed, workload, shard, index)
    case = make_mp_case(rng, index)
    spec = case['spec']
    world.reset_caches()
    world.install_opacities(spec)
    model = world.build_model(spec, 'transmission')
    world.add_contributions(model, spec)
    model.build()
    wn = next(iter(spec['tables'].values()))['wn']
    k = 3
    c = np.linspace(wn[0] + 0.2 * (wn[-1] - wn[0]), wn[-1] - 0.2 * (wn[-1] - wn[0]), k)
    wl = 1e4 / c
    rows = np.stack([wl, np.full(k, 1e-3), np.full(k, 1e-5), np.full(k, (wl[0] - wl[1]) * 0.5)]).T
    if case['passthrough']:
        # an observation whose binner hands the native spectrum through (what ForwardModel.defaultBinner() and the
        # light-curve observation do): native and "binned" spectrum are then one and the same array object
        from taurex.binning import NativeBinner

        class PassThroughObservation(ArraySpectrum):
            def create_binner(self):
                return NativeBinner()
        obs = PassThroughObservation(rows)
    else:
        obs = ArraySpectrum(rows)
    events = []
    samples, weights = case['samples'], case['weights']

    class Designed(Optimizer):
        def compute_fit(self):
            pass

        def get_samples(self, i):
            return samples

        def get_weights(self, i):
            return weights

        def get_solution(self):
            yield 0, samples[0], samples[0], []
    opt = Designed('designed', observed=obs, model=model, sigma_fraction=case['frac'])
    for n in ('planet_radius', 'T', case['mol']):
        opt.enable_fit(n)
    for d in model.derivedParameters:
        (opt.enable_derived if d in case['derived'] else opt.disable_derived)(d)
    opt.compile_params()
    names = list(opt.fit_names)
    # taps (per-rank event log)
    orig_update = Optimizer.update_model

    def update_model(self, p):
        events.append(('update_model', phase[0], np.array(p, dtype=float).copy()))
        return orig_update(self, p)
    Optimizer.update_model = update_model
    ov_ids = {}
    orig_ov = OnlineVariance.update

    def ov_update(self, value, weight=1.0):
        i = ov_ids.setdefault(id(self), len(ov_ids))
        events.append(('ov_update', i, np.array(value, dtype=float).copy(), float(weight)))
        return orig_ov(self, value, weight)
    OnlineVariance.update = ov_update
    orig_bc = mpi.broadcast

    def broadcast(array, rank=0):
        out = orig_bc(array, rank)
        events.append(('broadcast', pickle.loads(pickle.dumps(out))))
        return out
    mpi.broadcast = broadcast
    phase = ['profiles']
    random.seed(case['pyseed'])
    res = {'rank': mpi.get_rank(), 'size': mpi.nprocs(), 'names': names, 'error': None}
    try:
        pd, sd = opt.generate_profiles(0, obs.wavenumberGrid)
        res['profiles'] = {k_: np.array(v) for k_, v in pd.items()}
        res['spectra'] = {k_: np.array(v) for k_, v in sd.items()}
        phase[0] = 'derived'
        dd = opt.compute_derived_trace(0)
        res['derived'] = None if dd is None else {k_: {kk: np.array(vv) for kk, vv in v.items()} for k_, v in dd.items()}
    except Exception as e:      # reported to the parent, judged there
        import traceback
        res['error'] = ''.join(traceback.format_exception(type(e), e, e.__traceback__))[-2500:]
    res['events'] = events
    try:
        from mpi4py import MPI
        res['collectives'] = list(MPI.COMM_WORLD.log)
    except ImportError:
        res['collectives'] = None
    return res


def wl_mp(ctx, rng):
    from vmon import lib_c18
    case = make_mp_case(rng, ctx.case['index'])
    Rn, N = case['R'], case['N']
    c = ctx.case
    args = ['c18', str(c['seed']), c['workload'], str(c['shard']), str(c['index'])]
    ctx.observe('mp:R=%d' % Rn, 'weights:' + case['wcls'])
    if Rn >= 3:
        ctx.observe('mp:R>=3')
    if case['derived']:
        ctx.observe('mp:derived')
    if N < Rn:
        ctx.observe('N<R')
    ctx.feature(R=Rn, N=N, weights=case['wcls'], derived=case['derived'], frac=case['frac'], passthrough=case['passthrough'])
    ctx.observe('mp:binner-' + ('pass-through' if case['passthrough'] else 'flux'))
    if case['hair']:
        ctx.observe('mp:samples-a-hair-apart')
    ranks, report = lib_c18.run_ranks(Rn, args, ctx.scratch)
    single, srep = lib_c18.run_ranks(1, args, ctx.scratch)
    ctx.event('mp-run')
    if report['errors'] or srep['errors'] or any(r is None for r in ranks) or single[0] is None:
        ctx.check('mp:ranks-completed', False, errors=report['errors'] + srep['errors'])
        return
    ctx.note('collective_rounds_last_run', report)
    for r in ranks + single:
        if r['error']:
            ctx.check('mp:no-exception-on-any-rank', False, rank=r['rank'], size=r['size'], error=r['error'])
            return
    ctx.check('mp:no-exception-on-any-rank', True)
    ctx.check('mp:rank-and-size', [r['rank'] for r in ranks] == list(range(Rn)) and all(r['size'] == Rn for r in ranks))
    # ---- exactly-once + conservation (profiles phase)
    bc = [e for e in ranks[0]['events'] if e[0] == 'broadcast']
    sample_list = bc[0][1] if bc else []
    want = sorted((tuple(np.asarray(p, dtype=float)), float(w)) for p, w in sample_list)
    used = []
    for r in ranks:
        ups = [e[2] for e in r['events'] if e[0] == 'update_model' and e[1] == 'profiles']
        ws = [e[3] for e in r['events'] if e[0] == 'ov_update' and e[1] == 0]
        ctx.check('mp:one-weight-per-processed-sample', len(ups) == len(ws), rank=r['rank'], n_up=len(ups), n_w=len(ws))
        used += [(tuple(p), w) for p, w in zip(ups, ws)]
        n_r = len(ups)
        if n_r == 0:
            ctx.observe('rank-with-zero-samples')
        if n_r == 1:
            ctx.observe('rank-with-one-sample')
    ctx.check('mp:exactly-once', sorted(used) == want, n_used=len(used), n_broadcast=len(want), R=Rn)
    ctx.close('mp:conservation', sum(w for _, w in used), sum(w for _, w in want), 1e-13)
    nexp = int(N * case['frac'])
    ctx.check('mp:broadcast-list-size', len(want) == nexp, got=len(want), want=nexp)
    # ---- two-pass statistics of the union, per OnlineVariance object (creation order is the same on every rank)
    nobj = max([e[1] for r in ranks for e in r['events'] if e[0] == 'ov_update'] + [-1]) + 1
    keys = ['temp_profile_std', 'active_mix_profile_std', 'inactive_mix_profile_std', 'native_std', 'binned_std']   # order of first update
    union = {i: ([], []) for i in range(nobj)}
    for r in ranks:
        for e in r['events']:
            if e[0] == 'ov_update':
                union[e[1]][0].append(e[2])
                union[e[1]][1].append(e[3])
    for i in range(nobj):
        vals, ws = union[i]
        key = keys[i] if nobj == 5 else None
        if key is None:
            continue
        got_all = [(r['profiles'].get(key) if key in r['profiles'] else r['spectra'].get(key)) for r in ranks]
        if len(vals) < 2:
            for g in got_all:
                ctx.check('mp:fewer-than-two-samples-gives-nan', np.all(np.isnan(g)), key=key)
            continue
        mean, var = ref_var(np.array(vals), np.array(ws))
        scale = float(np.max(np.abs(np.array(vals)))) ** 2
        for r, g in zip(ranks, got_all):
            ctx.close('mp:variance-equals-two-pass', np.asarray(g) ** 2, var, TOL, atol=var_allowance(vals, mean, var), key=key, rank=r['rank'],
                      R=Rn, n=len(vals), per_rank=[len([e for e in q['events'] if e[0] == 'ov_update' and e[1] == i]) for q in ranks])
    # ---- every rank reports the same, and the same as a single process
    def flat(res):
        out = {}
        for grp in ('profiles', 'spectra'):
            for k_, v in res[grp].items():
                out[grp + '/' + k_] = np.asarray(v, dtype=float)
        return out
    f0 = flat(ranks[0])
    fs = flat(single[0])
    for r in ranks[1:]:
        fr = flat(r)
        ctx.check('mp:same-on-every-rank', all(np.array_equal(fr[k_], f0[k_], equal_nan=True) for k_ in f0), rank=r['rank'])
    scale_of = {}
    if nobj == 5:
        for i, key in enumerate(keys):
            vals = union[i][0]
            scale_of[key] = float(np.max(np.abs(np.array(vals)))) ** 2 if len(vals) else 0.0
    for k_ in fs:
        # std compared through the variance with the same absolute allowance as the two-pass comparison (see
        # ASSUMPTIONS): the single process saw the same samples, only the summation order differs
        sc = scale_of.get(k_.split('/', 1)[1], 0.0)
        ctx.close('mp:equals-single-process', f0[k_] ** 2, fs[k_] ** 2, 1e-9, atol=2e-12 * sc + 1e-300, key=k_, R=Rn, N=N)
    # ---- derived traces
    dnames = case['derived']
    if dnames:
        sd = single[0]['derived']
        ups = [e[2] for r in ranks for e in r['events'] if e[0] == 'update_model' and e[1] == 'derived']
        wantd = sorted(tuple(s) for s in case['samples'])
        ctx.check('mp:exactly-once', sorted(tuple(u) for u in ups) == wantd, phase='derived', n=len(ups), N=N)
        tied = len(np.unique(case['weights'])) < N
        for r in ranks:
            rd = r['derived']
            if sd is None or rd is None:
                ctx.check('mp:derived-trace-equals-single-process', sd is None and rd is None, rank=r['rank'])
                continue
            for k_ in sd:
                a, b = np.asarray(rd[k_]['trace'], dtype=float), np.asarray(sd[k_]['trace'], dtype=float)
                same_multiset = a.shape == b.shape and np.allclose(np.sort(a), np.sort(b), rtol=1e-12, atol=0)
                # mechanism test for the tie-order finding: equal once entries are sorted within groups of equal weight
                eq_ties = False
                if same_multiset:
                    aa, bb = a.copy(), b.copy()
                    for wv in np.unique(case['weights']):
                        m = case['weights'] == wv
                        aa[m] = np.sort(aa[m])
                        bb[m] = np.sort(bb[m])
                    eq_ties = bool(np.allclose(aa, bb, rtol=1e-12, atol=0))
                ctx.close('mp:derived-trace-equals-single-process', a, b, 1e-12, key=k_, rank=r['rank'], R=Rn, N=N,
                          tied_weights=bool(tied), same_multiset=bool(same_multiset),
                          equal_after_sorting_within_weight_ties=eq_ties)
                for q in ('value', 'sigma_m', 'sigma_p', 'mean'):
                    ctx.close('mp:derived-summary-equals-single-process', rd[k_][q], sd[k_][q], 1e-9, atol=1e-12 * abs(float(np.asarray(sd[k_]['value']))),
                              key=k_, stat=q, rank=r['rank'])
    ctx.sig('mp', Rn, N, case['wcls'], tuple(dnames), case['frac'])
    ctx.sample({'workload': 'mp', 'ranks': Rn, 'N': N, 'weights': case['wcls'], 'derived': dnames, 'sigma_fraction': case['frac'],
                'collectives': report['ops'], 'per_rank_processed': [len([e for e in r['events'] if e[0] == 'update_model' and e[1] == 'profiles']) for r in ranks]})


WORKLOADS = {'online': wl_online, 'online_exhaustive': wl_online_exhaustive, 'alias': wl_alias, 'mp': wl_mp, 'masked': wl_masked}

LEVEL_TEXT = ('Exploration by runtime monitoring of simulated rank splits: (1) in-process, the real OnlineVariance objects of R '
              'ranks are fed every assignment of <=6 samples to <=3 ranks and thousands of random assignments, '
              'taurex.mpi.allgather being replaced by a tap that returns the per-rank values after a pickle round trip, and '
              'parallelVariance() on every rank is compared with the two-pass weighted variance; (2) multi-process, 2-8 '
              'real processes on an mpi4py stand-in run Optimizer.generate_profiles / compute_derived_trace unmodified '
              'while taps log every processed sample, weight and exchanged list, and an offline checker over the merged '
              'log decides exactly-once, conservation, two-pass statistics on every rank and entry-by-entry equality of '
              'derived traces with a single-process run.')
LEVEL_NOTE = 'Trusted: the mpi4py stand-in (pickle round trip, rank order) as a model of mpi4py object collectives; two-pass reference statistics.'
TECHNIQUE = 'recorded multi-rank event logs (mpi4py stand-in, pickled exchanges) + offline exactly-once/conservation/two-pass checker'
