"""C19 -- clouds and hazes act only inside their declared pressure range.

Monitors: C01's taps on path_integral / contribute (sigma snapshot of every contribution after prepare(),
transmittance, depth) on paired executions with and without the cloud / haze contribution; bounds-check sanitizer.
Oracle: written from the statement (deck: +inf at/below the cloud top, exactly 0 above; hazes: zero in layers
disjoint from the window, declared magnitude and wavelength law in layers wholly inside).
"""
import math

import numpy as np

from vmon import faults
from vmon import refmodel as R
from vmon import world
from vmon.props import c01 as base

PROPERTY = 'C19'
RULE = ('synthetic transmission worlds (2..30 layers on the standard log-spaced grid, 2-12 pressure decades) with one '
        'cloud deck or haze whose pressures are drawn inside / above / below the modelled range, exactly on a layer '
        'pressure, unset (-1), inverted, partly outside, below 1 Pa; paired runs with and without the contribution; '
        'distinct = distinct (kind, nlayers, pressure-class, planet) tuples')
ASSUMPTIONS = [
    'pressure grids are the standard log-spaced SimplePressureProfile grids (layer interval = its two level pressures); '
    'FlatMie normalises partial overlaps by the largest overlap, which equals the layer width only on such grids',
    'partially overlapping layers are only required to carry between 0 and the declared magnitude',
]
_Q = {'deck': 70, 'flat': 70, 'lee': 70, 'retune': 40}
_T = {'deck': 1200, 'flat': 1200, 'lee': 1200, 'retune': 600}
BUDGET = {
    'quick': [dict(name='boundscheck', env={'NUMBA_BOUNDSCHECK': '1'}, shards=4, cases=_Q)],
    'thorough': [dict(name='boundscheck', env={'NUMBA_BOUNDSCHECK': '1'}, shards=16, cases=_T)],
}
REQUIRED = dict(monitors=['deck-opaque-at-or-below-top', 'deck-zero-above', 'deck-depth-equals-opaque-integral',
                          'deck-depth>=clear', 'haze-zero-outside-window', 'haze-declared-magnitude-inside',
                          'haze-partial-between', 'haze-depth>=clear', 'lee-wavelength-law'],
                classes=['retune:fault-before-evaluation', 'deck:inside', 'deck:above-range', 'deck:below-range', 'deck:on-layer-pressure',
                         'flat:set', 'flat:unset', 'flat:inverted', 'flat:outside', 'flat:below-1Pa',
                         'lee:set', 'lee:unset', 'lee:inverted', 'lee:outside', 'nlayers:2', 'retune:deck',
                         'retune:flat', 'retune:lee', 'retune:evaluation-after-write', 'retune:pressure-range-written',
                         'retune:pressure-moved-by:array-refilled-in-place', 'retune:pressure-moved-by:fitting-parameters',
                         'retune:deck-top-stepped-across-a-layer-pressure-by-a-hair',
                         'retune:dozens-of-particle-sizes-earlier-ones-again', 'pressure-grid:integer-array',
                         'shared:one-haze-object-in-two-models-of-different-layer-counts'])


def classify(f):
    return None


def setup(ctx):
    base.setup(ctx)


def teardown(ctx):
    base.teardown(ctx)


def make_case(rng):
    for _ in range(50):
        spec = world.random_world_spec(rng, nlayers=int(rng.choice([2, 3, 4, 5, 7, 10, 13, 30])), nwn=int(rng.integers(3, 20)),
                                       magnitude=['thin', 'mixed', 'transparent'][rng.integers(0, 3)])
        spec['contributions'] = ['Absorption'] + (['Rayleigh'] if rng.random() < 0.3 else [])
        spec['new_method'] = bool(rng.random() < 0.5)
        spec['cia_magnitude'] = spec['magnitude']
        spec['cia_seed'] = 0
        if rng.random() < 0.2 and spec['nlayers'] >= 2:
            spec['pressure_route'] = 'array'
        if world.is_bound(spec):
            return spec
    raise RuntimeError('generator could not draw a bound atmosphere')


def levels_of(spec):
    """Pressure levels / layer pressures of the standard grid, from the statement (C11): log-spaced levels,
    layer pressure = geometric mean."""
    n = spec['nlayers']
    lev = 10 ** np.linspace(np.log10(spec['pmax']), np.log10(spec['pmin']), n + 1)
    lay = np.sqrt(lev[:-1] * lev[1:])
    return lev, lay


def run_pair(ctx, spec, extra):
    clear = base.run_model(ctx, base.realise(spec))
    s2 = dict(spec, contributions=list(spec['contributions']) + [extra])
    hm = base.realise(s2)
    hazy = base.run_model(ctx, hm)
    if hazy is not None:
        hazy['model_levels'] = np.array(hm.pressure.pressure_profile_levels, dtype=float)
        hazy['model_P_dtype'] = str(np.asarray(hm.pressureProfile).dtype)
        hazy['model'] = hm
    return clear, hazy, s2


def integer_grid(ctx, rng, spec):
    """The layer pressures as the caller's own INTEGER array (whole pascals, as a user writes them down or a file of
    integers delivers them); True if the world could be set up that way."""
    s_ = dict(spec, pressure_route='array', pressure_dtype='int64')
    if s_['pmin'] < 50.0:
        s_['pmin'] = float(10 ** rng.uniform(1.7, 2.5))
    if s_['pmax'] < 1e3 * s_['pmin'] or s_['temperature']['kind'] == 'npoint' or not world.is_bound(s_):
        return spec, False
    q_ = np.round(world.layer_pressures(s_['pmax'], s_['pmin'], s_['nlayers']))
    if not (np.all(np.diff(q_) < 0) and q_[-1] >= 1):
        return spec, False
    ctx.observe('pressure-grid:integer-array')
    return s_, True


def sigma_of(snap, kls):
    for nm, k, sig in snap['contribs']:
        if k == kls:
            return sig
    return None


def judge_deck(ctx, clear, cloudy, model_P, pc, **w):
    """One evaluation of a model with a cloud deck at pc against the clear evaluation of the same atmosphere."""
    sig = sigma_of(cloudy, 'SimpleCloudsContribution')
    n = len(model_P)
    # the model's own layer pressures decide membership (>=)
    cloud = model_P >= pc
    for i in range(n):
        if cloud[i]:
            ctx.check('deck-opaque-at-or-below-top', np.all(np.isposinf(sig[i])), layer=i, P=model_P[i], Pc=pc, **w)
        else:
            ctx.check('deck-zero-above', np.all(sig[i] == 0.0), layer=i, P=model_P[i], Pc=pc, **w)
    # depth = documented integral with the cloud layers fully opaque and unchanged physics above
    with np.errstate(divide='ignore'):
        tau_clear = -np.log(clear['ret_trans'])
    tau = tau_clear.copy()
    tau[cloud] = np.inf
    want = R.transit_depth(cloudy['Rp'], cloudy['Rs'], cloudy['z'], cloudy['dz'], tau)
    atm = 2.0 * float(np.sum((cloudy['Rp'] + cloudy['z']) * cloudy['dz'])) / cloudy['Rs'] ** 2
    ctx.close('deck-depth-equals-opaque-integral', cloudy['depth'], want, 1e-10, atol=1e-12 * atm, Pc=pc,
              ncloud=int(cloud.sum()), **w)
    ctx.check('deck-depth>=clear', np.all(cloudy['depth'] >= clear['depth'] * (1 - 1e-13)), **w)
    for i in range(n):
        if cloud[i]:
            ctx.check('deck-layer-transmittance-zero', np.all(cloudy['ret_trans'][i] == 0.0), layer=i, **w)
        else:
            ctx.close('deck-unchanged-above', cloudy['ret_trans'][i], clear['ret_trans'][i], 1e-12, layer=i, **w)
    return cloud


def wl_deck(ctx, rng):
    spec = make_case(rng)
    lev, lay = levels_of(spec)
    cls = ['inside', 'above-range', 'below-range', 'on-layer-pressure'][rng.integers(0, 4)]
    if cls == 'inside':
        pc = float(10 ** rng.uniform(np.log10(lay[-1]), np.log10(lay[0])))
    elif cls == 'above-range':         # cloud top at lower pressure than the whole model: everything is cloud
        pc = float(lay[-1] * 10 ** rng.uniform(-4, -0.01))
    elif cls == 'below-range':         # cloud top deeper than the model: no layer is cloud
        pc = float(lay[0] * 10 ** rng.uniform(0.01, 4))
    else:
        pc = None
    ctx.observe('deck:' + cls, 'nlayers:%d' % spec['nlayers'])
    ctx.feature(summary=world.spec_summary(spec), deck_class=cls)
    if pc is None:
        # exactly the model's own layer pressure: take it from a built model
        m0 = base.realise(spec)
        m0.build()
        pc = float(np.array(m0.pressureProfile)[int(rng.integers(0, spec['nlayers']))])
    clear, cloudy, s2 = run_pair(ctx, spec, {'name': 'SimpleClouds', 'clouds_pressure': pc})
    if clear is None or cloudy is None:
        return
    mm = base.realise(s2)
    mm.build()
    model_P = np.array(mm.pressureProfile, dtype=float)
    ctx.close('layer-pressure-is-geometric-mean', model_P, np.array(lay), 1e-12)
    cloud = judge_deck(ctx, clear, cloudy, model_P, pc)
    n = spec['nlayers']
    ctx.sig('deck', spec['nlayers'], cls, round(spec['planet_mass'], 6), int(cloud.sum()))
    ctx.sample({'kind': 'deck', 'class': cls, 'nlayers': n, 'cloud_top_Pa': pc, 'layers_opaque': int(cloud.sum())})


def draw_window(rng, lev, kind):
    """(bottom, top, class) in Pa; -1 = unset."""
    lo, hi = np.log10(lev[-1]), np.log10(lev[0])
    cls = ['set', 'unset', 'inverted', 'outside', 'below-1Pa', 'partly-outside'][rng.integers(0, 6)]
    if cls == 'set':
        a, b = sorted(rng.uniform(lo, hi, 2))
        bottom, top = 10 ** b, 10 ** a
    elif cls == 'unset':
        which = rng.integers(0, 3)
        a, b = sorted(rng.uniform(lo, hi, 2))
        bottom = -1 if which in (0, 2) else 10 ** b
        top = -1 if which in (1, 2) else 10 ** a
    elif cls == 'inverted':
        a, b = sorted(rng.uniform(lo, hi, 2))
        bottom, top = 10 ** a, 10 ** b
    elif cls == 'outside':
        if rng.random() < 0.5:
            a, b = sorted(rng.uniform(hi + 0.01, hi + 4, 2))
        else:
            a, b = sorted(rng.uniform(lo - 4, lo - 0.01, 2))
        bottom, top = 10 ** b, 10 ** a
    elif cls == 'below-1Pa':
        a = rng.uniform(min(lo, -6), -0.01)
        b = rng.uniform(a, max(hi, 0.5))
        bottom, top = 10 ** b, 10 ** a
    else:
        a = rng.uniform(lo - 3, hi)
        b = rng.uniform(max(a, lo), hi + 3)
        bottom, top = 10 ** b, 10 ** a
    return float(bottom), float(top), cls


def window_of(bottom, top, lev):
    """[wlo, whi] in Pa; unset bounds extend to the whole atmosphere; inverted bounds give the same window."""
    b = bottom if bottom >= 0 else lev[0]
    t = top if top >= 0 else lev[-1]
    return min(b, t), max(b, t)


def judge_haze(ctx, sig, lev, wlo, whi, magnitude, label, partial_rule):
    """magnitude: array over wavenumber (declared extinction in a layer wholly inside the window)."""
    n = len(lev) - 1
    eps = 1e-9
    for i in range(n):
        p_hi, p_lo = lev[i], lev[i + 1]            # layer i spans [p_lo, p_hi]
        if p_lo > whi * (1 + eps) or p_hi < wlo * (1 - eps):
            ctx.check('haze-zero-outside-window', np.all(sig[i] == 0.0), layer=i, kind=label, window=(wlo, whi),
                      layer_P=(p_lo, p_hi), got=float(np.max(np.abs(sig[i]))))
        elif p_lo >= wlo * (1 + eps) and p_hi <= whi * (1 - eps):
            ctx.close('haze-declared-magnitude-inside', sig[i], magnitude, 1e-10, layer=i, kind=label,
                      window=(wlo, whi), layer_P=(p_lo, p_hi))
        elif p_lo > whi * (1 - eps) or p_hi < wlo * (1 + eps) or abs(p_lo / wlo - 1) < eps or abs(p_hi / whi - 1) < eps:
            ctx.event('haze-layer-edge-on-window-edge')     # ambiguous to rounding: not judged
        else:
            ctx.check('haze-partial-between', np.all(sig[i] >= 0.0) and np.all(sig[i] <= magnitude * (1 + 1e-10)),
                      layer=i, kind=label)


def judge_flat(ctx, clear, hazy, lev, bottom, top, mix, cls, spec=None, **w):
    sig = sigma_of(hazy, 'FlatMieContribution')
    wlo, whi = window_of(bottom, top, lev)
    judge_haze(ctx, sig, lev, wlo, whi, np.full(sig.shape[1], mix), 'flat', None)
    ctx.check('haze-grey', np.all(sig == sig[:, :1]), kind='flat', **w)
    if spec is not None:
        base.oracle(ctx, hazy, spec)       # the declared extinction is actually integrated along every ray
    ctx.check('haze-depth>=clear', np.all(hazy['depth'] >= clear['depth'] * (1 - 1e-13)), kind='flat', **w)
    if cls == 'outside':
        ctx.close('haze-outside-range-changes-nothing', hazy['depth'], clear['depth'], 1e-13, kind='flat', **w)
    return sig


def wl_flat(ctx, rng):
    spec = make_case(rng)
    intgrid = False        # (the grey haze weights partly covered layers by edges it derives itself from the layer pressures;
    #                         on a grid that is not log-spaced -- rounded integers -- those are not the profile's levels, and
    #                         the statement does not say which count: the integer grid is driven for the Lee haze only)
    lev, lay = levels_of(spec)
    bottom, top, cls = draw_window(rng, lev, 'flat')
    mix = float(10 ** rng.uniform(-40, -22))
    ctx.observe('flat:' + cls, 'nlayers:%d' % spec['nlayers'])
    ctx.feature(summary=world.spec_summary(spec), window_class=cls, bottom=bottom, top=top)
    clear, hazy, s2 = run_pair(ctx, spec, {'name': 'FlatMie', 'flat_mix_ratio': mix, 'flat_bottomP': bottom, 'flat_topP': top})
    if clear is None or hazy is None:
        return
    if intgrid:
        lev = hazy['model_levels']
        cls = window_class(bottom, top, lev)
        ctx.check('integer-pressure-array-reaches-the-model', hazy['model_P_dtype'].startswith('int'), dtype=hazy['model_P_dtype'])
    sig = judge_flat(ctx, clear, hazy, lev, bottom, top, mix, cls, spec=s2)
    if ctx.case['index'] % 4 == 2:
        # ONE haze object, two owners: a second model of the same atmosphere on another number of layers (a coarse and a fine
        # model side by side) uses the very same contribution object; it is evaluated, then the first one again
        n2 = int(rng.choice([n_ for n_ in (2, 3, 4, 5, 7, 10, 13, 30) if n_ != spec['nlayers']]))
        sp2 = dict(spec, nlayers=n2)
        sp2.pop('pressure_route', None)
        if sp2['temperature']['kind'] not in ('npoint', 'array') and all(g['kind'] != 'array' for g in sp2['gases']) and world.is_bound(sp2):
            world.reset_caches()
            world.install_opacities(sp2)
            haze = [c for c in hazy['model'].contribution_list if type(c).__name__ == 'FlatMieContribution'][0]
            clear2 = base.run_model(ctx, base.build_more(sp2))
            m2 = base.build_more(sp2)
            m2.add_contribution(haze)
            hazy2 = base.run_model(ctx, m2)
            if clear2 is not None and hazy2 is not None:
                lev2, _ = levels_of(sp2)
                judge_flat(ctx, clear2, hazy2, lev2, bottom, top, mix, window_class(bottom, top, lev2), shared='second owner')
                again = base.run_model(ctx, hazy['model'], build=False)
                if again is not None:
                    judge_flat(ctx, clear, again, lev, bottom, top, mix, cls, shared='first owner again')
                ctx.observe('shared:one-haze-object-in-two-models-of-different-layer-counts')
    ctx.sig('flat', spec['nlayers'], cls, round(spec['planet_mass'], 6), round(math.log10(mix), 3))
    ctx.sample({'kind': 'FlatMie', 'class': cls, 'nlayers': spec['nlayers'], 'bottomP': bottom, 'topP': top,
                'layers_with_extinction': int(np.sum(np.any(sig > 0, axis=1)))})


def judge_lee(ctx, clear, hazy, lev, bottom, top, a, q, mix, cls, spec=None, **w):
    sig = sigma_of(hazy, 'LeeMieContribution')
    wn = hazy['wn']
    x = 2.0 * math.pi * a / (1e4 / wn)
    qext = 5.0 / (q * x ** -4.0 + x ** 0.2)
    magnitude = qext * math.pi * (a * 1e-6) ** 2 * mix
    # unset bounds of this haze extend to the first / last LAYER pressure (it works on layer pressures): the window
    # then still contains every layer centre, and no layer is wholly outside it
    wlo, whi = window_of(bottom, top, lev)
    judge_haze(ctx, sig, lev, wlo, whi, magnitude, 'lee', None)
    nz = np.any(sig != 0, axis=1)
    if spec is not None:
        base.oracle(ctx, hazy, spec)       # the declared extinction is actually integrated along every ray
    if np.any(nz):
        ctx.close('lee-wavelength-law', sig[nz], np.tile(magnitude, (int(nz.sum()), 1)), 1e-10, radius=a, Q=q, **w)
    else:
        ctx.check('lee-wavelength-law', True)
    ctx.check('haze-depth>=clear', np.all(hazy['depth'] >= clear['depth'] * (1 - 1e-13)), kind='lee', **w)
    if cls == 'outside':
        ctx.close('haze-outside-range-changes-nothing', hazy['depth'], clear['depth'], 1e-13, kind='lee', **w)
    return sig, nz


def wl_lee(ctx, rng):
    spec = make_case(rng)
    intgrid = False
    if ctx.case['index'] % 6 == 1:
        spec, intgrid = integer_grid(ctx, rng, spec)
    lev, lay = levels_of(spec)
    bottom, top, cls = draw_window(rng, lev, 'lee')
    a = float(10 ** rng.uniform(-3, 0.7))
    q = float(rng.uniform(1, 100))
    mix = float(10 ** rng.uniform(-16, -6))
    ctx.observe('lee:' + cls, 'nlayers:%d' % spec['nlayers'])
    ctx.feature(summary=world.spec_summary(spec), window_class=cls, bottom=bottom, top=top)
    clear, hazy, s2 = run_pair(ctx, spec, {'name': 'LeeMie', 'lee_mie_radius': a, 'lee_mie_q': q, 'lee_mie_mix_ratio': mix,
                                           'lee_mie_bottomP': bottom, 'lee_mie_topP': top})
    if clear is None or hazy is None:
        return
    if intgrid:
        lev = hazy['model_levels']               # the levels the array profile derives from the (rounded) layer pressures
        cls = window_class(bottom, top, lev)
        ctx.check('integer-pressure-array-reaches-the-model', hazy['model_P_dtype'].startswith('int'), dtype=hazy['model_P_dtype'])
    sig, nz = judge_lee(ctx, clear, hazy, lev, bottom, top, a, q, mix, cls, spec=s2)
    ctx.sig('lee', spec['nlayers'], cls, round(spec['planet_mass'], 6), round(a, 6))
    ctx.sample({'kind': 'LeeMie', 'class': cls, 'nlayers': spec['nlayers'], 'bottomP': bottom, 'topP': top,
                'radius_um': a, 'layers_with_extinction': int(nz.sum())})


def window_class(bottom, top, lev):
    if bottom < 0 or top < 0:
        return 'unset'
    wlo, whi = min(bottom, top), max(bottom, top)
    if wlo > lev[0] or whi < lev[-1]:
        return 'outside'
    return 'inverted' if bottom < top else 'set'


def wl_retune(ctx, rng):
    """The SAME model object, as in a retrieval: the cloud-top pressure / haze bounds, magnitude and particle size are
    written through the fitting parameters (model[name] = value), no rebuild, and the model is evaluated again; every
    evaluation is judged like a fresh one against the clear model of the same atmosphere."""
    spec = make_case(rng)
    kind = ['deck', 'flat', 'lee'][rng.integers(0, 3)]
    # every fifth case on purpose: the layer pressures are the caller's own array, the range moves under an unchanged
    # cloud top / haze window at the first re-evaluation (the kinds take turns)
    grid_only = ctx.case['index'] % 5 == 2 and spec['temperature']['kind'] != 'npoint'
    if grid_only:
        kind = ['deck', 'flat', 'lee'][(ctx.case['index'] // 5) % 3]
        spec['pressure_route'] = 'array'
    long = ctx.case['index'] % 10 == 7
    if long:
        kind = 'lee'
    lev, lay = levels_of(spec)
    lo, hi = np.log10(lev[-1]), np.log10(lev[0])
    clear_model = base.realise(spec)
    clear = base.run_model(ctx, clear_model)
    if clear is None:
        return

    def draw_set_bounds():
        b, t, c = draw_window(rng, lev, kind)
        while b < 0 or t < 0:            # a written value is a pressure; "unset" exists only at construction
            b, t, c = draw_window(rng, lev, kind)
        return b, t, window_class(b, t, lev)
    if kind == 'deck':
        pc = float(10 ** rng.uniform(lo - 1, hi + 1))
        extra = {'name': 'SimpleClouds', 'clouds_pressure': pc}
    elif kind == 'flat':
        bottom, top, cls = draw_window(rng, lev, 'flat')
        mix = float(10 ** rng.uniform(-40, -22))
        extra = {'name': 'FlatMie', 'flat_mix_ratio': mix, 'flat_bottomP': bottom, 'flat_topP': top}
    else:
        bottom, top, cls = draw_window(rng, lev, 'lee')
        a, q, mix = float(10 ** rng.uniform(-3, 0.7)), float(rng.uniform(1, 100)), float(10 ** rng.uniform(-16, -6))
        extra = {'name': 'LeeMie', 'lee_mie_radius': a, 'lee_mie_q': q, 'lee_mie_mix_ratio': mix,
                 'lee_mie_bottomP': bottom, 'lee_mie_topP': top}
    s2 = dict(spec, contributions=list(spec['contributions']) + [extra])
    model = base.realise(s2)
    ctx.observe('retune:' + kind, 'nlayers:%d' % spec['nlayers'])
    ctx.feature(summary=world.spec_summary(spec), retune=kind)
    rounds = int(rng.integers(2, 5))
    sizes = []
    if long:
        # a long history on one haze object: dozens of particle sizes / Q values, earlier ones coming back
        rounds = int(rng.integers(45, 80)) if ctx.tier == 'quick' else int(rng.integers(100, 400))
        ctx.observe('retune:dozens-of-particle-sizes-earlier-ones-again')
    for r in range(rounds):
        moved_now = False
        if r > 0 and (rng.random() < 0.45 or (grid_only and r == 1)) and spec['temperature']['kind'] != 'npoint':   # N-point nodes are tied to the range
            # the pressure range of the model is written (atm_max_pressure / atm_min_pressure are fitting parameters):
            # the layers move under an unchanged cloud top / haze window; the clear twin follows
            sp = dict(spec, pmax=float(spec['pmax'] * 10 ** rng.uniform(-1, 1)), pmin=float(spec['pmin'] * 10 ** rng.uniform(-1, 1)))
            if sp['pmax'] > 10 * sp['pmin'] and world.is_bound(sp):
                spec = sp
                for mdl in (model, clear_model):
                    ctx.observe('retune:pressure-moved-by:' + world.move_pressure_range(mdl, spec['pmax'], spec['pmin']))
                lev, lay = levels_of(spec)
                lo, hi = np.log10(lev[-1]), np.log10(lev[0])
                clear = base.run_model(ctx, clear_model, build=False)
                if clear is None:
                    return
                if kind != 'deck':
                    cls = window_class(bottom, top, lev) if bottom >= 0 and top >= 0 else 'unset'
                ctx.observe('retune:pressure-range-written')
                moved_now = True
                if rng.random() < 0.5 or (grid_only and r == 1):
                    r = -r          # only the grid moved: keep the cloud / haze parameters as they are
        if r > 0:
            if kind == 'deck' and not moved_now and rng.random() < 0.4:
                # (not in a round that moved the pressure range: the model's layer pressures are its own, to the last bit,
                # only after an evaluation)
                # the cloud top is stepped ACROSS a layer pressure by a few parts per billion, as a converged sampler
                # does: first a hair above the layer's pressure (the layer stays clear), evaluated, then onto it or a hair
                # below (the layer is in the deck)
                Pl = np.array(model.pressureProfile, dtype=float)
                pi_ = float(Pl[int(rng.integers(0, len(Pl)))])
                eps_ = float(10 ** rng.uniform(-9, -6))
                pc = pi_ * (1.0 + eps_)
                model['clouds_pressure'] = pc
                pre = base.run_model(ctx, model, build=False)
                if pre is None:
                    return
                judge_deck(ctx, clear, pre, np.array(model.pressureProfile, dtype=float), pc, evaluation=abs(r), retune=kind,
                           hair='above')
                pc = pi_ if rng.random() < 0.5 else pi_ * (1.0 - eps_)
                model['clouds_pressure'] = pc
                ctx.observe('retune:deck-top-stepped-across-a-layer-pressure-by-a-hair')
            elif kind == 'deck':
                pc = float(10 ** rng.uniform(lo - 1, hi + 1))
                model['clouds_pressure'] = pc
            elif kind == 'flat':
                what = rng.integers(0, 3)
                if what in (0, 2):
                    bottom, top, cls = draw_set_bounds()
                    model['flat_bottomP'] = bottom
                    model['flat_topP'] = top
                if what in (1, 2):
                    mix = float(10 ** rng.uniform(-40, -22))
                    model['flat_mix_ratio'] = mix
                cls = window_class(bottom, top, lev)
            else:
                what = rng.integers(0, 3)
                if what in (0, 2):
                    bottom, top, cls = draw_set_bounds()
                    model['lee_mie_bottomP'] = bottom
                    model['lee_mie_topP'] = top
                if long:
                    what = 1
                if what in (1, 2):
                    a, q, mix = float(10 ** rng.uniform(-3, 0.7)), float(rng.uniform(1, 100)), float(10 ** rng.uniform(-16, -6))
                    if long and len(sizes) > 4 and rng.random() < 0.35:
                        a, q = sizes[int(rng.integers(0, len(sizes) - 1))]
                    sizes.append((a, q))
                    model['lee_mie_radius'] = a
                    model['lee_mie_q'] = q
                    model['lee_mie_mix_ratio'] = mix
                cls = window_class(bottom, top, lev)
        if r != 0 and rng.random() < 0.3:
            site = faults.drive_into(ctx, rng, model.model)      # a rejected evaluation between write and evaluation
            if site == 'rejected':
                return
            if site:
                ctx.observe('retune:fault-before-evaluation')
        snap = base.run_model(ctx, model, build=(r == 0))
        if snap is None:
            return
        r = abs(r)
        w = dict(evaluation=r, retune=kind)
        if kind == 'deck':
            judge_deck(ctx, clear, snap, np.array(model.pressureProfile, dtype=float), pc, **w)
        elif kind == 'flat':
            judge_flat(ctx, clear, snap, lev, bottom, top, mix, cls, spec=dict(spec, contributions=s2['contributions']), **w)
        else:
            judge_lee(ctx, clear, snap, lev, bottom, top, a, q, mix, cls, spec=dict(spec, contributions=s2['contributions']), **w)
        if r > 0:
            ctx.observe('retune:evaluation-after-write')
    ctx.sig('retune', kind, spec['nlayers'], rounds, round(spec['planet_mass'], 6))


WORKLOADS = {'deck': wl_deck, 'flat': wl_flat, 'lee': wl_lee, 'retune': wl_retune}

LEVEL_TEXT = ('Exploration by runtime monitoring: paired executions of the real transmission model with and without a cloud '
              'deck / grey haze / Lee haze are tapped (each contribution\'s sigma after prepare(), per-layer transmittance, '
              'depth) and judged against the statement: deck rows +inf exactly where the layer pressure is at or above the '
              'cloud top and exactly 0 elsewhere, depth equal to the transit integral with those layers opaque and the '
              'layers above unchanged; hazes zero in every layer disjoint from the declared window (unset = whole '
              'atmosphere, inverted = same window), declared magnitude / 5/(Q x^-4 + x^0.2) law in layers wholly inside, '
              'never lowering the depth. Pressure classes inside/above/below/on-a-layer/unset/inverted/outside/below 1 Pa '
              'are required to be observed.')
LEVEL_NOTE = 'Trusted: the standard log-spaced grid (levels, geometric-mean layer pressures; itself checked against the model here and in C11).'
TECHNIQUE = 'call taps on paired with/without executions + bounds-check sanitizer + pressure-window oracle from the statement'
