"""C01 -- the transmission spectrum equals the documented transit-depth integral.

Monitors
  * tap on TransmissionModel.path_integral: snapshots geometry, density and every
    contribution's prepared sigma BEFORE the call, records depth/exp(-tau)/path_length after.
  * tap on every Contribution.contribute (outermost activation): which contributions were
    actually integrated for which layer -> the tau>10 early exit is observed, not inferred.
  * all numba kernels run under NUMBA_BOUNDSCHECK=1 (an IndexError is a violation).
Oracle: refmodel (independent chords, slant optical depth, depth integral) + metamorphic relations.
"""
import numpy as np

from vmon import own
from vmon import faults
from vmon import refmodel as R
from vmon import taps, world

PROPERTY = 'C01'
RULE = ('synthetic worlds (planet, star, 2..100 layers, 2-12 pressure decades, every temperature/gas profile kind, '
        'in-memory opacity tables of four magnitude classes, subsets of Absorption/CIA/Rayleigh/FlatMie/LeeMie/'
        'SimpleClouds, both path methods) from a seeded generator; a case is non-trivial when its model ran and '
        'returned a spectrum; distinct = distinct (nlayers, method, magnitude, contributions, T kind, planet) tuples')
ASSUMPTIONS = [
    'chord conventions per path method are read from the pinned code (old: tangent Rp+dz0/2+z_i, shells '
    'Rp+dz0/2+z_j+dz_j/2; new: shells at layer boundaries, tangent at mid-layer); a re-discretisation must update them',
    'the oracle takes each contribution\'s prepared per-layer sigma as input (its correctness is C03/C04/C19)',
]
_Q = {'abs': 120, 'mono': 25, 'big': 4, 'long': 2, 'sweep': 1, 'rerun': 60, 'several': 30, 'components': 25}
_T = {'abs': 2500, 'mono': 600, 'big': 60, 'long': 30, 'sweep': 8, 'rerun': 1200, 'several': 500, 'components': 400}
BUDGET = {
    'quick': [dict(name='boundscheck', env={'NUMBA_BOUNDSCHECK': '1'}, shards=4, cases=_Q)],
    'thorough': [dict(name='boundscheck', env={'NUMBA_BOUNDSCHECK': '1'}, shards=16, cases=_T),
                 dict(name='nojit', env={'NUMBA_DISABLE_JIT': '1'}, shards=4, cases={'abs': 150, 'mono': 30, 'rerun': 60, 'several': 30})],
}
REQUIRED = dict(monitors=['chords', 'exp(-tau)', 'depth', 'depth>=bare', 'depth<=opaque', 'transparent==bare',
                          'scaling-monotone', 'early-exit-licensed', 'chords-sum-to-full-chord',
                          'earlier-result-stays-as-returned'],
                classes=['method:new', 'method:old', 'magnitude:transparent', 'magnitude:saturating',
                         'early-exit-observed', 'contrib:CIA', 'contrib:Rayleigh', 'contrib:SimpleClouds',
                         'contrib:FlatMie', 'contrib:LeeMie', 'nlayers:2', 'rerun:evaluated-after-change',
                         'fault:fired:temperature', 'fault:fired:chemistry', 'fault:fired:contribution', 'fault:fired:pressure',
                         'several:evaluation-judged', 'wn-dtype:i', 'components:judged', 'T-route:mixin', 'chemistry:makefree+file',
                         'rerun:deepcopy', 'rerun:original-judged-after-its-copy-was-used', 'components:live-model-judged', 'rerun:planet-radius-given-in-other-units', 'grid:thousands-of-points', 'history:one-model-dozens-of-geometries-earlier-ones-again'])
TOL = 1e-10
CUT = float(np.exp(-10.0))

_state = {}


def classify(f):
    return None


def setup(ctx):
    from taurex.model import TransmissionModel
    faults.install(ctx)
    from taurex.contributions import Contribution, AbsorptionContribution, CIAContribution, SimpleCloudsContribution
    problems = R.self_test()
    if problems:
        ctx.note('refmodel_selftest', problems)
        ctx.check('refmodel-selftest', False, problems=problems)

    def before_pi(self, a, kw):
        snap = {
            'z': np.array(self.altitudeProfile, dtype=float), 'zb': np.array(self.altitude_boundaries, dtype=float),
            'dz': np.array(self.deltaz, dtype=float), 'rho': np.array(self.densityProfile, dtype=float),
            'Rp': float(self.planet.fullRadius), 'Rs': float(self.star.radius), 'n': int(self.nLayers),
            'new': bool(self.new_method),
            'contribs': [(c.name, type(c).__name__, np.array(c.sigma_xsec, dtype=float)) for c in self.contribution_list],
            'calls': [],
        }
        _state['snap'] = snap
        ctx.event('tap:path_integral')
        return snap

    def after_pi(self, a, kw, res, exc, snap):
        if exc is None:
            snap['absorption'] = np.array(res[0], dtype=float)
            snap['trans'] = np.array(res[1], dtype=float)
            snap['path_length'] = [np.array(p, dtype=float) for p in self.path_length]

    taps.tap(TransmissionModel, 'path_integral', before_pi, after_pi)

    def before_contrib(self, a, kw):
        snap = _state.get('snap')
        if snap is not None:
            # contribute(model, start, end, density_offset, layer, density, tau, path_length=)
            layer = a[4]
            tau = a[6]
            snap['calls'].append((int(layer), self.name, float(np.min(tau[layer]))))
        ctx.event('tap:contribute')
    for c in (Contribution, AbsorptionContribution, CIAContribution, SimpleCloudsContribution):
        taps.tap(c, 'contribute', before_contrib, None, outermost=True)


def teardown(ctx):
    taps.untap_all()
    faults.uninstall()


# ---------------------------------------------------------------- generators
def pick_contribs(rng, spec, force=None):
    names = ['Absorption']
    pool = ['CIA', 'Rayleigh', 'FlatMie', 'LeeMie', 'SimpleClouds']
    k = rng.integers(0, 4)
    chosen = [str(x) for x in rng.choice(pool, k, replace=False)]
    if force:
        chosen = list(set(chosen) | set(force))
    lp0, lp1 = np.log10(spec['pmin']), np.log10(spec['pmax'])
    out = []
    for n in names + chosen:
        if n == 'CIA':
            pairs = ['H2-H2'] + (['H2-He'] if 'He' in spec['fill_gases'] and rng.random() < 0.6 else [])
            out.append({'name': 'CIA', 'cia_pairs': pairs})
        elif n == 'SimpleClouds':
            out.append({'name': 'SimpleClouds', 'clouds_pressure': float(10 ** rng.uniform(lp0 - 1, lp1 + 1))})
        elif n == 'FlatMie':
            b, t = (float(10 ** rng.uniform(lp0 - 1, lp1 + 1)) for _ in range(2))
            if rng.random() < 0.3:
                b = -1
            if rng.random() < 0.3:
                t = -1
            out.append({'name': 'FlatMie', 'flat_mix_ratio': float(10 ** rng.uniform(-40, -20)),
                        'flat_bottomP': b, 'flat_topP': t})
        elif n == 'LeeMie':
            b, t = sorted((float(10 ** rng.uniform(lp0 - 1, lp1 + 1)) for _ in range(2)), reverse=True)
            if rng.random() < 0.3:
                b = -1
            if rng.random() < 0.3:
                t = -1
            out.append({'name': 'LeeMie', 'lee_mie_radius': float(10 ** rng.uniform(-3, 0.5)),
                        'lee_mie_q': float(rng.uniform(1, 100)), 'lee_mie_mix_ratio': float(10 ** rng.uniform(-16, -6)),
                        'lee_mie_bottomP': b, 'lee_mie_topP': t})
            if rng.random() < 0.35:
                out[-1]['radius_repr'] = '0-d-array'
        else:
            out.append(n)
    return out


def make_case(rng, nlayers=None, magnitude=None, nwn=None):
    """Draw worlds until the atmosphere is gravitationally bound (finite altitudes, top below 2 Rp)."""
    for _ in range(50):
        spec = world.random_world_spec(rng, nlayers=nlayers, magnitude=magnitude, nwn=nwn)
        spec['contributions'] = pick_contribs(rng, spec)
        spec['new_method'] = bool(rng.random() < 0.5)
        spec['cia_magnitude'] = spec['magnitude']
        spec['cia_seed'] = int(rng.integers(0, 2 ** 31))
        if rng.random() < 0.1:
            world.make_free_route(rng, spec)         # composition by the ``makefree+file`` route
        if world.is_bound(spec):
            return spec
    raise RuntimeError('generator could not draw a bound atmosphere')


def realise(spec, scale=1.0):
    """(Re)install the world's opacity data into the caches and build a fresh model."""
    world.reset_caches()
    world.install_opacities(spec, scale=scale)
    pairs = []
    for c in spec['contributions']:
        if not isinstance(c, str) and c['name'] == 'CIA':
            pairs = c['cia_pairs']
    if pairs:
        wn = next(iter(spec['tables'].values()))['wn']
        cias = world.install_cia(np.random.default_rng(spec['cia_seed']), pairs, wn, spec['cia_magnitude'])
        if scale != 1.0:
            for o in cias.values():
                o._x = o._x * scale
    model = world.build_model(spec, 'transmission', new_path_method=spec['new_method'])
    world.add_contributions(model, spec)
    return model


def run_model(ctx, model, build=True):
    from taurex.exceptions import InvalidModelException
    _state['snap'] = None
    try:
        if build:
            model.build()
        wn, depth, trans, _ = model.model()
    except InvalidModelException as e:
        # only the Guillot profile can reject the atmospheres this generator draws
        if model.temperature.__class__.__name__ != 'Guillot2010':
            raise
        ctx.license(type(e).__name__)
        return None
    snap = _state['snap']
    _state['snap'] = None
    snap['wn'] = np.array(wn)
    snap['depth'] = np.array(depth, dtype=float)
    snap['ret_trans'] = np.array(trans, dtype=float)
    snap['raw'] = (wn, depth, trans)            # the very objects the call returned (for the ownership ledger)
    return snap


# -------------------------------------------------------------------- oracle
def oracle(ctx, snap, spec):
    n, Rp, Rs = snap['n'], snap['Rp'], snap['Rs']
    z, zb, dz, rho = snap['z'], snap['zb'], snap['dz'], snap['rho']
    nwn = len(snap['wn'])
    # (i) chords
    if snap['new']:
        want = R.path_lengths_new(Rp, zb, z + dz / 2.0)
        ctol = 1e-9     # the 3-D line/sphere construction subtracts numbers ~4*(Rp+z); measured residual reported
    else:
        want = R.path_lengths_old(Rp, z, dz)
        ctol = 1e-10
    got = snap['path_length']
    ok = ctx.check('chords-count', len(got) == n and all(len(got[i]) == n - i for i in range(n)),
                   lens=[len(g) for g in got], n=n)
    if not ok:
        return None
    scale = float(np.max(want[0]))
    for i in range(n):
        ctx.close('chords', got[i], want[i], ctol, atol=ctol * scale * 1e-3, layer=i, method='new' if snap['new'] else 'old')
    ctx.check('chords-positive', all(np.all(g > 0) for g in got))
    # method-independent: chords of one ray sum to the full chord through the outermost shell it uses
    for i in range(n):
        if snap['new']:
            b, rout = Rp + z[i] + dz[i] / 2.0, Rp + zb[-1]
        else:
            b, rout = Rp + dz[0] / 2.0 + z[i], Rp + dz[0] / 2.0 + z[-1] + dz[-1] / 2.0
        ctx.close('chords-sum-to-full-chord', float(np.sum(got[i])), 2.0 * np.sqrt(rout * rout - b * b), 1e-7)
    # (ii) optical depth, using exactly the contributions the taps saw integrated per layer
    called = {}
    for layer, name, tmin in snap['calls']:
        called.setdefault(layer, []).append((name, tmin))
    names = [c[0] for c in snap['contribs']]
    tau = np.zeros((n, nwn))
    tau_full = np.zeros((n, nwn))
    skipped_layers = []
    for i in range(n):
        seen = [nm for nm, _ in called.get(i, [])]
        # the contributions integrated for a layer must be a prefix of the (ordered) contribution list
        ctx.check('early-exit-prefix', seen == names[:len(seen)], layer=i, seen=seen, names=names)
        for k, (nm, kls, sig) in enumerate(snap['contribs']):
            if kls == 'SimpleCloudsContribution':
                t = sig[i].copy()
            elif kls == 'CIAContribution':
                t = np.zeros(nwn)
                for j in range(i, n):
                    t += sig[j] * rho[j] * rho[j] * want[i][j - i]
            else:
                t = np.zeros(nwn)
                for j in range(i, n):
                    t += sig[j] * rho[j] * want[i][j - i]
            tau_full[i] += t
            if k < len(seen):
                tau[i] += t
            elif k == len(seen):
                # first skipped contribution: licensed only if the partial depth already exceeds 10 everywhere
                skipped_layers.append(i)
                ctx.observe('early-exit-observed')
                ctx.check('early-exit-licensed', np.min(tau[i]) > 10.0, layer=i, partial_min=float(np.min(tau[i])),
                          skipped=nm)
        if len(seen) == len(names):
            ctx.check('early-exit-licensed', True)
    with np.errstate(over='ignore'):
        want_trans = np.exp(-tau)
    # compare transmittances; chords carry ctol so tau carries it too: d(exp(-tau)) <= tau*ctol*exp(-tau) <= ctol/e
    ttol = 4 * ctol
    ctx.close('exp(-tau)', snap['ret_trans'], want_trans, TOL, atol=ttol, method='new' if snap['new'] else 'old')
    # (iii) depth
    want_depth = R.transit_depth(Rp, Rs, z, dz, tau)
    atm = 2.0 * float(np.sum((Rp + z) * dz)) / Rs ** 2
    ctx.close('depth', snap['depth'], want_depth, TOL, atol=ttol * atm, nlayers=n)
    # deviation from the un-truncated integral is bounded by the licence
    full_depth = R.transit_depth(Rp, Rs, z, dz, tau_full)
    allow = 2.0 * float(np.sum([(Rp + z[i]) * dz[i] for i in skipped_layers])) * CUT / Rs ** 2
    ctx.check('depth-within-cutoff-of-full-integral',
              np.all(np.abs(snap['depth'] - full_depth) <= allow + TOL * np.abs(full_depth) + ttol * atm),
              maxdev=float(np.max(np.abs(snap['depth'] - full_depth))), allow=allow)
    # (iv) consequences
    bare = (Rp / Rs) ** 2
    opaque = bare + atm
    ctx.check('depth>=bare', np.all(snap['depth'] >= bare * (1 - 1e-13)), min=float(np.min(snap['depth'])), bare=bare)
    ctx.check('depth<=opaque', np.all(snap['depth'] <= opaque * (1 + 1e-13)), max=float(np.max(snap['depth'])), opaque=opaque)
    return {'tau_full': tau_full, 'skipped': skipped_layers, 'atm': atm, 'bare': bare, 'opaque': opaque}


def observe_case(ctx, spec):
    ctx.observe('wn-dtype:' + next(iter(spec['tables'].values()))['wn'].dtype.kind)
    ctx.observe('T-route:mixin' if spec['temperature'].get('scale') else 'T-route:plain')
    ctx.observe('chemistry:makefree+file' if spec.get('makefree') else 'chemistry:free')
    ctx.observe('method:new' if spec['new_method'] else 'method:old', 'magnitude:' + spec['magnitude'],
                'nlayers:%d' % spec['nlayers'], 'T:' + spec['temperature']['kind'])
    for c in spec['contributions']:
        ctx.observe('contrib:' + (c if isinstance(c, str) else c['name']))
    for g in spec['gases']:
        ctx.observe('gas:' + g['kind'])
    ctx.feature(summary=world.spec_summary(spec), new_method=spec['new_method'])


# ----------------------------------------------------------------- workloads
def wl_abs(ctx, rng, **kw):
    spec = make_case(rng, **kw)
    observe_case(ctx, spec)
    model = realise(spec)
    snap = run_model(ctx, model)
    if snap is None:
        ctx.event('invalid-model-licensed')
        return
    res = oracle(ctx, snap, spec)
    if res is None:
        return
    only_tables = all((c if isinstance(c, str) else c['name']) in ('Absorption',) for c in spec['contributions'])
    if spec['magnitude'] == 'transparent' and only_tables:
        # nothing absorbs -> bare planet (1e-60 cm^2 tables: tau < 1e-20)
        ctx.close('transparent==bare', snap['depth'], np.full_like(snap['depth'], res['bare']), 1e-12)
    ctx.sig(spec['nlayers'], spec['new_method'], spec['magnitude'], tuple(world.spec_summary(spec)['contributions']),
            spec['temperature']['kind'], round(spec['planet_mass'], 6), round(spec['planet_radius'], 6))
    ctx.sample({'world': world.spec_summary(spec), 'method': 'new' if spec['new_method'] else 'old',
                'depth_minmax': [float(snap['depth'].min()), float(snap['depth'].max())], 'bare': res['bare'],
                'opaque': res['opaque'], 'layers_with_early_exit': len(res['skipped'])})
    return spec, snap, res


def wl_big(ctx, rng):
    return wl_abs(ctx, rng, nlayers=int(rng.choice([60, 100])), nwn=int(rng.integers(3, 12)))


def wl_long(ctx, rng):
    """Spectral grids well above what small cases use (thousands to tens of thousands of points, never a round
    number): blocked or chunked loops over wavenumber have a last, partial block."""
    n = int(10 ** rng.uniform(3.62, 4.5)) | 1
    ctx.observe('grid:thousands-of-points')
    return wl_abs(ctx, rng, nlayers=int(rng.choice([2, 3, 5, 8])), nwn=n)


def wl_mono(ctx, rng):
    """Scaling every cross-section up never lowers the depth (to within the cut-off); transparent tables give bare."""
    spec = make_case(rng, magnitude=['thin', 'mixed', 'saturating'][rng.integers(0, 3)])
    observe_case(ctx, spec)
    base = run_model(ctx, realise(spec))
    if base is None:
        return
    oracle(ctx, base, spec)
    n = base['n']
    atm_cut = 2.0 * float(np.sum((base['Rp'] + base['z']) * base['dz'])) * CUT / base['Rs'] ** 2
    prev = base['depth']
    for s in (2.0, 10.0, 1e3):
        snap = run_model(ctx, realise(spec, scale=s))
        if snap is None:
            return
        oracle(ctx, snap, spec)
        ctx.check('scaling-monotone', np.all(snap['depth'] >= prev - atm_cut - 1e-13 * np.abs(prev)), scale=s,
                  worst=float(np.min(snap['depth'] - prev)), allow=atm_cut)
        prev = snap['depth']
    # the same atmosphere with fully transparent tables and no other absorber returns the bare planet
    tspec = dict(spec)
    tspec['contributions'] = ['Absorption']
    tspec['interpolation'] = 'linear'      # exact zeros: outside the exp formula's domain
    snap0 = run_model(ctx, realise(tspec, scale=0.0))
    if snap0 is not None:
        ctx.observe('magnitude:transparent')
        ctx.close('transparent==bare', snap0['depth'], np.full_like(snap0['depth'], (base['Rp'] / base['Rs']) ** 2), 1e-13)
    ctx.sig('mono', spec['nlayers'], spec['new_method'], spec['magnitude'], round(spec['planet_radius'], 6))


def perturb_model(rng, model, max_changes=3):
    """Change a few fitting parameters of a built model through the public model[name] = value route, the way a
    retrieval does between two evaluations.  Returns the list of (name, old, new)."""
    names = [n for n, t in model.fittingParameters.items()
             if isinstance(t[2](), float) and n not in ('nlayers', 'planet_distance', 'planet_sma')]
    out = []
    for n in rng.choice(names, min(len(names), int(rng.integers(1, max_changes + 1))), replace=False):
        n = str(n)
        old = model[n]
        if rng.random() < 0.25 and old != 0:
            # a move in a late digit (a sampler near convergence, a finite-difference step): still a different atmosphere
            new = old * (1.0 + float(rng.choice([-1, 1])) * float(10 ** rng.uniform(-9, -5.3)))
            model[n] = new
            out.append((n, old, new))
            continue
        if n in ('atm_min_pressure', 'atm_max_pressure'):
            new = old * float(10 ** rng.uniform(-0.5, 0.5))
        elif n == 'T_scale':
            new = float(np.clip(old * rng.uniform(0.8, 1.2), 0.5, 1.6))         # the TempScaler mixin's factor
        elif n == 'T' or n.startswith('T_'):
            new = float(np.clip(old * rng.uniform(0.6, 1.5), 120.0, 3200.0))
        elif n in ('planet_mass', 'planet_radius'):
            new = old * float(rng.uniform(0.9, 1.2))
        elif 0 < old < 1:
            new = float(min(old * 10 ** rng.uniform(-1, 0.5), 0.15))      # mixing ratios, ratios, alpha, kappas
        else:
            new = old * float(10 ** rng.uniform(-0.3, 0.3))
        model[n] = new
        out.append((n, old, new))
    if rng.random() < 0.12 and hasattr(model.planet, 'set_planet_radius'):
        # the planet's radius given in another unit through the public set_planet_radius(value, unit); the SI value it
        # stands for is computed here from IAU 2015 nominal values (not from the package)
        unit, si = [('Rjup', 7.1492e7), ('Rearth', 6.3781e6), ('earthRad', 6.3781e6), ('km', 1e3), ('m', 1.0), ('Rsun', 6.957e8)][rng.integers(0, 6)]
        old_m = float(model.planet.fullRadius)
        target = old_m * float(rng.uniform(0.95, 1.1))
        model.planet.set_planet_radius(target / si, unit)
        out.append(('planet radius given in ' + unit, old_m, target))
    if rng.random() < 0.15 and hasattr(type(model.star), 'temperature'):
        # the star has no fitting parameter of its own; its temperature has a public setter
        old = float(model.star.temperature)
        new = float(np.clip(old * rng.uniform(0.7, 1.3), 2300.0, 11000.0))
        model.star.temperature = new
        out.append(('star.temperature', old, new))
    return out


def wl_rerun(ctx, rng):
    """The same model object evaluated repeatedly with changed parameters (what a retrieval does): every
    evaluation must satisfy the integral for the atmosphere it has at that moment -- no state may survive."""
    from taurex.exceptions import InvalidModelException
    spec = make_case(rng, nwn=int(rng.integers(3, 15)))
    observe_case(ctx, spec)
    ctx.observe('rerun')
    model = realise(spec)
    snap = run_model(ctx, model)
    if snap is None:
        return
    oracle(ctx, snap, spec)
    # the caller keeps what each evaluation returned while the same model is evaluated again (a sweep appending its
    # spectra to a list): an earlier result must stay what it was
    led = own.Ledger(ctx, 'rerun')
    for a_, l_ in zip(snap['raw'], ('grid', 'depth', 'transmittance')):
        led.keep(a_, l_ + '[0]')
    changes_all = []
    originals = []
    for k in range(int(rng.integers(1, 4))):
        if rng.random() < 0.3:
            # another route to a model: ``copy.deepcopy`` of the live one (a reference kept aside before a scan); the
            # workload goes on with the COPY, the original is evaluated and judged once more at the end
            import copy
            originals.append(model)
            model = copy.deepcopy(model)
            ctx.observe('rerun:deepcopy')
        changes = perturb_model(rng, model)
        changes_all.append([(n, float(a), float(b)) for n, a, b in changes])
        ctx.feature(summary=world.spec_summary(spec), new_method=spec['new_method'], changes=changes_all)
        if rng.random() < 0.4:
            # a rejected evaluation in between (what a sampler produces all the time): an InvalidModelException is
            # injected at a profile / chemistry / contribution call; the evaluation after it is judged as usual
            site = faults.drive_into(ctx, rng, model.model)
            if site == 'rejected':
                return
            if site:
                changes_all[-1].append(('fault:' + site, 0.0, 0.0))
        _state['snap'] = None
        try:
            wn, depth, trans, _ = model.model()
        except InvalidModelException as e:
            ctx.license(type(e).__name__)     # a perturbed atmosphere may legitimately be rejected
            return
        except TypeError:
            zb = np.asarray(model.altitude_boundaries, dtype=float)
            ctx.feature(zb_finite=bool(np.all(np.isfinite(zb))), zb_top=float(zb[-1]), Rp=float(model.planet.fullRadius),
                        dz_min=float(np.min(model.deltaz)))
            raise
        s2 = _state['snap']
        _state['snap'] = None
        if not np.all(np.isfinite(s2['zb'])) or s2['zb'][-1] > 2.0 * s2['Rp']:
            ctx.event('domain-skip:perturbed-atmosphere-unbound')
            return
        s2['wn'] = np.array(wn)
        s2['depth'] = np.array(depth, dtype=float)
        s2['ret_trans'] = np.array(trans, dtype=float)
        ctx.observe('rerun:evaluated-after-change')
        oracle(ctx, s2, spec)
        for nm_, _, tgt_ in changes:
            if nm_.startswith('planet radius given in '):
                ctx.observe('rerun:planet-radius-given-in-other-units')
                ctx.close('planet-radius-is-what-was-given', s2['Rp'], tgt_, 2e-5, unit=nm_.split()[-1])
        led.settle('evaluation %d of the same model' % (k + 1))
        for a_, l_ in zip((wn, depth, trans), ('grid', 'depth', 'transmittance')):
            led.keep(a_, '%s[%d]' % (l_, k + 1))
    for m in originals:
        so = run_model(ctx, m, build=False)
        if so is not None and np.all(np.isfinite(so['zb'])) and so['zb'][-1] <= 2.0 * so['Rp']:
            ctx.observe('rerun:original-judged-after-its-copy-was-used')
            oracle(ctx, so, spec)
    led.settle('all evaluations')
    ctx.sig('rerun', spec['nlayers'], spec['new_method'], spec['magnitude'], tuple(n for ch in changes_all for n, _, _ in ch),
            round(spec['planet_mass'], 6))
    ctx.sample({'workload': 'rerun', 'world': world.spec_summary(spec), 'changes': changes_all})


def wl_sweep(ctx, rng):
    """A long history on ONE model object (a parameter scan, a retrieval): dozens to hundreds of evaluations with the planet
    mass (and so the whole altitude grid) changing every time, earlier values coming back in between and at the end.  Every
    evaluation is judged by the oracle for the atmosphere the model has at that moment."""
    from taurex.exceptions import InvalidModelException
    spec = make_case(rng, nlayers=int(rng.choice([2, 3, 5])), nwn=int(rng.integers(3, 8)))
    observe_case(ctx, spec)
    model = realise(spec)
    snap = run_model(ctx, model)
    if snap is None:
        return
    oracle(ctx, snap, spec)
    m0 = float(model['planet_mass'])
    n = int(rng.integers(60, 100)) if ctx.tier == 'quick' else int(rng.integers(150, 500))
    values = [m0 * float(rng.uniform(1.0, 1.8)) for _ in range(n)]
    seq = []
    for j, v in enumerate(values):
        seq.append(v)
        if j % 4 == 3:
            seq.append(values[int(rng.integers(0, max(j // 2, 1)))])
    seq += [values[int(k)] for k in rng.integers(0, n, 14)]          # (from anywhere in the history)
    judged = 0
    for v in seq:
        model['planet_mass'] = v
        _state['snap'] = None
        try:
            wn, depth, trans, _ = model.model()
        except InvalidModelException as e:
            ctx.license(type(e).__name__)
            continue
        s2 = _state['snap']
        _state['snap'] = None
        if s2 is None or not np.all(np.isfinite(s2['zb'])) or s2['zb'][-1] > 2.0 * s2['Rp']:
            ctx.event('domain-skip:perturbed-atmosphere-unbound')
            continue
        s2['wn'], s2['depth'], s2['ret_trans'] = np.array(wn), np.array(depth, dtype=float), np.array(trans, dtype=float)
        oracle(ctx, s2, spec)
        judged += 1
    if judged > 50:
        ctx.observe('history:one-model-dozens-of-geometries-earlier-ones-again')
    ctx.sig('sweep', spec['nlayers'], spec['new_method'], spec['magnitude'], len(seq), round(spec['planet_mass'], 6))


def build_more(spec):
    """Another model on the world that is already installed in the caches (no reset)."""
    model = world.build_model(spec, 'transmission', new_path_method=spec['new_method'])
    world.add_contributions(model, spec)
    return model


def wl_several(ctx, rng):
    """Several model objects alive in one process and evaluated in turn (a script comparing set-ups, a notebook, the
    retrieval and the post-processing model): the same world with the other path method, with another planet radius,
    another temperature, another subset of contributions.  Every evaluation is judged by the oracle for ITS model --
    nothing may leak from one object to another (class attributes, module-level caches, shared buffers)."""
    spec = make_case(rng, nwn=int(rng.integers(3, 15)))
    observe_case(ctx, spec)
    variants = [spec, dict(spec, new_method=not spec['new_method'])]
    for _ in range(int(rng.integers(0, 3))):
        k = rng.integers(0, 3)
        v = dict(variants[int(rng.integers(0, len(variants)))])
        if k == 0:
            v['planet_radius'] = float(v['planet_radius'] * rng.uniform(1.0, 1.3))
        elif k == 1 and v['temperature']['kind'] == 'isothermal':
            v['temperature'] = dict(v['temperature'], T=float(v['temperature']['T'] * rng.uniform(0.7, 1.0)))
        elif len(v['contributions']) > 1:
            v['contributions'] = list(v['contributions'][:-1])
        if world.is_bound(v):
            variants.append(v)
    models = [realise(variants[0])] + [build_more(v) for v in variants[1:]]
    built = [False] * len(models)
    seq = [int(i) for i in rng.permutation(len(models))] + [int(i) for i in rng.integers(0, len(models), int(rng.integers(2, 5)))]
    ctx.feature(summary=world.spec_summary(spec), nmodels=len(models), sequence=seq,
                methods=[v['new_method'] for v in variants])
    for i in seq:
        snap = run_model(ctx, models[i], build=not built[i])
        built[i] = True
        if snap is None:
            return
        oracle(ctx, snap, variants[i])
        ctx.observe('several:evaluation-judged')
    ctx.observe('several:models=%d' % len(models))
    ctx.sig('several', spec['nlayers'], len(models), tuple(seq), spec['magnitude'], round(spec['planet_mass'], 6))


def wl_components(ctx, rng):
    """tau is the sum of CROSS-SECTION x number density x chord length: here the cross-section every contribution
    prepares is itself judged (sum of its components; component = tabulated cross-section x mixing ratio, x1 x2 for
    collision pairs) with the component monitors of C03, on worlds with several CIA pairs, exact zeros and several
    contributions, before the integral is judged as usual."""
    from vmon.props import c03
    c03.install_component_taps(ctx)
    which = [c03.wl_cia_pairs, c03.wl_compose, c03.wl_live][rng.integers(0, 3)]
    which(ctx, rng)
    if which is c03.wl_live:
        ctx.observe('components:live-model-judged')     # abundances written on a live model, evaluated without rebuild
    ctx.observe('components:judged')


WORKLOADS = {'abs': wl_abs, 'mono': wl_mono, 'big': wl_big, 'long': wl_long, 'sweep': wl_sweep, 'rerun': wl_rerun, 'several': wl_several,
             'components': wl_components}

LEVEL_TEXT = ('Exploration by runtime monitoring: every TransmissionModel.path_integral call made by the workload is '
              'tapped (geometry, density, each contribution\'s prepared sigma before; depth, exp(-tau), chord lengths '
              'after) and every Contribution.contribute call is counted per layer, so the tau>10 early exit is observed '
              'and must be licensed; an independent loop implementation of chords, slant optical depth and the depth '
              'integral judges each execution to 1e-10, with metamorphic checks (bare/opaque bounds, transparent=bare, '
              'monotone under scaling). All kernels run under NUMBA_BOUNDSCHECK=1; the thorough tier repeats a slice '
              'with the JIT disabled. Results the caller keeps and work arrays it re-uses are followed by an ownership ledger (vmon/own.py). Held = held on the recorded executions.')
LEVEL_NOTE = ('Trusted: the reference loops in vmon/refmodel.py (self-tested on closed forms each run); chord conventions '
              'per path method as read from the pinned code; sigma per contribution is taken as given (decided by C03/C04/C19).')
TECHNIQUE = 'call taps on path_integral/contribute + numba bounds-check sanitizer + independent transit-integral reference model'
