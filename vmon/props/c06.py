"""C06 -- every wrapped sampler is handed the Gaussian log-likelihood of the binned model.

Monitors
  * the three sampler entry points are the observation boundary: ``pymultinest.run`` and
    ``pypolychord.run_polychord`` are recording doubles (vmon/doubles, on sys.path for this check only),
    ``nestle.sample`` is replaced by a recording stand-in.  Each records the callbacks it was handed and drives them,
    in the library's own calling convention, over a scripted sequence of cube points chosen by the workload:
    (u, prior output, log-likelihood | exception) per point.  The TauREx wrappers run unmodified.
  * fail points (taps on TemperatureProfile.initialize_profile, TaurexChemistry.initialize_chemistry,
    Contribution.prepare / AbsorptionContribution.prepare) raise InvalidModelException on the k-th call of one scripted
    evaluation, on the monitored model only.
  * diagnosis taps on Optimizer.chisq_trans and Binner.bin_model (what the code itself computed; used to recognise the
    exact-fit mechanism, never as the oracle).
Oracle
  * prior callback == [F_i^{-1}(u_i)] from the DECLARED priors, in the order of the fitted parameters;
  * log-likelihood == -sum ln(sigma sqrt(2 pi)) - chi2/2 with the model of a SHADOW: a fresh, independently built
    instance of the same world, parameters set through ``model[name] = value`` (10**theta for log-space priors),
    evaluated on the full native grid and binned with refmodel.overlap_mean onto the designed observation bins;
  * invalid vectors (decided from the declared values: a constant gas above 1, an N-point pressure node at/above the
    bottom node, Guillot with kappa_irr = 0 or a negative T_irr) and evaluations with a fired fail point: the callback
    returns, and what it returns is not finite;
  * the same vector evaluated twice in one sequence (with invalid vectors / fail points in between) gives the same value.
"""
import math

import numpy as np

from vmon import lib_c06 as L
from vmon import taps

PROPERTY = 'C06'
RULE = ('synthetic worlds (isothermal / N-point / Guillot temperature, constant and two-layer gases, 1..3 fill gases, '
        'Absorption [+SimpleClouds] [+Rayleigh]) on a fine linear or logarithmic native grid; observations on a regular '
        'wavenumber grid well inside it (3..40 bins, three width layouts, uniform or per-bin errors, shuffled rows); 1..5 '
        'fitted parameters from planet / temperature / chemistry / clouds with default priors from (mode, bounds) or user '
        'Uniform/LogUniform/Gaussian/LogGaussian priors, all with different numbers; per case a scripted sequence of up to 7 '
        'cube points (interior, faces, corners, invalid atmospheres, fail points, repeats) driven through one of the three '
        'sampler entry points; distinct = distinct (sampler, fitted names, prior kinds, sequence labels, world) tuples')
ASSUMPTIONS = [
    'the doubles drive the callbacks as the libraries do: MultiNest Prior(cube, ndim, nparams) in place on a C double '
    'buffer then LogLikelihood(cube, ndim, nparams); PolyChord theta[:] = prior(cube) then logL, phi[:] = loglike(theta); '
    'nestle v[:] = prior_transform(u) then loglikelihood(v)',
    'observation bins are designed in wavenumber (centre c, width w) and handed to ArraySpectrum as wavelength 1e4/c and '
    'width 1e4*w/c^2; they satisfy C13\'s width condition (regular centres, w <= spacing, native spacing <= spacing/4.5)',
    'a vector is called invalid only when a declared value alone makes it so (constant gas > 1.05, P_point1 >= 1.2 x the '
    'bottom node, kappa_irr == 0, T_irr <= -1); values between the valid range and that zone are counted, not judged',
    'valid vectors whose shadow spectrum is not finite (unbound atmosphere) and, with more than one contribution, vectors '
    'with a layer opaque over the whole observed range (C13\'s licensed tau>10 cut-off differs between the restricted '
    'and the full grid) are counted, not judged on the value',
    'Gaussian priors are driven on u in [0.01, 0.99] (u = 0 / 1 map to +-inf, no atmosphere)',
]
_Q = {'sequence': 100, 'exact': 14, 'reuse': 16, 'pair': 12, 'intobs': 6}
_T = {'sequence': 700, 'exact': 70, 'reuse': 120, 'pair': 100, 'intobs': 40}
BUDGET = {
    'quick': [dict(name='boundscheck', env={'NUMBA_BOUNDSCHECK': '1'}, shards=6, cases=_Q)],
    'thorough': [dict(name='boundscheck', env={'NUMBA_BOUNDSCHECK': '1'}, shards=16, cases=_T)],
}
REQUIRED = dict(
    monitors=['prior-callback', 'loglike-equals-gaussian', 'callback-never-raises', 'invalid-never-finite',
              'same-vector-same-value', 'sampled-space-order', 'ndim-handed-to-sampler', 'nan-model-never-finite'],
    classes=['observation:integer-array', 'history:a-hundred-points-earlier-ones-again', 'width-kind:3', 'model:nan-in-every-bin-without-rejection', 'bins:two-share-a-centre', 'callback-argument:one-buffer-refilled-in-place', 'callback-argument:fresh-per-point', 'sampler:nestle', 'sampler:multinest', 'sampler:polychord',
             'prior:mode-linear', 'prior:mode-log', 'prior:Uniform', 'prior:LogUniform', 'prior:Gaussian',
             'prior:LogGaussian', 'cube:interior', 'cube:face', 'cube:corner',
             'invalid:chem>1', 'invalid:inverted-nodes', 'invalid:guillot',
             'failpoint-fired:temperature', 'failpoint-fired:chemistry', 'failpoint-fired:contribution',
             'valid-after-invalid-judged', 'errors:uniform', 'errors:per-bin', 'rows:shuffled',
             'native:linear', 'native:log', 'exact-fit:code-residual-zero', 'ndim:1', 'ndim:5',
             'reuse:set_observed', 'reuse:settings-changed', 'reuse:fit-2-judged', 'pair:turn-judged',
             'observation-parameter-fitted'])
SAMPLERS = ['nestle', 'multinest', 'polychord']

_fp = {'armed': None}
_diag = {}
_rec = {}


def classify(f):
    w = f.get('witness', {})
    if f.get('monitor') == 'loglike-equals-gaussian' and w.get('code_residual_all_zero') is True \
            and w.get('got_is_nan') is True:
        # necessary conditions of the mechanism: the code's own binned model equals the observation bit for bit
        # (chi-square exactly 0) and the callback answered NaN
        return 'C06/exact-fit-chi2-zero'
    return None


# -------------------------------------------------------------------- setup
def setup(ctx):
    from taurex.exceptions import InvalidModelException
    _rec['R'] = L.use_doubles()
    L.install_nestle_tap()
    import taurex.optimizer.polychord  # noqa: F401  (needs the pypolychord double on the path)
    from taurex.optimizer import Optimizer
    from taurex.binning.binner import Binner
    from taurex.data.profiles.temperature.tprofile import TemperatureProfile
    from taurex.data.profiles.chemistry.taurexchemistry import TaurexChemistry
    from taurex.contributions import Contribution, AbsorptionContribution

    def failpoint(site):
        def before(self, a, kw):
            fp = _fp['armed']
            if fp is not None and fp['site'] == site and self is fp['target']:
                fp['count'] += 1
                if fp['count'] == fp['k']:
                    fp['fired'] = True
                    ctx.event('failpoint-raised:' + site)
                    raise InvalidModelException('vmon fail point (%s, call %d)' % (site, fp['k']))
        return before
    taps.tap(TemperatureProfile, 'initialize_profile', failpoint('temperature'), None, outermost=True)
    taps.tap(TaurexChemistry, 'initialize_chemistry', failpoint('chemistry'), None, outermost=True)
    taps.tap(Contribution, 'prepare', failpoint('contribution'), None, outermost=True)
    taps.tap(AbsorptionContribution, 'prepare', failpoint('contribution'), None, outermost=True)

    def after_chisq(self, a, kw, res, exc, token):
        _diag['chisq'] = None if exc is not None else res
        _diag['chisq_calls'] = _diag.get('chisq_calls', 0) + 1
    taps.tap(Optimizer, 'chisq_trans', None, after_chisq)

    def after_bin(self, a, kw, res, exc, token):
        _diag['binned'] = None if exc is not None else np.array(res[1], dtype=float, copy=True)
    taps.tap(Binner, 'bin_model', None, after_bin)


def teardown(ctx):
    taps.untap_all()
    L.remove_nestle_tap()
    L.drop_doubles()


# ---------------------------------------------------------------- fixtures
def choose_parameters(rng, cat, with_invalid, ndim=None):
    names = list(cat)
    ndim = int(ndim or rng.integers(1, 6))
    ndim = min(ndim, len(names))
    # spread over components: take the components round robin from a shuffled list
    by_comp = {}
    for n in rng.permutation(names):
        by_comp.setdefault(cat[n]['comp'], []).append(str(n))
    chosen = []
    if with_invalid:
        cap = [n for n in names if cat[n].get('invalid')]
        if cap:
            first = str(cap[rng.integers(0, len(cap))])
            chosen.append(first)
            by_comp[cat[first]['comp']].remove(first)
    comps = list(by_comp)
    i = 0
    while len(chosen) < ndim and any(by_comp.values()):
        c = comps[i % len(comps)]
        if by_comp[c]:
            chosen.append(by_comp[c].pop())
        i += 1
    return chosen


def setup_case(ctx, rng, sampler, with_invalid, tag, exact=False, ndim=None, probe_ok=False):
    """World, monitored model, declared priors (in fitted order), observation layout.
    probe_ok='force': a world in which part of the prior range of the Guillot ``alpha`` gives an atmosphere that is
    accepted but NaN (alpha above one with kappa_v1 well above kappa_v2), ``alpha`` among the fitted parameters."""
    force = probe_ok == 'force'
    spec = L.draw_world(rng, tkind='guillot' if force else None)
    if force:
        spec['temperature']['kappa_v1'] = float(spec['temperature']['kappa_v2'] * rng.uniform(5.0, 20.0))
    L.install(spec)
    model = L.build(spec)
    cat = L.catalogue(spec, model)
    if force:
        cat.pop('kappa_v1', None)
    chosen = choose_parameters(rng, cat, with_invalid, ndim)
    if force and 'alpha' in cat and 'alpha' not in chosen:
        chosen = ['alpha'] + chosen[:-1] if len(chosen) > 1 else ['alpha']
    order = [n for n in model.fittingParameters if n in chosen]
    decls = []
    for n in order:
        kind = None
        if exact:
            kind = ['mode-linear', 'Uniform', 'Gaussian', 'mode-log'][rng.integers(0, 4)]
        decls.append(L.declare_prior(rng, n, cat[n], with_invalid, kind=kind,
                                     probe_ok=('force' if (force and n == 'alpha') else bool(probe_ok)) and not exact))
    wn = next(iter(spec['tables'].values()))['wn']
    layout = L.draw_obs_layout(rng, wn)
    return spec, model, decls, layout


def observe_setup(ctx, spec, decls, layout, sampler):
    ctx.observe('sampler:' + sampler, 'native:' + spec['native_kind'], 'ndim:%d' % len(decls),
                'width-kind:%d' % layout['width_kind'], 'T:' + spec['temperature']['kind'],
                'ncontrib:%d' % len(spec['contributions']))
    if layout.get('tied_centres'):
        ctx.observe('bins:two-share-a-centre')
    for d in decls:
        ctx.observe('prior:' + d['kind'], 'component:' + d['comp'])
        if d.get('reversed'):
            ctx.observe('bounds-reversed')


def make_entry(rng, decls, kind, model=None, spec=None):
    """One scripted cube point; returns (entry, meta)."""
    D = len(decls)
    uni = [i for i, d in enumerate(decls) if d['family'] == 'uniform']
    if kind == 'interior':
        u = [L.draw_u(rng, d, 'valid') for d in decls]
        u = [min(max(x, 1e-9), 1 - 1e-9) if d['family'] == 'uniform' and d['invalid'] is None else x
             for x, d in zip(u, decls)]
    elif kind == 'face':
        u = [L.draw_u(rng, d, 'valid') for d in decls]
        i = int(rng.integers(0, D))
        u[i] = L.draw_u(rng, decls[i], ['lo', 'hi'][rng.integers(0, 2)])
    elif kind == 'corner':
        u = [L.draw_u(rng, d, ['lo', 'hi'][rng.integers(0, 2)]) for d in decls]
    elif kind == 'invalid':
        cap = [i for i, d in enumerate(decls) if d['invalid'] is not None]
        u = [L.draw_u(rng, d, 'valid') for d in decls]
        pick = [i for i in cap if rng.random() < 0.6] or [cap[rng.integers(0, len(cap))]]
        for i in pick:
            u[i] = L.draw_u(rng, decls[i], 'invalid')
    else:
        raise ValueError(kind)
    del uni
    return {'u': [float(x) for x in u]}, {'kind': kind}


def arm_failpoint(entry, meta, model, site, k):
    if site == 'temperature':
        target = model.temperature
    elif site == 'chemistry':
        target = model.chemistry
    else:
        cl = model.contribution_list
        target = cl[min(k - 1, len(cl) - 1)]
        k = 1
    fp = {'site': site, 'target': target, 'k': int(k), 'count': 0, 'fired': False}
    meta['failpoint'] = fp

    def arm():
        _fp['armed'] = fp
    entry['arm'] = arm


def with_diag(entry, meta, obs):
    """Snapshot what the code itself computed during this entry (diagnosis only)."""
    prev_arm = entry.get('arm')

    def arm():
        _diag.clear()
        if prev_arm is not None:
            prev_arm()

    def disarm():
        _fp['armed'] = None
        b = _diag.get('binned')
        meta['diag'] = {'chisq': _diag.get('chisq'), 'chisq_calls': _diag.get('chisq_calls', 0),
                        'code_residual_all_zero': bool(b is not None and b.shape == obs.spectrum.shape
                                                       and np.array_equal(b, obs.spectrum))}
    entry['arm'] = arm
    entry['disarm'] = disarm


def trivial_design(decls):
    x = np.array([[L.inv_cdf(d, u) if d['invalid'] is None else
                   d['valid'][0] + (d['valid'][1] - d['valid'][0]) * u for d in decls] for u in (0.3, 0.5, 0.7)])
    return {'samples': x, 'weights': np.array([0.2, 0.5, 0.3]), 'loglike': np.array([-3.0, -1.0, -2.0]),
            'logz': -7.5, 'logzerr': 0.2}


def run_sampler(ctx, sampler, obs, model, decls, script, tag, rng, keep=None):
    kw = {}
    if sampler == 'multinest':
        kw['search_multi_modes'] = bool(rng.random() < 0.5)
    if sampler == 'polychord':
        kw['cluster'] = True
    opt = L.make_optimizer(sampler, obs, model, ctx.scratch, tag, **kw)
    L.disable_default_fits(opt, model, obs)
    for d in decls:
        L.apply_prior(opt, d)
    if keep is not None:
        keep['opt'] = opt
    return drive(ctx, opt, sampler, decls, script, reuse_buffers=rng.random() < 0.5)


def drive(ctx, opt, sampler, decls, script, reuse_buffers=False):
    """Compile and run the (possibly re-used) optimizer; returns the recorded sampler call."""
    Rr = _rec['R']
    Rr.reset()
    Rr.script = script
    Rr.design = trivial_design(decls)
    Rr.reuse_buffers = bool(reuse_buffers)
    ctx.observe('callback-argument:' + ('one-buffer-refilled-in-place' if reuse_buffers else 'fresh-per-point'))
    opt.compile_params()
    want_names = [('log_' + d['name']) if d['space'] == 'log' else d['name'] for d in decls]
    ok = ctx.check('sampled-space-order', list(opt.fit_names) == want_names, got=list(opt.fit_names), want=want_names)
    opt.compute_fit()
    call = Rr.calls[-1]
    ctx.check('ndim-handed-to-sampler', len(Rr.calls) == 1 and call['sampler'] == sampler and call['ndim'] == len(decls),
              ncalls=len(Rr.calls), sampler=call['sampler'], ndim=call['ndim'], want=len(decls))
    return call if ok else None


# ------------------------------------------------------------------ oracle
def judge(ctx, sampler, spec, decls, layout, y, sigma, script, metas, call, obs):
    recs = call['records']
    ctx.check('script-driven-completely', len(recs) == len(script), n=len(recs), want=len(script))
    ncontrib = len(spec['contributions'])
    seen = {}            # u tuple -> (entry index, value) of un-faulted evaluations
    faults_so_far = 0
    for rec, entry, meta in zip(recs, script, metas):
        base = dict(sampler=sampler, entry=rec['entry'], kind=meta['kind'], names=[d['name'] for d in decls],
                    priors=[d['kind'] for d in decls])
        if 'u' in entry:
            want_theta = np.array([L.inv_cdf(d, u) for d, u in zip(decls, entry['u'])])
            if rec['prior_exc'] is not None:
                ctx.check('prior-callback', False, error=rec['prior_exc'], u=entry['u'], **base)
                continue
            scale = np.array([1e-12 * (abs(d['p'][0]) + abs(d['p'][1])) for d in decls])
            g = np.asarray(rec['theta'], dtype=float)
            if g.shape != want_theta.shape:
                ctx.check('prior-callback', False, got_shape=list(g.shape), want_shape=list(want_theta.shape), **base)
                continue
            for i, d in enumerate(decls):
                ctx.close('prior-callback', g[i], want_theta[i], 1e-12, atol=scale[i], u=entry['u'][i], param=d['name'],
                          prior=d['kind'], position=i, **base)
            theta = want_theta
        else:
            theta = np.array(entry['theta'], dtype=float)
        label = L.classify_vector(decls, theta)
        fp = meta.get('failpoint')
        fired = bool(fp and fp['fired'])
        if fp is not None:
            ctx.observe('failpoint-armed:' + fp['site'])
            if fired:
                ctx.observe('failpoint-fired:' + fp['site'])
        ctx.observe('cube:' + meta['kind'], 'label:' + label.split(':')[0])
        if label == 'nonfinite':
            ctx.event('domain-skip:non-finite-theta')
            continue
        diag = meta.get('diag', {})
        raised = rec['loglike_exc'] is not None
        ctx.check('callback-never-raises', not raised, error=rec['loglike_exc'], label=label, failpoint_fired=fired,
                  theta=theta, **base)
        if raised:
            faults_so_far += 1
            continue
        got = rec['loglike']
        if label.startswith('invalid:') or fired:
            if label.startswith('invalid:'):
                ctx.observe(label)
            ctx.check('invalid-never-finite', not np.isfinite(got), got=got, label=label, failpoint_fired=fired,
                      theta=theta, **base)
            faults_so_far += 1
            continue
        # un-faulted evaluation: same vector -> same value, whatever happened in between
        key = tuple(np.asarray(theta).tolist())
        if key in seen:
            k0, v0, f0 = seen[key]
            same = (got == v0) or (got != got and v0 != v0)
            ctx.check('same-vector-same-value', same, first=v0, again=got, first_entry=k0, faults_between=faults_so_far - f0,
                      theta=theta, **base)
            if faults_so_far > f0:
                ctx.observe('repeat-after-fault')
        else:
            seen[key] = (rec['entry'], got, faults_so_far)
        if label == 'gray':
            # between the valid range and a declared invalid zone nothing is known beforehand -- except this: when the
            # atmosphere at this vector is accepted but its spectrum is NaN in EVERY bin, the Gaussian log-likelihood of
            # that model is NaN, so the sampler must not be handed a finite number
            shg = L.shadow_eval(spec, [(d['name'], L.to_value(d, t)) for d, t in zip(decls, theta) if d['comp'] != 'observation'])
            if 'rejected' not in shg:
                mg, totg = L.bin_ref(shg['wn'], shg['depth'], layout['c'], layout['w'])
                if np.all(totg > 0) and not np.any(np.isfinite(mg)):
                    ctx.observe('model:nan-in-every-bin-without-rejection')
                    ctx.check('nan-model-never-finite', not np.isfinite(got), got=got, theta=theta, **base)
                    continue
            ctx.event('domain-skip:between-valid-and-invalid-zone')
            continue
        sh = L.shadow_eval(spec, [(d['name'], L.to_value(d, t)) for d, t in zip(decls, theta) if d['comp'] != 'observation'],
                            restricted_to=np.sort(layout['c']) if ncontrib > 1 else None)
        y_here = y + sum(L.to_value(d, t) for d, t in zip(decls, theta) if d['name'] == 'obs_offset')
        if 'rejected' in sh:
            ctx.check('shadow-accepts-valid-vector', False, rejected=sh['rejected'], theta=theta, **base)
            continue
        ctx.check('shadow-accepts-valid-vector', True)
        m, tot = L.bin_ref(sh['wn'], sh['depth'], layout['c'], layout['w'])
        if not (np.all(np.isfinite(sh['depth'])) and np.all(np.isfinite(m))):
            ctx.event('domain-skip:shadow-spectrum-not-finite')
            continue
        if not np.all(tot > 0):
            ctx.check('observation-inside-native-grid', False, **base)
            continue
        if sh.get('cutoff_differs'):
            ctx.event('domain-skip:licensed-tau-cutoff-differs')
            continue
        want, norm, chi2, r = L.gaussian_loglike(y_here, m, sigma)
        atol = L.loglike_tolerance(y_here, m, sigma, norm, chi2)
        ctx.close('loglike-equals-gaussian', got, want, 0.0, atol=atol, chi2=chi2, norm=norm, label=label, theta=theta,
                  code_chisq=diag.get('chisq'), code_residual_all_zero=diag.get('code_residual_all_zero'),
                  got_is_nan=bool(got != got), faults_before=faults_so_far, **base)
        if faults_so_far:
            ctx.observe('valid-after-invalid-judged')
        if diag.get('code_residual_all_zero'):
            ctx.observe('exact-fit:code-residual-zero')


# --------------------------------------------------------------- workloads
def wl_sequence(ctx, rng):
    sampler = SAMPLERS[(ctx.case['index'] + ctx.shard) % 3]
    with_invalid = bool(rng.random() < 0.65)
    ndim = [1, 5, None, None, None][ctx.case['index'] % 5]
    tag = 'seq%d' % ctx.case['index']
    # every sixth case: a world built so that part of a prior range is accepted-but-NaN (see setup_case)
    spec, model, decls, layout = setup_case(ctx, rng, sampler, with_invalid, tag, ndim=ndim,
                                            probe_ok='force' if ctx.case['index'] % 6 == 3 else True)
    if layout is None:
        ctx.event('domain-skip:no-layout-with-width-condition')
        return
    truth = L.shadow_eval(spec, [])
    if 'rejected' in truth or not np.all(np.isfinite(truth['depth'])):
        ctx.event('domain-skip:truth-not-a-valid-atmosphere')
        return
    mt, tot = L.bin_ref(truth['wn'], truth['depth'], layout['c'], layout['w'])
    K = layout['K']
    s0 = float(np.mean(mt)) * 10 ** rng.uniform(-4.0, -1.5)
    if rng.random() < 0.5:
        sigma = np.full(K, s0)
        ctx.observe('errors:uniform')
    else:
        sigma = s0 * rng.uniform(0.4, 2.5, K)
        ctx.observe('errors:per-bin')
    y = mt + sigma * rng.normal(0, 1, K) * float(rng.choice([0.3, 1.0, 3.0]))
    shuffle = bool(rng.random() < 0.7)
    with_offset = bool(rng.random() < 0.3)
    obs, order = L.make_observation(rng, layout, y, sigma, shuffle=shuffle, with_offset=with_offset)
    ctx.observe('rows:shuffled' if shuffle and not np.all(np.diff(order) > 0) else 'rows:ordered')
    if with_offset:
        # the observation has a fitting parameter of its own (an additive zero point); it is fitted after the model's
        s_ = float(np.mean(sigma)) * 5.0
        entry = dict(comp='observation', valid=(-s_, s_))
        decls = decls + [L.declare_prior(rng, 'obs_offset', entry, False, kind=['mode-linear', 'Uniform', 'Gaussian'][rng.integers(0, 3)])]
        ctx.observe('observation-parameter-fitted')
    observe_setup(ctx, spec, decls, layout, sampler)
    # ---- the scripted sequence
    cap = [d for d in decls if d['invalid'] is not None]
    script, metas = [], []
    e0, m0 = make_entry(rng, decls, 'interior')
    script.append(e0)
    metas.append(m0)
    n_mid = int(rng.integers(2, 5))
    long = ctx.case['index'] % 25 == 11
    if long:
        # a long run of the sampler on one optimizer: a hundred and more points, earlier points coming back (a walker
        # stepping back, a point re-evaluated for the output) long after they were first seen
        n_mid = int(rng.integers(90, 140)) if ctx.tier == 'quick' else int(rng.integers(300, 1200))
        ctx.observe('history:a-hundred-points-earlier-ones-again')
    kinds = ['interior', 'face', 'corner', 'failpoint'] + (['invalid', 'invalid'] if cap else [])
    for j_ in range(n_mid):
        if long and j_ % 12 == 11:
            k_ = int(rng.integers(0, max(len(script) - 70, 1)))
            if 'u' in script[k_] and not metas[k_].get('failpoint'):
                script.append({'u': list(script[k_]['u'])})
                metas.append({'kind': metas[k_]['kind'], 'repeat_of': k_})
                continue
        kind = kinds[rng.integers(0, len(kinds))]
        if kind == 'failpoint':
            e, m = make_entry(rng, decls, 'interior')
            site = ['temperature', 'chemistry', 'contribution'][rng.integers(0, 3)]
            arm_failpoint(e, m, model, site, int(rng.integers(1, 3)))
        else:
            e, m = make_entry(rng, decls, kind)
        script.append(e)
        metas.append(m)
    # the first vector again, and one more fresh interior point
    script.append({'u': list(e0['u'])})
    metas.append({'kind': 'interior', 'repeat_of': 0})
    e, m = make_entry(rng, decls, 'interior')
    script.append(e)
    metas.append(m)
    for e, m in zip(script, metas):
        with_diag(e, m, obs)
    ctx.feature(sampler=sampler, names=[d['name'] for d in decls], priors=[d['kind'] for d in decls],
                kinds=[m['kind'] for m in metas], world=L.world.spec_summary(spec))
    call = run_sampler(ctx, sampler, obs, model, decls, script, tag, rng)
    if call is None:
        return
    judge(ctx, sampler, spec, decls, layout, y, sigma, script, metas, call, obs)
    ctx.sig(sampler, tuple(d['name'] for d in decls), tuple(d['kind'] for d in decls),
            tuple(m['kind'] + ('!' if m.get('failpoint') else '') for m in metas), spec['nlayers'], K,
            round(spec['planet_mass'], 6))
    ctx.sample({'sampler': sampler, 'fitted': [(d['name'], d['kind'], [float('%.6g' % v) for v in d['p']]) for d in decls],
                'sequence': [m['kind'] + ('+failpoint:' + m['failpoint']['site'] if m.get('failpoint') else '') for m in metas],
                'loglike': [r['loglike'] if r['loglike_exc'] is None else r['loglike_exc'] for r in call['records']],
                'bins': K, 'world': L.world.spec_summary(spec)})


def wl_exact(ctx, rng):
    """A noiseless self-observation (the code's own binned model at the truth) evaluated at the truth."""
    sampler = SAMPLERS[(ctx.case['index'] + ctx.shard) % 3]
    tag = 'ex%d' % ctx.case['index']
    spec, model, decls, layout = setup_case(ctx, rng, sampler, False, tag, exact=True, ndim=int(rng.integers(1, 4)))
    if layout is None:
        ctx.event('domain-skip:no-layout-with-width-condition')
        return
    K = layout['K']
    sigma = np.full(K, 1e-5) * rng.uniform(0.5, 2.0, K)
    obs0, _ = L.make_observation(rng, layout, np.full(K, 1e-3), sigma, shuffle=False)
    gen = L.build(spec)
    b0 = obs0.create_binner()
    bw, bv, _, _ = b0.bin_model(gen.model(wngrid=obs0.wavenumberGrid))
    if not np.all(np.isfinite(bv)):
        ctx.event('domain-skip:truth-not-a-valid-atmosphere')
        return
    # rows in ascending wavenumber (what the loader sorts to): the self-observation keeps the code's own numbers
    y = np.array(bv, dtype=float)
    obs, order = L.make_observation(rng, layout, y, sigma, shuffle=bool(rng.random() < 0.5))
    observe_setup(ctx, spec, decls, layout, sampler)
    truth_theta = []
    for d in decls:
        v = float(model[d['name']])
        truth_theta.append(math.log10(v) if d['space'] == 'log' else v)
    script, metas = [], []
    e, m = make_entry(rng, decls, 'interior')
    script.append(e)
    metas.append(m)
    script.append({'theta': list(truth_theta)})
    metas.append({'kind': 'truth'})
    e, m = make_entry(rng, decls, 'interior')
    script.append(e)
    metas.append(m)
    script.append({'theta': list(truth_theta)})
    metas.append({'kind': 'truth'})
    for e, m in zip(script, metas):
        with_diag(e, m, obs)
    # the truth lies in the valid range of every declaration by construction; make the declared valid range say so
    for d, t in zip(decls, truth_theta):
        a, b = d['valid']
        d['valid'] = (min(a, t), max(b, t))
    ctx.feature(sampler=sampler, names=[d['name'] for d in decls], priors=[d['kind'] for d in decls], workload='exact')
    call = run_sampler(ctx, sampler, obs, model, decls, script, tag, rng)
    if call is None:
        return
    judge(ctx, sampler, spec, decls, layout, y, sigma, script, metas, call, obs)
    ctx.sig('exact', sampler, tuple(d['name'] for d in decls), tuple(d['kind'] for d in decls), spec['nlayers'], K,
            round(spec['planet_mass'], 6))


def _noisy_obs(ctx, rng, spec, layout, shuffle=None):
    truth = L.shadow_eval(spec, [])
    if 'rejected' in truth or not np.all(np.isfinite(truth['depth'])):
        return None
    mt, tot = L.bin_ref(truth['wn'], truth['depth'], layout['c'], layout['w'])
    K = layout['K']
    s0 = float(np.mean(mt)) * 10 ** rng.uniform(-4.0, -1.5)
    sigma = np.full(K, s0) if rng.random() < 0.5 else s0 * rng.uniform(0.4, 2.5, K)
    y = mt + sigma * rng.normal(0, 1, K) * float(rng.choice([0.3, 1.0, 3.0]))
    obs, order = L.make_observation(rng, layout, y, sigma, shuffle=bool(rng.random() < 0.7) if shuffle is None else shuffle)
    return obs, y, sigma


def _short_script(rng, decls, obs, n=3):
    script, metas = [], []
    for k in range(n):
        e, m = make_entry(rng, decls, ['interior', 'face', 'interior'][k % 3])
        script.append(e)
        metas.append(m)
    script.append({'u': list(script[0]['u'])})
    metas.append({'kind': 'interior', 'repeat_of': 0})
    for e, m in zip(script, metas):
        with_diag(e, m, obs)
    return script, metas


def wl_intobs(ctx, rng):
    """An observation handed over as an INTEGER array: whole-micron wavelengths, counts and whole-number error bars in three
    columns (widths derived by the loader).  The sampler is handed the Gaussian log-likelihood of the model binned on the
    bins this observation reports, for those numbers, as for any other observation."""
    from taurex.data.spectrum.array import ArraySpectrum
    sampler = SAMPLERS[(ctx.case['index'] + ctx.shard) % 3]
    tag = 'io%d' % ctx.case['index']
    for attempt in range(8):
        spec, model, decls, layout = setup_case(ctx, rng, sampler, False, tag, ndim=int(rng.integers(1, 4)))
        truth = L.shadow_eval(spec, [])
        if 'rejected' in truth or not np.all(np.isfinite(truth['depth'])):
            continue
        wn = np.asarray(truth['wn'], dtype=float)
        k0, k1 = int(math.ceil(1e4 / wn[-1] * 1.3)) + 1, int(math.floor(1e4 / wn[0] / 1.3)) - 1
        if k1 - k0 < 4:
            continue
        K = int(min(k1 - k0, rng.integers(4, 11)))
        ks = np.arange(k0, k0 + K) + int(rng.integers(0, k1 - k0 - K + 1))
        rows = np.stack([ks, rng.integers(0, 3, K), rng.integers(1, 4, K)]).T.astype(np.int64)
        obs = ArraySpectrum(rows[rng.permutation(K)].copy())
        c, w = np.asarray(obs.wavenumberGrid, dtype=float), np.asarray(obs.binWidths, dtype=float)
        sel = (wn >= c.min() - w.max()) & (wn <= c.max() + w.max())
        if sel.sum() < 2 or float(np.max(np.diff(wn[sel]))) * 4.5 > float(np.min(w)):
            continue
        break
    else:
        ctx.event('domain-skip:no-world-with-whole-micron-bins')
        return
    ctx.check('integer-observation-reaches-the-optimizer', np.asarray(obs.spectrum).dtype.kind == 'i', dtype=str(np.asarray(obs.spectrum).dtype))
    ctx.observe('observation:integer-array')
    layout2 = dict(layout or {}, K=K, c=c, w=w, width_kind=0)
    y, sigma = np.asarray(obs.spectrum, dtype=float), np.asarray(obs.errorBar, dtype=float)
    observe_setup(ctx, spec, decls, layout2, sampler)
    script, metas = _short_script(rng, decls, obs, n=3)
    ctx.feature(sampler=sampler, names=[d['name'] for d in decls], priors=[d['kind'] for d in decls], workload='intobs')
    call = run_sampler(ctx, sampler, obs, model, decls, script, tag, rng)
    if call is None:
        return
    judge(ctx, sampler, spec, decls, layout2, y, sigma, script, metas, call, obs)
    ctx.sig('intobs', sampler, tuple(d['name'] for d in decls), K, int(ks[0]), round(spec['planet_mass'], 6))


def wl_reuse(ctx, rng):
    """One optimizer object used for several fits (as a script that loops over observations or settings does): after
    the first fit it is re-pointed to another observation (other bins, other error bars) with set_observed, and/or its
    fitted set and priors are changed, and fitted again.  Every fit is judged like a fresh one: nothing of the
    earlier observation or settings may survive in what the sampler is handed."""
    sampler = SAMPLERS[(ctx.case['index'] + ctx.shard) % 3]
    tag = 'reuse%d' % ctx.case['index']
    spec, model, decls, layout = setup_case(ctx, rng, sampler, False, tag, ndim=int(rng.integers(1, 4)))
    if layout is None:
        ctx.event('domain-skip:no-layout-with-width-condition')
        return
    wn = next(iter(spec['tables'].values()))['wn']
    first = _noisy_obs(ctx, rng, spec, layout)
    if first is None:
        ctx.event('domain-skip:truth-not-a-valid-atmosphere')
        return
    obs, y, sigma = first
    observe_setup(ctx, spec, decls, layout, sampler)
    script, metas = _short_script(rng, decls, obs)
    ctx.feature(sampler=sampler, names=[d['name'] for d in decls], priors=[d['kind'] for d in decls], workload='reuse')
    keep = {}
    original = {n: model.fittingParameters[n][2]() for n in model.fittingParameters}
    call = run_sampler(ctx, sampler, obs, model, decls, script, tag, rng, keep=keep)
    if call is None:
        return
    judge(ctx, sampler, spec, decls, layout, y, sigma, script, metas, call, obs)
    opt = keep['opt']
    steps = []
    has_user_prior = {d['name'] for d in decls if not d['kind'].startswith('mode-')}
    for rnd in range(int(rng.integers(1, 4))):
        what = ['observation', 'settings', 'both'][rng.integers(0, 3)]
        if what in ('observation', 'both'):
            lay2 = None
            for _ in range(6):
                lay2 = L.draw_obs_layout(rng, wn)
                if lay2 is not None and (lay2['K'] != layout['K'] or rng.random() < 0.3):
                    break
            if lay2 is None:
                ctx.event('domain-skip:no-layout-with-width-condition')
                return
            nxt = _noisy_obs(ctx, rng, spec, lay2)
            if nxt is None:
                return
            layout = lay2
            obs, y, sigma = nxt
            opt.set_observed(obs)
            ctx.observe('reuse:set_observed', 'reuse:bins-%s' % ('same' if lay2['K'] == len(call['records']) else 'changed'))
        if what in ('settings', 'both'):
            cat = L.catalogue(spec, model)
            for d in decls:
                opt.disable_fit(d['name'])
                # a parameter that is no longer fitted keeps the last value a sampler wrote (that is C07's "leaves
                # every other parameter untouched"); the shadow model assumes the world's own value, so put it back
                model[d['name']] = original[d['name']]
            chosen = choose_parameters(rng, cat, False, int(rng.integers(1, 4)))
            order = [n for n in model.fittingParameters if n in chosen]
            # a prior given with set_prior stays a current setting of that parameter (there is no call that removes
            # it) and wins over mode/bounds: a parameter that ever got one is re-declared with a user prior again
            user = ['Uniform', 'LogUniform', 'Gaussian', 'LogGaussian']
            decls = [L.declare_prior(rng, n, cat[n], False,
                                     kind=user[rng.integers(0, 4)] if n in has_user_prior else None) for n in order]
            has_user_prior.update(d['name'] for d in decls if d['kind'] in user)
            for d in decls:
                L.apply_prior(opt, d)
            ctx.observe('reuse:settings-changed')
        steps.append(what)
        script, metas = _short_script(rng, decls, obs)
        call = drive(ctx, opt, sampler, decls, script, reuse_buffers=rng.random() < 0.5)
        if call is None:
            return
        judge(ctx, sampler, spec, decls, layout, y, sigma, script, metas, call, obs)
        ctx.observe('reuse:fit-%d-judged' % (rnd + 2))
    ctx.sig('reuse', sampler, tuple(steps), tuple(d['name'] for d in decls), spec['nlayers'], layout['K'],
            round(spec['planet_mass'], 6))


def wl_pair(ctx, rng):
    """Two optimizers alive in one process (two observations of one planet, each with its own model object, error bars,
    bins, fitted set and priors), both fully set up BEFORE either samples; then they are driven in turn (A, B, A ...).
    Every callback value is judged for its own optimizer: nothing may leak from one to the other."""
    samplers = [SAMPLERS[(ctx.case['index'] + ctx.shard + k) % 3] for k in range(2)]
    if rng.random() < 0.5:
        samplers[1] = samplers[0]
    spec = L.draw_world(rng)
    L.install(spec)
    wn = next(iter(spec['tables'].values()))['wn']
    sides = []
    for k in range(2):
        model = L.build(spec)
        cat = L.catalogue(spec, model)
        chosen = choose_parameters(rng, cat, False, int(rng.integers(1, 4)))
        order = [n for n in model.fittingParameters if n in chosen]
        decls = [L.declare_prior(rng, n, cat[n], False) for n in order]
        layout = L.draw_obs_layout(rng, wn)
        if layout is None:
            ctx.event('domain-skip:no-layout-with-width-condition')
            return
        got = _noisy_obs(ctx, rng, spec, layout)
        if got is None:
            ctx.event('domain-skip:truth-not-a-valid-atmosphere')
            return
        obs, y, sigma = got
        kw = {}
        if samplers[k] == 'multinest':
            kw['search_multi_modes'] = False
        if samplers[k] == 'polychord':
            kw['cluster'] = True
        opt = L.make_optimizer(samplers[k], obs, model, ctx.scratch, 'pair%d-%d' % (ctx.case['index'], k), **kw)
        L.disable_default_fits(opt, model, obs)
        for d in decls:
            L.apply_prior(opt, d)
        sides.append(dict(opt=opt, model=model, decls=decls, layout=layout, obs=obs, y=y, sigma=sigma, sampler=samplers[k]))
        observe_setup(ctx, spec, decls, layout, samplers[k])
    ctx.feature(workload='pair', samplers=samplers, names=[[d['name'] for d in sd['decls']] for sd in sides])
    turns = [0, 1] + [int(t) for t in rng.integers(0, 2, int(rng.integers(1, 4)))]
    for t in turns:
        sd = sides[t]
        script, metas = _short_script(rng, sd['decls'], sd['obs'])
        call = drive(ctx, sd['opt'], sd['sampler'], sd['decls'], script, reuse_buffers=rng.random() < 0.5)
        if call is None:
            return
        judge(ctx, sd['sampler'], spec, sd['decls'], sd['layout'], sd['y'], sd['sigma'], script, metas, call, sd['obs'])
        ctx.observe('pair:turn-judged')
    ctx.sig('pair', tuple(samplers), tuple(turns), spec['nlayers'], sides[0]['layout']['K'], sides[1]['layout']['K'],
            round(spec['planet_mass'], 6))


WORKLOADS = {'intobs': wl_intobs, 'sequence': wl_sequence, 'exact': wl_exact, 'reuse': wl_reuse, 'pair': wl_pair}

LEVEL_TEXT = ('Exploration by runtime monitoring at the sampler boundary: the callbacks the unmodified nestle / MultiNest / '
              'PolyChord wrappers hand to the sampler entry points are captured by recording doubles and driven, in each '
              'library\'s calling convention, over scripted sequences of cube points (interior, faces, corners, invalid '
              'atmospheres, injected InvalidModelException fail points, repeats). Every prior output is decided against the '
              'inverse CDF of the declared prior (1e-12) in fitted order, every log-likelihood of a valid vector against '
              '-sum ln(sigma sqrt(2pi)) - chi2/2 of a freshly built shadow model evaluated on the full native grid and binned '
              'by an independent overlap mean (derived tolerance, eps 1e-13 on the binned model), every invalid or faulted '
              'evaluation against "returns, not finite", and every repeated vector against its first value. Held = held on '
              'the recorded executions.')
LEVEL_NOTE = ('Trusted: the doubles\' calling conventions (stated in the evidence), refmodel.overlap_mean, the declared '
              'validity zones. Known finding recognised from the code\'s own zero residual: exact fit gives NaN.')
TECHNIQUE = ('recording doubles / tap at the three sampler entry points + scripted fault sequences + fail-point taps; '
             'oracle = declared inverse CDFs and a freshly built shadow model binned by an independent overlap mean')
