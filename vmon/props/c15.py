"""C15 -- an input file builds exactly the documented object graph; CLI equals library.

Monitors
  * taps on the ``__init__`` (and ``__init_mixin__``) of every built-in component class: the keyword arguments
    that actually arrived at the outermost constructor call, stored on the instance;
  * taps on ParameterParser.read/transform and on factory.determine_klass / create_klass /
    generate_contributions / create_prior (which class a selector was resolved to, with which config);
  * the command-line program runs as a subprocess (python -m taurex.taurex -i f.par -o out.h5 -S spec.dat).
Oracles
  (a) documentation-driven: doc/source/user/taurex/*.rst is parsed as text, the source tree is scanned with ast
      (independently of ClassFactory); every documented selector whose class exists in the tree must resolve
      through the section's factory to exactly that class, no keyword is claimed by two classes of a section;
  (b) generated input files: every key that is a constructor argument arrives with the value written (numbers
      numerically equal, booleans as bool, comma lists as lists, defaults otherwise -- defaults taken from the
      ast scan), keys the constructor does not know raise, unknown selectors raise, composite ``a+b`` selectors
      build a class with both bases and route keys, ``custom`` + ``python_file`` loads the user's class, the
      model holds exactly the components and contributions written;
  (c) the spectrum of the parsed model and the one the command-line program stores (-o HDF5, -S text) equal the
      spectrum of the same components built directly through the Python API.
"""
import os
import subprocess
import sys

import numpy as np

from vmon import lib_c15 as L
from vmon import lib_c16 as L16
from vmon import taps, world

PROPERTY = 'C15'
RULE = ('(a) every selector, contribution header, prior name and keyword table of doc/source/user/taurex/*.rst; '
        '(b) single-section input files for every built-in component class (all aliases, random casing, random subsets '
        'of constructor keys, three number formats, every documented boolean spelling, lists with and without trailing '
        'comma, quoted strings, shuffled key order, comments), with one unknown key / documented-but-unknown key / '
        'unknown selector / unknown contribution header injected in a fraction of them, composite and custom selectors; '
        '(c) complete input files rendered from synthetic worlds (opacity and CIA pickles written to the scratch '
        'directory), parsed in-process and run through the command-line program as a subprocess with random '
        'binning/instrument/output-size options. A case is non-trivial when the file was parsed and at least one '
        'component was built or a rejection was observed; distinct = distinct (section, class, keys, mutation) tuples')
ASSUMPTIONS = [
    'a documented selector is in scope when a class carrying that keyword exists in the source tree (ast scan) and the '
    'external packages its module imports at top level are installed; others are listed in the evidence notes, not judged',
    'keys are judged by the constructor signature (ast): documented keys the constructor does not know must raise',
    '"typed as documented" is read as DESIGN.md does: numbers numerically equal (the parser makes every number a float), '
    'booleans as bool, comma lists as lists',
    '"reported as an error" = any exception from the section\'s generate_*() call (or a non-zero exit of the program)',
    'PhoenixStar, the lightcurve model/observation, iraclis pickles and the polychord family need external data/packages: '
    'their selectors are resolved (a) but no object is constructed',
]
_Q = {'docs': 1, 'known': 5, 'components': 400, 'files': 30, 'cli': 1}
_T = {'docs': 1, 'known': 10, 'components': 2000, 'files': 200, 'cli': 3}
BUDGET = {
    'quick': [dict(name='main', env={'NUMBA_BOUNDSCHECK': '1'}, shards=6, cases=_Q)],
    'thorough': [dict(name='main', env={'NUMBA_BOUNDSCHECK': '1'}, shards=16, cases=_T)],
}
WATCHDOG = {'quick': 900, 'thorough': 3000}
REQUIRED = dict(
    monitors=['documented-selector-resolves', 'keyword-claimed-by-one-class', 'documented-contribution-resolves',
              'documented-prior-resolves', 'documented-key-unknown-to-constructor-raises',
              'selector-builds-class', 'key-arrives', 'default-otherwise', 'unknown-key-raises',
              'unknown-selector-raises', 'unknown-contribution-raises', 'composite-bases', 'composite-key-routing',
              'custom-class-loaded', 'object-graph', 'parsed-model=library', 'cli-exit-0', 'cli-S=library',
              'cli-hdf5=library', 'cli-unknown-key-nonzero-exit',
              'documented-selector-resolves[gas:twopoint]', 'unknown-key-raises[Instrument:snr]',
              'unknown-key-raises[Observation]', 'selector-builds-class[Temperature:file-skiprows]',
              'cli-exit-0[cli:powergas-defaults]'],
    classes=['parser:section-built-again-after-the-first-object-was-written', 'section:Temperature', 'section:Pressure', 'section:Chemistry', 'section:Gas', 'section:Planet', 'section:Star',
             'section:Model', 'section:Contribution', 'section:Optimizer', 'section:Instrument', 'section:Observation',
             'section:Prior', 'composite', 'custom', 'value:number', 'value:bool', 'value:floatlist', 'value:strlist',
             'value:str', 'class:Isothermal', 'class:Guillot2010', 'class:NPoint', 'class:Rodgers2000',
             'class:TemperatureFile', 'class:SimplePressureProfile', 'class:FilePressureProfile', 'class:TaurexChemistry',
             'class:ChemistryFile', 'class:ConstantGas', 'class:TwoLayerGas', 'class:PowerGas', 'class:ArrayGas',
             'class:Planet', 'class:BlackbodyStar', 'class:TransmissionModel', 'class:EmissionModel',
             'class:DirectImageModel', 'class:NestleOptimizer', 'class:MultiNestOptimizer', 'class:SNRInstrument',
             'class:InstrumentFile', 'class:ObservedSpectrum', 'class:AbsorptionContribution', 'class:CIAContribution',
             'class:RayleighContribution', 'class:SimpleCloudsContribution', 'class:FlatMieContribution',
             'class:LeeMieContribution', 'class:HydrogenIon', 'cli:binning-manual', 'cli:instrument-snr', 'cli:native',
             'cli:binning-key:wavelength_grid', 'cli:binning-key:log_wavelength_grid', 'cli:binning-key:log_wavenumber_grid',
             'cli:binning-key:wavenumber_grid'])

_S = {}     # per-process state: docs, source scan, taps


def classify(f):
    mon = f.get('monitor') or ''
    w = f.get('witness', {}) or {}
    feat = f.get('features', {}) or {}
    if mon == 'documented-selector-resolves[gas:twopoint]' and w.get('section') == 'Gas' and w.get('keyword') in (
            'twopoint', '2point') and 'not implemented' in str(w.get('error')):
        return 'C15/twopoint-not-exported'
    if mon == 'selector-builds-class[gas:twopoint]' and feat.get('stratum') == 'gas:twopoint' and \
            'not implemented' in str(w.get('error')):
        return 'C15/twopoint-not-exported'
    if mon == 'selector-builds-class[Temperature:file-skiprows]' and feat.get('stratum') == 'Temperature:file-skiprows' and \
            w.get('klass') == 'TemperatureFile' and 'must be an integer' in str(w.get('error')):
        return 'C15/temperaturefile-skiprows-float'
    if mon == 'cli-exit-0[cli:powergas-defaults]' and feat.get('stratum') == 'cli:powergas-defaults' and \
            w.get('dies_in_powergas_write') is True:
        return 'C15/cli-output-dies-on-powergas-defaults'
    if mon == 'unknown-key-raises[Instrument:snr]' and feat.get('stratum') == 'Instrument:snr' and \
            w.get('built') == 'SNRInstrument':
        return 'C15/snr-ignores-unknown-keys'
    if mon == 'documented-key-unknown-to-constructor-raises[Instrument:snr]' and w.get('built') == 'SNRInstrument':
        return 'C15/snr-ignores-unknown-keys'
    if mon == 'unknown-key-raises[Observation]' and feat.get('stratum') == 'Observation' and w.get('built'):
        return 'C15/observation-ignores-unknown-keys'
    return None


# -------------------------------------------------------------------- taps
def repo():
    return os.environ.get('VMON_REPO', '/repo')


def tap_ctor(cls, name='__init__'):
    """Record the keyword arguments of the outermost constructor call on the instance."""
    import functools
    import inspect
    orig = cls.__dict__.get(name)
    if orig is None or getattr(orig, '_c15', False):
        return
    sig = inspect.signature(orig)

    @functools.wraps(orig)
    def init(self, *a, **kw):
        try:
            ba = sig.bind(self, *a, **kw)
            passed = {k: v for k, v in ba.arguments.items() if k != 'self'}
            ba.apply_defaults()
            full = {k: v for k, v in ba.arguments.items() if k != 'self'}
        except TypeError:
            passed, full = None, None      # the real call raises the TypeError itself
        if name == '__init__':
            if '_c15_ctor' not in self.__dict__:
                try:
                    self.__dict__['_c15_ctor'] = (cls.__name__, passed, full)
                except Exception:
                    pass
        else:
            self.__dict__.setdefault('_c15_mixin', {})[cls.__name__] = (passed, full)
        return orig(self, *a, **kw)
    init._c15 = True
    init._vmon_orig = orig
    # the code under test inspects constructor signatures (inspect.getfullargspec does not follow __wrapped__):
    # the tap has to present the original signature
    init.__signature__ = sig
    setattr(cls, name, init)
    _S.setdefault('tapped', []).append((cls, name, orig))


def setup(ctx):
    import taurex.parameter.factory as F
    from taurex.parameter.classfactory import ClassFactory
    from taurex.parameter import ParameterParser
    _S['docs'] = L.parse_docs(os.path.join(repo(), 'doc', 'source', 'user', 'taurex'))
    _S['classes'] = L.scan_source(os.path.join(repo(), 'taurex'))
    cf = ClassFactory()
    families = ['temperatureKlasses', 'pressureKlasses', 'chemistryKlasses', 'gasKlasses', 'planetKlasses', 'starKlasses',
                'modelKlasses', 'contributionKlasses', 'optimizerKlasses', 'instrumentKlasses', 'observationKlasses',
                'priorKlasses']
    for fam in families:
        for c in getattr(cf, fam):
            for k in c.__mro__:
                if k.__module__.startswith('taurex') and '__init__' in k.__dict__:
                    tap_ctor(k)
    # built-in classes the factory does not know are tapped too (they are in the source tree)
    from taurex.data.profiles.chemistry.gas.twopointgas import TwoPointGas
    from taurex.data.profiles.temperature.temparray import TemperatureArray
    for c in (TwoPointGas, TemperatureArray):
        tap_ctor(c)
    for fam in ['temperatureMixinKlasses', 'chemistryMixinKlasses', 'gasMixinKlasses', 'pressureMixinKlasses',
                'planetMixinKlasses', 'starMixinKlasses', 'modelMixinKlasses', 'contributionMixinKlasses']:
        for c in getattr(cf, fam):
            if '__init_mixin__' in c.__dict__:
                tap_ctor(c, '__init_mixin__')

    def resolved(a, kw, res, exc, token):
        if exc is None:
            ctx.event('tap:determine_klass')
            _S['last_klass'] = res[1]
    taps.tap_function(F, 'determine_klass', None, resolved)

    def created(a, kw, res, exc, token):
        ctx.event('tap:create_klass' + (':raised' if exc is not None else ''))
    taps.tap_function(F, 'create_klass', None, created)
    taps.tap_function(F, 'generate_contributions', None,
                      lambda a, kw, res, exc, t: ctx.event('tap:generate_contributions' + (':raised' if exc else '')))
    taps.tap_function(F, 'create_prior', None,
                      lambda a, kw, res, exc, t: ctx.event('tap:create_prior' + (':raised' if exc else '')))
    taps.tap(ParameterParser, 'read', lambda self, a, kw: ctx.event('tap:ParameterParser.read'))
    taps.tap(ParameterParser, 'transform', lambda self, a, kw: ctx.event('tap:ParameterParser.transform'))


def teardown(ctx):
    taps.untap_all()
    for cls, name, orig in _S.get('tapped', []):
        setattr(cls, name, orig)
    _S['tapped'] = []


# ------------------------------------------------------------------ helpers
def factory_of(section):
    import taurex.parameter.factory as F
    return {'Temperature': F.temp_factory, 'Pressure': F.pressure_factory, 'Chemistry': F.chemistry_factory,
            'Gas': F.gas_factory, 'Planet': F.planet_factory, 'Star': F.star_factory, 'Model': F.model_factory,
            'Optimizer': F.optimizer_factory, 'Instrument': F.instrument_factory,
            'Observation': F.observation_factory}[section]


def mixin_factory_of(section):
    import taurex.parameter.factory as F
    from taurex.temperature import TemperatureProfile
    from taurex.chemistry import Chemistry, Gas
    from taurex.pressure import PressureProfile
    from taurex.planet import Planet
    from taurex.stellar import Star
    from taurex.model import ForwardModel
    base = {'Temperature': TemperatureProfile, 'Chemistry': Chemistry, 'Gas': Gas, 'Pressure': PressureProfile,
            'Planet': Planet, 'Star': Star, 'Model': ForwardModel}[section]
    return lambda kw: F.mixin_factory(kw, base)


def same_class(klass, name, classes):
    """The resolved class is the source-tree class of that name (same file)."""
    import inspect
    if klass.__name__ != name:
        return False
    try:
        return os.path.realpath(inspect.getsourcefile(klass)) == os.path.realpath(classes[name]['file'])
    except TypeError:
        return False


def parse(fn):
    from taurex.parameter import ParameterParser
    world.reset_caches()
    pp = ParameterParser()
    pp.read(fn)
    pp.setup_globals()
    return pp


def generate(pp, section):
    if section == 'Temperature':
        return pp.generate_temperature_profile()
    if section == 'Pressure':
        return pp.generate_pressure_profile()
    if section == 'Chemistry':
        return pp.generate_chemistry_profile()
    if section == 'Planet':
        return pp.generate_planet()
    if section == 'Star':
        return pp.generate_star()
    if section == 'Optimizer':
        return pp.generate_optimizer()
    if section == 'Instrument':
        r = pp.generate_instrument(binner=_S.get('binner'))
        return r
    if section == 'Observation':
        return pp.generate_observation()
    if section == 'Model':
        return pp.generate_model()
    raise ValueError(section)


def arrived_ok(kind, got, want):
    if kind == 'number':
        return isinstance(got, (int, float, np.integer, np.floating)) and not isinstance(got, (bool, np.bool_)) and \
            float(got) == float(want)
    if kind == 'bool':
        return isinstance(got, bool) and got == want
    if kind == 'floatlist':
        return isinstance(got, list) and len(got) == len(want) and \
            all(isinstance(g, (int, float)) and not isinstance(g, bool) and float(g) == w for g, w in zip(got, want))
    if kind == 'strlist':
        if isinstance(want, str):
            return isinstance(got, str) and got == want
        return isinstance(got, list) and got == want
    if kind == 'str':
        return isinstance(got, str) and got == want
    raise ValueError(kind)


def same_default(got, want):
    if want == '<expr>':
        return True
    if want is None or isinstance(want, bool):
        return got is want
    try:
        if isinstance(want, (list, tuple)):
            return list(got) == list(want)
        return got == want and type(got) is type(want)
    except Exception:
        return False


def judge_arrival(ctx, obj, sec, tag=''):
    """The kwargs recorded at obj's constructor against what the section wrote."""
    classes = _S['classes']
    rec = obj.__dict__.get('_c15_ctor')
    if not ctx.check('constructor-observed' + tag, rec is not None and rec[2] is not None, section=sec.name, klass=sec.klass):
        return
    cname, passed, full = rec
    written = {e.key: e for e in sec.entries}
    for e in sec.entries:
        if e.key not in full:
            mix = obj.__dict__.get('_c15_mixin', {})
            hit = [m for m, (p, f_) in mix.items() if f_ and e.key in f_]
            if hit:
                got = mix[hit[0]][1][e.key]
                ctx.check('composite-key-routing' + tag, arrived_ok(e.kind, got, e.expect), key=e.key, mixin=hit[0],
                          got=got, want=e.expect)
                continue
            ctx.check('key-arrives' + tag, False, key=e.key, klass=cname, reason='not among the constructor arguments seen',
                      seen=sorted(full))
            continue
        got = full[e.key]
        ctx.observe('value:' + e.kind)
        ctx.check('key-arrives' + tag, arrived_ok(e.kind, got, e.expect), key=e.key, klass=cname, text=e.text, got=got,
                  got_type=type(got).__name__, want=e.expect, kind=e.kind)
    # defaults otherwise (defaults read from the source by ast, not from the running class)
    defaults = L.effective_init(classes, cname)['defaults']
    skip = {'planet', 'star', 'chemistry', 'temperature_profile', 'pressure_profile', 'observation', 'observed', 'model',
            'binner', 'molecule_name'}
    for k, dv in defaults.items():
        if k in written or k in skip or k not in full:
            continue
        ctx.check('default-otherwise' + tag, same_default(full[k], dv), key=k, klass=cname, got=full[k], default=dv)


def must_raise(ctx, monitor, fn, **wit):
    """fn() has to report an error; returns True when it did."""
    try:
        res = fn()
    except Exception as e:          # any error report is what the statement asks for
        ctx.license(type(e).__name__)
        ctx.check(monitor, True)
        return True
    built = res[0] if isinstance(res, tuple) else res
    ctx.check(monitor, False, built=type(built).__name__ if built is not None else None, **wit)
    return False


# ------------------------------------------------------------- (a) docs
def wl_docs(ctx, rng):
    import taurex.parameter.factory as F
    docs, classes = _S['docs'], _S['classes']
    pkg = os.path.join(repo(), 'taurex')
    out_of_scope, notes = [], []
    seen = set()
    for sec, kw, fn, line, how in docs['selectors']:
        key = (sec, kw.lower())
        if key in seen:
            continue
        seen.add(key)
        ctx.observe('section:' + sec)
        if kw.lower() == 'custom':
            ctx.event('documented-selector:custom')
            continue
        parts = kw.lower().split('+')
        found = [L.classes_with_keyword(classes, sec, p, mixin=(i < len(parts) - 1)) for i, p in enumerate(parts)]
        where = '%s:%d' % (fn, line)
        if any(not f_ for f_ in found):
            out_of_scope.append({'section': sec, 'selector': kw, 'where': where, 'reason': 'no class in the source tree carries '
                                 'the keyword' + (' (documented as external package)' if kw in ('ace', 'equilibrium') else '')})
            ctx.event('selector-out-of-scope:no-class')
            continue
        missing = sorted({m for f_ in found for c in f_ for m in L.missing_external_imports(classes, c, pkg)})
        if missing:
            out_of_scope.append({'section': sec, 'selector': kw, 'where': where,
                                 'reason': 'needs external package(s) %s, not installed' % ','.join(missing)})
            ctx.event('selector-out-of-scope:external-package-absent')
            continue
        tag = '[gas:twopoint]' if (sec == 'Gas' and parts[-1] in ('twopoint', '2point')) else ''
        for i, (p, f_) in enumerate(zip(parts, found)):
            ismix = i < len(parts) - 1
            ctx.check('keyword-claimed-by-one-class', len(f_) == 1, section=sec, keyword=p, classes=f_)
            try:
                klass = (mixin_factory_of(sec) if ismix else factory_of(sec))(p)
                err = None
            except Exception as e:
                klass, err = None, '%s: %s' % (type(e).__name__, e)
            ctx.check('documented-selector-resolves' + tag, klass is not None and same_class(klass, f_[0], classes),
                      section=sec, keyword=p, documented_at=where, expected_class=f_[0],
                      got=getattr(klass, '__name__', None), error=err)
        ctx.sig('doc-selector', sec, kw.lower())
    # no keyword of a section is carried by two classes (whole tree, documented or not)
    for sec, (field, roots) in L.SECTIONS.items():
        owners = {}
        for nm, info in classes.items():
            if info['keywords'] and any(r in L.ancestors(classes, nm) for r in roots):
                for k in info['keywords']:
                    owners.setdefault(k, []).append(nm)
        for k, v in sorted(owners.items()):
            ctx.check('keyword-claimed-by-one-class', len(v) == 1, section=sec, keyword=k, classes=v)
    # contribution headers
    for header, fn, line in docs['contributions']:
        ctx.observe('section:Contribution')
        f_ = L.classes_with_keyword(classes, 'Contribution', header)
        if not f_:
            out_of_scope.append({'section': 'Contribution', 'selector': header, 'where': '%s:%d' % (fn, line),
                                 'reason': 'no class in the source tree carries the header'})
            ctx.event('selector-out-of-scope:no-class')
            continue
        try:
            objs = F.generate_contributions({header: {}})
            err = None
        except Exception as e:
            objs, err = [], '%s: %s' % (type(e).__name__, e)
        ctx.check('documented-contribution-resolves', len(objs) == 1 and same_class(type(objs[0]), f_[0], classes),
                  header=header, expected_class=f_[0], got=[type(o).__name__ for o in objs], error=err)
        ctx.sig('doc-contribution', header)
    # priors
    for name in docs['priors']:
        ctx.observe('section:Prior')
        anc = L.ancestors(classes, name)
        if 'Prior' not in anc:
            out_of_scope.append({'section': 'Prior', 'selector': name, 'reason': 'no Prior class of that name'})
            continue
        text = {'Uniform': 'Uniform(bounds=(1.0, 2.0))', 'LogUniform': 'LogUniform(bounds=(-3, 2))',
                'Gaussian': 'Gaussian(mean=1.0,std=0.5)', 'LogGaussian': 'LogGaussian(mean=-4,std=2)'}.get(name, name + '()')
        try:
            p = F.create_prior(text)
            err = None
        except Exception as e:
            p, err = None, '%s: %s' % (type(e).__name__, e)
        ctx.check('documented-prior-resolves', p is not None and same_class(type(p), name, classes), prior=name, error=err)
    must_raise(ctx, 'unknown-selector-raises', lambda: F.create_prior('Cauchy(mean=1.0)'), section='Prior')
    must_raise(ctx, 'unknown-key-raises', lambda: F.create_prior('Uniform(bounds=(1.0, 2.0), zz_unknown=3)'), section='Prior')
    # documented keys against the constructor signature
    for (sec, kw), keys in sorted(docs['keys'].items(), key=str):
        if kw is None or sec in ('Observation',):
            continue
        f_ = L.classes_with_keyword(classes, sec, kw.lower() if sec != 'Contribution' else kw)
        if len(f_) != 1 or L.missing_external_imports(classes, f_[0], pkg):
            continue
        sig_args = set(L.effective_init(classes, f_[0])['all'])
        for k in keys:
            if k in sig_args:
                ctx.event('documented-key-in-signature')
                continue
            notes.append({'section': sec, 'selector': kw, 'documented_key': k, 'class': f_[0],
                          'constructor_arguments': sorted(sig_args)})
            cfgs = {'Temperature': lambda: F.create_temperature_profile({'profile_type': kw, k: 1.0}),
                    'Pressure': lambda: F.create_pressure_profile({'profile_type': kw, k: 1.0}),
                    'Chemistry': lambda: F.create_chemistry({'chemistry_type': kw, k: 1.0}),
                    'Gas': lambda: F.create_gas_profile({'profile_type': kw, 'molecule_name': 'H2O', k: 1.0}),
                    'Planet': lambda: F.create_planet({'planet_type': kw, k: 1.0}),
                    'Star': lambda: F.create_star({'star_type': kw, k: 1.0}),
                    'Contribution': lambda: F.generate_contributions({kw: {k: 1.0}}),
                    'Instrument': lambda: _instrument_from({'instrument': kw, k: 1.0}, ctx)}
            if sec not in cfgs or f_[0] == 'PhoenixStar':
                continue
            tag = '[Instrument:snr]' if (sec == 'Instrument' and kw == 'snr') else ''
            must_raise(ctx, 'documented-key-unknown-to-constructor-raises' + tag, cfgs[sec], section=sec, selector=kw, key=k)
    ctx.note('selectors_out_of_scope', out_of_scope)
    ctx.note('documented_keys_unknown_to_constructor', notes)
    ctx.sample({'documented_selectors': len(seen), 'out_of_scope': len(out_of_scope), 'doc_key_notes': len(notes)})


def _instrument_from(cfg, ctx):
    """[Instrument] goes through ParameterParser.generate_instrument (the snr branch lives there)."""
    fn = os.path.join(ctx.scratch, 'inst_%d_%d.par' % (ctx.cases, len(os.listdir(ctx.scratch))))
    with open(fn, 'w') as fh:
        fh.write('[Instrument]\n' + ''.join('%s = %s\n' % kv for kv in cfg.items()))
    pp = parse(fn)
    return pp.generate_instrument(binner=None)


# -------------------------------------------------- (b) component sections
def rnd_unknown_key(rng):
    return 'zz_' + ''.join('abcdefghijklmnopqrstuvwxyz'[i] for i in rng.integers(0, 26, 6))


def subset(rng, entries, keep_all=False):
    if keep_all or rng.random() < 0.3:
        return list(entries)
    return [e for e in entries if rng.random() < 0.6]


def write_table(path, arr):
    np.savetxt(path, np.asarray(arr), fmt='%.17e')
    return path


def component_section(ctx, rng, kind, force=None, with_skiprows=False):
    """-> (Section, generate-section name) for one built-in component drawn at random."""
    cl = _S['classes']
    sc = ctx.scratch
    n = ctx.cases
    f = lambda lo, hi: float(rng.uniform(lo, hi))
    lf = lambda lo, hi: float(10 ** rng.uniform(lo, hi))
    if kind == 'Temperature':
        k = force or ['Isothermal', 'Guillot2010', 'NPoint', 'Rodgers2000', 'TemperatureFile', 'TemperatureArray'][rng.integers(0, 6)]
        if k == 'Isothermal':
            ent = [L.e_float(rng, 'T', f(100, 3000))]
        elif k == 'Guillot2010':
            ent = [L.e_float(rng, 'T_irr', f(100, 3000)), L.e_float(rng, 'kappa_irr', lf(-4, 0)), L.e_float(rng, 'kappa_v1', lf(-4, 0)),
                   L.e_float(rng, 'kappa_v2', lf(-4, 0)), L.e_float(rng, 'alpha', f(0, 1)), L.e_float(rng, 'T_int', f(10, 900))]
        elif k == 'NPoint':
            m = int(rng.integers(0, 4))
            ent = [L.e_float(rng, 'T_surface', f(100, 3000)), L.e_float(rng, 'T_top', f(100, 3000)),
                   L.e_float(rng, 'P_surface', lf(4, 7)), L.e_float(rng, 'P_top', lf(-4, 0)),
                   L.e_int(rng, 'smoothing_window', int(rng.integers(1, 40))), L.e_float(rng, 'limit_slope', lf(2, 7))]
            if m:
                pts = [L.e_floatlist(rng, 'temperature_points', rng.uniform(100, 3000, m)),
                       L.e_floatlist(rng, 'pressure_points', np.sort(10 ** rng.uniform(0, 4, m))[::-1])]
                ent = subset(rng, ent) + pts
                return L.Section('Temperature', 'profile_type', L.rnd_case(rng, L.alias(rng, cl, k)), k, ent), 'Temperature'
        elif k == 'Rodgers2000':
            ent = [L.e_floatlist(rng, 'temperature_layers', rng.uniform(100, 3000, int(rng.integers(1, 9)))),
                   L.e_float(rng, 'correlation_length', f(0.1, 10))]
        elif k == 'TemperatureArray':
            m = int(rng.integers(2, 8))
            ent = [L.e_bool(rng, 'reverse', rng.random() < 0.5)]
            if rng.random() < 0.8:
                # the pressure nodes belong to the temperatures: written together or not at all
                pair = [L.e_floatlist(rng, 'tp_array', rng.uniform(100, 3000, m))]
                if rng.random() < 0.5:
                    pair.append(L.e_floatlist(rng, 'p_points', np.sort(10 ** rng.uniform(-2, 6, m))[::-1]))
                return L.Section('Temperature', 'profile_type', L.rnd_case(rng, L.alias(rng, cl, k)), k, subset(rng, ent) + pair), 'Temperature'
        else:
            ncol = int(rng.integers(1, 4))
            tcol = int(rng.integers(0, ncol))
            # ``skiprows`` written in the file is the stratum 'Temperature:file-skiprows' of the 'known' workload
            skip = int(rng.integers(0, 3)) if with_skiprows else 0
            arr = rng.uniform(100, 3000, (6 + skip, ncol))
            fn = write_table(os.path.join(sc, 'tp_%d.dat' % n), arr)
            ent = [L.e_int(rng, 'temp_col', tcol), L.e_str(rng, 'temp_units', 'K'),
                   L.e_str(rng, 'press_units', ['Pa', 'bar'][rng.integers(0, 2)]), L.e_bool(rng, 'reverse', rng.random() < 0.5)]
            if ncol > 1 and rng.random() < 0.5:
                ent.append(L.e_int(rng, 'press_col', (tcol + 1) % ncol))
            ent = subset(rng, ent) + [L.e_str(rng, 'filename', fn)]
            if with_skiprows:
                ent.append(L.e_int(rng, 'skiprows', skip))
            return L.Section('Temperature', 'profile_type', L.rnd_case(rng, L.alias(rng, cl, k)), k, ent), 'Temperature'
        return L.Section('Temperature', 'profile_type', L.rnd_case(rng, L.alias(rng, cl, k)), k, subset(rng, ent)), 'Temperature'
    if kind == 'Pressure':
        if rng.random() < 0.6:
            k = 'SimplePressureProfile'
            lo = lf(-6, 1)
            ent = subset(rng, [L.e_int(rng, 'nlayers', int(rng.integers(1, 200))), L.e_float(rng, 'atm_min_pressure', lo),
                               L.e_float(rng, 'atm_max_pressure', lo * lf(1.5, 8))])
            if not any(e.key == 'atm_min_pressure' for e in ent) or not any(e.key == 'atm_max_pressure' for e in ent):
                ent = [e for e in ent if e.key == 'nlayers']       # the pair only makes sense together (min < max)
        else:
            k = 'FilePressureProfile'
            ncol = int(rng.integers(1, 3))
            skip = int(rng.integers(0, 3))
            fn = write_table(os.path.join(sc, 'p_%d.dat' % n), 10 ** rng.uniform(-2, 6, (5 + skip, ncol)))
            ent = subset(rng, [L.e_int(rng, 'usecols', int(rng.integers(0, ncol))), L.e_int(rng, 'skiprows', skip),
                               L.e_str(rng, 'units', ['Pa', 'bar'][rng.integers(0, 2)]),
                               L.e_bool(rng, 'reverse', rng.random() < 0.5)]) + [L.e_str(rng, 'filename', fn)]
        return L.Section('Pressure', 'profile_type', L.rnd_case(rng, L.alias(rng, cl, k)), k, ent), 'Pressure'
    if kind in ('Chemistry', 'Gas'):
        mols = [str(m) for m in rng.choice(['H2O', 'CH4', 'CO2', 'CO', 'NH3', 'N2', 'e-', 'TiO'], int(rng.integers(1, 4)), replace=False)]
        subs = []
        for m in mols:
            gk = ['ConstantGas', 'TwoLayerGas', 'PowerGas', 'ArrayGas'][rng.integers(0, 4)]
            if gk == 'ConstantGas':
                ent = [L.e_float(rng, 'mix_ratio', lf(-12, -1))]
            elif gk == 'TwoLayerGas':
                ent = [L.e_float(rng, 'mix_ratio_surface', lf(-12, -1)), L.e_float(rng, 'mix_ratio_top', lf(-12, -1)),
                       L.e_float(rng, 'mix_ratio_P', lf(-2, 5)), L.e_int(rng, 'mix_ratio_smoothing', int(rng.integers(1, 40)))]
            elif gk == 'PowerGas':
                ent = [L.e_str(rng, 'profile_type', ['auto', 'H2O', 'TiO', 'Na', 'K'][rng.integers(0, 5)]),
                       L.e_float(rng, 'mix_ratio_surface', lf(-12, -1)), L.e_float(rng, 'alpha', f(0, 3)),
                       L.e_float(rng, 'beta', f(-1e4, 6e4)), L.e_float(rng, 'gamma', f(0, 30))]
            else:
                ent = [L.e_floatlist(rng, 'mix_ratio_array', 10 ** rng.uniform(-12, -1, int(rng.integers(1, 7))))]
            subs.append(L.Section(m, 'gas_type', L.rnd_case(rng, L.alias(rng, cl, gk)), gk, subset(rng, ent)))
        fills = ['H2', 'He', 'Ne'][:int(rng.integers(1, 4))]
        ent = [L.e_strlist(rng, 'fill_gases', fills, force_list=rng.random() < 0.5)]
        if len(fills) == 2 and rng.random() < 0.5:
            ent.append(L.e_float(rng, 'ratio', lf(-3, 0)))
        elif len(fills) > 1:
            ent.append(L.e_floatlist(rng, 'ratio', 10 ** rng.uniform(-3, 0, len(fills) - 1)))
        if rng.random() < 0.3:
            ent.append(L.e_float(rng, 'base_metallicty', lf(-3, -1)))
        return L.Section('Chemistry', 'chemistry_type', L.rnd_case(rng, L.alias(rng, cl, 'TaurexChemistry')), 'TaurexChemistry',
                         ent, subs), 'Chemistry'
    if kind == 'ChemistryFile':
        gases = ['H2O', 'CH4', 'H2', 'He'][:int(rng.integers(2, 5))]
        rows = rng.random((7, len(gases)))
        fn = write_table(os.path.join(sc, 'chem_%d.dat' % n), rows / rows.sum(axis=1)[:, None])
        ent = [L.e_str(rng, 'filename', fn), L.e_strlist(rng, 'gases', gases)]
        return L.Section('Chemistry', 'chemistry_type', L.rnd_case(rng, L.alias(rng, cl, 'ChemistryFile')), 'ChemistryFile',
                         ent), 'Chemistry'
    if kind == 'Planet':
        ent = [L.e_float(rng, 'planet_mass', lf(-2, 1.3)), L.e_float(rng, 'planet_radius', f(0.05, 2.5)),
               L.e_float(rng, 'planet_distance', lf(-2, 2)), L.e_float(rng, 'planet_sma', lf(-2, 2)),
               L.e_float(rng, 'impact_param', f(0, 1)), L.e_float(rng, 'orbital_period', lf(-1, 3)),
               L.e_float(rng, 'albedo', f(0, 1)), L.e_float(rng, 'transit_time', lf(2, 5))]
        return L.Section('Planet', 'planet_type', L.rnd_case(rng, 'simple'), 'Planet', subset(rng, ent)), 'Planet'
    if kind == 'Star':
        ent = [L.e_float(rng, 'temperature', f(2000, 12000)), L.e_float(rng, 'radius', lf(-1, 1)), L.e_float(rng, 'distance', lf(-1, 3)),
               L.e_float(rng, 'magnitudeK', f(0, 20)), L.e_float(rng, 'mass', lf(-1, 1)), L.e_float(rng, 'metallicity', lf(-1, 1))]
        return L.Section('Star', 'star_type', L.rnd_case(rng, 'blackbody'), 'BlackbodyStar', subset(rng, ent)), 'Star'
    if kind == 'Optimizer':
        if rng.random() < 0.5:
            k = 'NestleOptimizer'
            ent = [L.e_int(rng, 'num_live_points', int(rng.integers(5, 3000))), L.e_str(rng, 'method', ['multi', 'single', 'classic'][rng.integers(0, 3)]),
                   L.e_float(rng, 'tol', lf(-3, 1)), L.e_float(rng, 'sigma_fraction', f(0.01, 1))]
            ent = subset(rng, ent)
        else:
            k = 'MultiNestOptimizer'
            d = os.path.join(sc, 'mn_%d' % n)
            ent = [L.e_str(rng, 'sampling_efficiency', ['parameter', 'model'][rng.integers(0, 2)]),
                   L.e_int(rng, 'num_live_points', int(rng.integers(5, 3000))), L.e_int(rng, 'max_iterations', int(rng.integers(0, 9000))),
                   L.e_bool(rng, 'search_multi_modes', rng.random() < 0.5), L.e_int(rng, 'num_params_cluster', int(rng.integers(1, 6))),
                   L.e_int(rng, 'maximum_modes', int(rng.integers(1, 200))), L.e_bool(rng, 'constant_efficiency_mode', rng.random() < 0.5),
                   L.e_float(rng, 'evidence_tolerance', lf(-3, 1)), L.e_float(rng, 'mode_tolerance', -lf(0, 90)),
                   L.e_bool(rng, 'importance_sampling', rng.random() < 0.5), L.e_bool(rng, 'resume', rng.random() < 0.5),
                   L.e_int(rng, 'n_iter_before_update', int(rng.integers(1, 500))), L.e_str(rng, 'multinest_prefix', 'run%d-' % n),
                   L.e_bool(rng, 'verbose_output', rng.random() < 0.5), L.e_float(rng, 'sigma_fraction', f(0.01, 1))]
            ent = subset(rng, ent) + [L.e_str(rng, 'multi_nest_path', d)]
        return L.Section('Optimizer', 'optimizer', L.rnd_case(rng, L.alias(rng, cl, k)), k, ent), 'Optimizer'
    if kind == 'Instrument':
        if rng.random() < 0.5:
            k = 'SNRInstrument'
            ent = subset(rng, [L.e_float(rng, 'SNR', lf(0, 3))])
            return L.Section('Instrument', 'instrument', L.rnd_case(rng, 'snr'), k, ent), 'Instrument'
        k = 'InstrumentFile'
        wl = np.sort(rng.uniform(0.5, 10, 6))
        fn = write_table(os.path.join(sc, 'inst_%d.dat' % n), np.column_stack([wl, lf(-6, -3) * np.ones(6), np.gradient(wl)]))
        return L.Section('Instrument', 'instrument', L.rnd_case(rng, L.alias(rng, cl, k)), k, [L.e_str(rng, 'filename', fn)]), 'Instrument'
    if kind == 'Observation':
        wl = np.sort(rng.uniform(0.5, 10, 6))
        fn = write_table(os.path.join(sc, 'obs_%d.dat' % n), np.column_stack([wl, rng.uniform(1e-3, 1e-2, 6), 1e-5 * np.ones(6)]))
        if rng.random() < 0.5:
            # the documented key form: the key names the loader
            s = L.Section('Observation', None, None, 'ObservedSpectrum', [L.e_str(rng, 'observed_spectrum', fn)])
            s.ctor_keys = {'observed_spectrum': 'filename'}
            return s, 'Observation'
        return L.Section('Observation', 'observation', L.rnd_case(rng, L.alias(rng, cl, 'ObservedSpectrum')), 'ObservedSpectrum',
                         [L.e_str(rng, 'filename', fn)]), 'Observation'
    raise ValueError(kind)


KINDS = ['Temperature', 'Pressure', 'Chemistry', 'ChemistryFile', 'Planet', 'Star', 'Optimizer', 'Instrument', 'Observation']


def build_and_judge(ctx, rng, sec, gen, tag=''):
    """Write the one-section file, parse it, build the section, judge class and arriving values."""
    fn = os.path.join(ctx.scratch, 'c_%d.par' % ctx.cases)
    with open(fn, 'w') as fh:
        fh.write(L.render_file(rng, [sec]))
    pp = parse(fn)
    try:
        obj = generate(pp, gen)
    except Exception as e:
        ctx.check('selector-builds-class' + tag, False, section=sec.name, selector=sec.selector_text, klass=sec.klass,
                  error='%s: %s' % (type(e).__name__, e), file=open(fn).read()[:600])
        return None
    if gen == 'Instrument':
        obj = obj[0]
    ok = ctx.check('selector-builds-class' + tag, obj is not None and same_class(type(obj), sec.klass, _S['classes']),
                   section=sec.name, selector=sec.selector_text, want=sec.klass, got=type(obj).__name__)
    if not ok:
        return None
    ctx.observe('class:' + sec.klass, 'section:' + sec.name)
    if getattr(sec, 'ctor_keys', None):
        view = L.Section(sec.name, None, None, sec.klass, [L.Entry(sec.ctor_keys[e.key], e.text, e.expect, e.kind)
                                                           for e in sec.entries])
        judge_arrival(ctx, obj, view, tag)
    else:
        judge_arrival(ctx, obj, sec, tag)
    if sec.name == 'Chemistry' and sec.subsections:
        gases = {g.molecule: g for g in getattr(obj, '_gases', [])}
        ctx.check('object-graph' + tag, sorted(gases) == sorted(s.name for s in sec.subsections), what='gases',
                  got=sorted(gases), want=sorted(s.name for s in sec.subsections))
        for s in sec.subsections:
            g = gases.get(s.name)
            if g is None:
                continue
            ctx.observe('class:' + s.klass, 'section:Gas')
            ctx.check('selector-builds-class' + tag, same_class(type(g), s.klass, _S['classes']), section='Gas',
                      selector=s.selector_text, want=s.klass, got=type(g).__name__)
            view = L.Section(s.name, None, None, s.klass, list(s.entries) + [L.Entry('molecule_name', s.name, s.name, 'str')])
            judge_arrival(ctx, g, view, tag)
    if not tag and gen in ('Temperature', 'Chemistry') and not getattr(sec, 'ctor_keys', None) and ctx.case['index'] % 3 == 1:
        # the SAME parser builds the section a second time (a script building two models from one input file) after the
        # first object's parameters were written through its public setters: the second object carries the file's values
        wrote = 0
        try:
            for n_, t_ in obj.fitting_parameters().items():
                v_ = t_[2]()
                if isinstance(v_, (float, np.floating)) and np.isfinite(v_):
                    t_[3](float(v_) * 1.37 + 0.011)
                    wrote += 1
        except Exception:
            wrote = 0
        if wrote:
            try:
                obj2 = generate(pp, gen)
            except Exception as e:
                ctx.check('selector-builds-class[built-again-from-the-same-parser]', False, section=sec.name, klass=sec.klass,
                          error='%s: %s' % (type(e).__name__, e))
                return obj
            ctx.observe('parser:section-built-again-after-the-first-object-was-written')
            judge_arrival(ctx, obj2, sec, '[built-again-from-the-same-parser]')
    return obj


def mutate(ctx, rng, sec, gen):
    """One defect injected into a copy of the section -> the section's generate call has to raise."""
    import copy
    choice = ['unknown-key', 'unknown-selector', 'unknown-key-sub'][rng.integers(0, 3)]
    bad = copy.deepcopy(sec)
    if choice == 'unknown-key-sub' and not bad.subsections:
        choice = 'unknown-key'
    if choice == 'unknown-selector' and bad.field is None:
        choice = 'unknown-key'
    if choice == 'unknown-key':
        bad.entries.append(L.e_float(rng, rnd_unknown_key(rng), 1.5))
        mon = 'unknown-key-raises'
    elif choice == 'unknown-key-sub':
        bad.subsections[rng.integers(0, len(bad.subsections))].entries.append(L.e_float(rng, rnd_unknown_key(rng), 1.5))
        mon = 'unknown-key-raises'
    else:
        tgt = bad
        if bad.subsections and rng.random() < 0.5:
            tgt = bad.subsections[rng.integers(0, len(bad.subsections))]
        tgt.selector_text = 'zz' + rnd_unknown_key(rng)
        mon = 'unknown-selector-raises'
    fn = os.path.join(ctx.scratch, 'm_%d.par' % ctx.cases)
    with open(fn, 'w') as fh:
        fh.write(L.render_file(rng, [bad]))
    pp = parse(fn)
    must_raise(ctx, mon, lambda: generate(pp, gen), section=sec.name, klass=sec.klass, mutation=choice,
               file=open(fn).read()[:500])
    return choice


def wl_components(ctx, rng):
    kind = KINDS[rng.integers(0, len(KINDS))]
    r = rng.random()
    if r < 0.08:
        return composite_case(ctx, rng)
    if r < 0.16:
        return custom_case(ctx, rng)
    sec, gen = component_section(ctx, rng, kind)
    if sec.klass == 'SNRInstrument':
        from taurex.binning import NativeBinner
        _S['binner'] = NativeBinner()
    ctx.feature(section=sec.name, klass=sec.klass, keys=[e.key for e in sec.entries])
    obj = build_and_judge(ctx, rng, sec, gen)
    mut = None
    # [Instrument] snr and [Observation] are known not to check their keys: they have their own stratum ('known')
    if obj is not None and rng.random() < 0.5 and not (sec.klass == 'SNRInstrument' or sec.name == 'Observation'):
        mut = mutate(ctx, rng, sec, gen)
    ctx.sig('component', sec.name, sec.klass, tuple(sorted(e.key for e in sec.entries)), sec.selector_text, mut)
    ctx.sample({'section': sec.name, 'class': sec.klass, 'selector': sec.selector_text,
                'keys': {e.key: e.text for e in sec.entries}, 'mutation': mut})


def composite_case(ctx, rng):
    """``mixin+base`` selectors: tempscalar+<temperature>, makefree+file."""
    cl = _S['classes']
    ctx.observe('composite')
    if rng.random() < 0.6:
        base, _ = component_section(ctx, rng, 'Temperature')
        while base.klass == 'NPoint' and False:
            base, _ = component_section(ctx, rng, 'Temperature')
        sf = float(rng.uniform(0.5, 2))
        base.selector_text = L.rnd_case(rng, 'tempscalar') + '+' + base.selector_text
        base.entries.append(L.e_float(rng, 'scale_factor', sf))
        mixin, gen = 'TempScaler', 'Temperature'
    else:
        base, _ = component_section(ctx, rng, 'ChemistryFile')
        base.selector_text = L.rnd_case(rng, 'makefree') + '+' + base.selector_text
        base.subsections = [L.Section('TiO', 'gas_type', 'constant', 'ConstantGas', [L.e_float(rng, 'mix_ratio', 1e-7)])]
        mixin, gen = 'MakeFreeMixin', 'Chemistry'
    ctx.feature(section=base.name, klass=base.klass, composite=mixin)
    fn = os.path.join(ctx.scratch, 'x_%d.par' % ctx.cases)
    with open(fn, 'w') as fh:
        fh.write(L.render_file(rng, [base]))
    pp = parse(fn)
    obj = generate(pp, gen)
    names = [b.__name__ for b in type(obj).__mro__]
    ctx.check('composite-bases', mixin in names and base.klass in names and names.index(mixin) < names.index(base.klass),
              mro=names[:6], want=[mixin, base.klass])
    ctx.observe('class:' + base.klass)
    judge_arrival(ctx, obj, base)
    if mixin == 'TempScaler':
        ctx.check('composite-key-routing', abs(obj.scaleFactor - [e for e in base.entries if e.key == 'scale_factor'][0].expect) == 0,
                  got=obj.scaleFactor)
    else:
        ctx.check('composite-key-routing', hasattr(obj, 'addGas') and
                  sorted(g.molecule for g in obj._mixin_new_gas_list) == ['TiO'], what='makefree gases')
    # unknown key in a composite section raises as well
    import copy
    bad = copy.deepcopy(base)
    bad.entries.append(L.e_float(rng, rnd_unknown_key(rng), 2.0))
    with open(fn, 'w') as fh:
        fh.write(L.render_file(rng, [bad]))
    pp = parse(fn)
    must_raise(ctx, 'unknown-key-raises', lambda: generate(pp, gen), section=base.name, klass=base.klass, composite=mixin)
    ctx.sig('composite', mixin, base.klass, tuple(e.key for e in base.entries))


CUSTOM_SRC = '''
from taurex.{module} import {base}


class {name}({base}):
    """user class written by the harness"""

    def __init__(self, {args}):
        super().__init__({superargs})
        self.received = dict({received})
{extra}
'''


def custom_case(ctx, rng):
    ctx.observe('custom')
    which = ['Temperature', 'Pressure', 'Star'][rng.integers(0, 3)]
    name = 'User%s%d' % (which, ctx.cases)
    a, b = float(rng.uniform(100, 2000)), int(rng.integers(1, 50))
    flag = bool(rng.random() < 0.5)
    args = 'base_temp=1500.0, npts=10, flag=False, label="x"'
    received = 'base_temp=base_temp, npts=npts, flag=flag, label=label'
    if which == 'Temperature':
        src = CUSTOM_SRC.format(module='temperature', base='TemperatureProfile', name=name, args=args, superargs='"%s"' % name,
                                received=received, extra='''
    @property
    def profile(self):
        import numpy as np
        return np.ones(self.nlayers) * self.received['base_temp']
''')
        field, gen = 'profile_type', 'Temperature'
    elif which == 'Pressure':
        src = CUSTOM_SRC.format(module='pressure', base='PressureProfile', name=name, args=args, superargs='"%s", 10' % name,
                                received=received, extra='')
        field, gen = 'profile_type', 'Pressure'
    else:
        src = CUSTOM_SRC.format(module='stellar', base='Star', name=name, args=args, superargs='', received=received, extra='')
        field, gen = 'star_type', 'Star'
    py = os.path.join(ctx.scratch, '%s.py' % name.lower())
    with open(py, 'w') as fh:
        fh.write(src)
    ent = subset(rng, [L.e_float(rng, 'base_temp', a), L.e_int(rng, 'npts', b), L.e_bool(rng, 'flag', flag),
                       L.e_str(rng, 'label', 'hello')])
    sec = L.Section(which, field, L.rnd_case(rng, 'custom'), name, ent + [L.e_str(rng, 'python_file', py)])
    ctx.feature(section=which, klass=name, custom=True)
    fn = os.path.join(ctx.scratch, 'u_%d.par' % ctx.cases)
    with open(fn, 'w') as fh:
        fh.write(L.render_file(rng, [sec]))
    pp = parse(fn)
    obj = generate(pp, gen)
    ctx.check('custom-class-loaded', type(obj).__name__ == name and
              os.path.realpath(type(obj).__init__.__code__.co_filename) == os.path.realpath(py),
              got=type(obj).__name__, want=name)
    want = {'base_temp': 1500.0, 'npts': 10, 'flag': False, 'label': 'x'}
    for e in ent:
        ctx.observe('value:' + e.kind)
        ctx.check('key-arrives', arrived_ok(e.kind, obj.received[e.key], e.expect), key=e.key, klass=name, got=obj.received[e.key],
                  want=e.expect)
        want.pop(e.key)
    for k, v in want.items():
        ctx.check('default-otherwise', obj.received[k] == v and type(obj.received[k]) is type(v), key=k, got=obj.received[k], default=v)
    import copy
    bad = copy.deepcopy(sec)
    bad.entries.append(L.e_float(rng, rnd_unknown_key(rng), 2.0))
    with open(fn, 'w') as fh:
        fh.write(L.render_file(rng, [bad]))
    pp = parse(fn)
    must_raise(ctx, 'unknown-key-raises', lambda: generate(pp, gen), section=which, klass=name, custom=True)
    ctx.sig('custom', which, tuple(e.key for e in ent))


# -------------------------------------------------- strata of known findings
KNOWN_STRATA = ['gas:twopoint', 'Instrument:snr', 'Observation', 'Temperature:file-skiprows', 'cli:powergas-defaults']


def wl_known(ctx, rng):
    stratum = KNOWN_STRATA[(ctx.case['index'] + ctx.shard) % len(KNOWN_STRATA)]
    ctx.observe('stratum:' + stratum)
    ctx.feature(stratum=stratum)
    tag = '[%s]' % stratum
    cl = _S['classes']
    if stratum == 'gas:twopoint':
        kw = cl['TwoPointGas']['keywords'][rng.integers(0, 2)]
        sub = L.Section('H2O', 'gas_type', L.rnd_case(rng, kw), 'TwoPointGas',
                        subset(rng, [L.e_float(rng, 'mix_ratio_surface', 1e-4), L.e_float(rng, 'mix_ratio_top', 1e-7)]))
        sec = L.Section('Chemistry', 'chemistry_type', 'taurex', 'TaurexChemistry',
                        [L.e_strlist(rng, 'fill_gases', ['H2', 'He']), L.e_float(rng, 'ratio', 0.17)], [sub])
        build_and_judge(ctx, rng, sec, 'Chemistry', tag)
    elif stratum == 'cli:powergas-defaults':
        # the program with -o stores the model; a PowerGas left at its tabulated coefficients cannot be stored
        # (C16/powergas-write-none), so the program dies instead of producing its spectrum
        for _ in range(40):
            spec = draw_world(rng, powergas_defaults=True)
            if spec['temperature']['kind'] not in ('guillot', 'npoint'):
                break                 # (those two may reject the atmosphere themselves: a licensed, different exit)
        t = str(ctx.cases)
        xdir, cdir = L.write_world_files(spec, ctx.scratch, t)
        sections = L.sections_from_spec(rng, spec, cl, xdir, cdir, ctx.scratch, t)
        fn = os.path.join(ctx.scratch, 'kcli_%s.par' % t)
        with open(fn, 'w') as fh:
            fh.write(L.render_file(rng, sections))
        p = run_cli(['-i', fn, '-o', os.path.join(ctx.scratch, 'kcli_%s.h5' % t)])
        tail = p.stdout.decode(errors='replace')
        ctx.check('cli-exit-0' + tag, p.returncode == 0, rc=p.returncode, dies_in_powergas_write='powergas.py' in tail and
                  'in write' in tail, tail=tail[-600:])
    elif stratum == 'Temperature:file-skiprows':
        sec, gen = component_section(ctx, rng, 'Temperature', force='TemperatureFile', with_skiprows=True)
        build_and_judge(ctx, rng, sec, gen, tag)
    elif stratum == 'Instrument:snr':
        from taurex.binning import NativeBinner
        _S['binner'] = NativeBinner()
        sec = L.Section('Instrument', 'instrument', L.rnd_case(rng, 'snr'), 'SNRInstrument',
                        [L.e_float(rng, 'SNR', 20.0), L.e_float(rng, rnd_unknown_key(rng), 1.5)])
        fn = os.path.join(ctx.scratch, 'k_%d.par' % ctx.cases)
        with open(fn, 'w') as fh:
            fh.write(L.render_file(rng, [sec]))
        pp = parse(fn)
        must_raise(ctx, 'unknown-key-raises' + tag, lambda: generate(pp, 'Instrument'), section='Instrument')
    else:
        wl = np.sort(rng.uniform(0.5, 10, 6))
        f1 = write_table(os.path.join(ctx.scratch, 'ko_%d.dat' % ctx.cases), np.column_stack([wl, wl * 1e-3, wl * 1e-5]))
        sec = L.Section('Observation', None, None, 'ObservedSpectrum',
                        [L.e_str(rng, 'observed_spectrum', f1), L.e_float(rng, rnd_unknown_key(rng), 1.5)])
        fn = os.path.join(ctx.scratch, 'k_%d.par' % ctx.cases)
        with open(fn, 'w') as fh:
            fh.write(L.render_file(rng, [sec]))
        pp = parse(fn)
        must_raise(ctx, 'unknown-key-raises' + tag, lambda: generate(pp, 'Observation'), section='Observation')
    ctx.sig('known', stratum, ctx.case['index'])


# ------------------------------------------------------ (c) complete files
def draw_world(rng, powergas_defaults=False):
    spec = L16.rnd_model_spec(rng, stratum='powergas-defaults' if powergas_defaults else None)
    # what an input file cannot express (array arguments without defaults) or cannot resolve (see 'known') is redrawn
    L16.make_safe(spec, L16.bad_conditions(spec) & {'twopoint-gas', 'array-pressure', 'chemistry-file',
                                                    'temperature-array', 'pressure-file', 'temperature-file'})
    if spec['temperature']['kind'] == 'rodgers':
        spec['temperature']['covariance'] = None
    spec['_powergas_defaults'] = 'powergas-defaults' in L16.bad_conditions(spec)
    return spec


def library_model(spec, xdir, cdir, scratch):
    """The same components through the Python API (no parser, no factory)."""
    from taurex.cache import OpacityCache, CIACache
    world.reset_caches()
    OpacityCache().set_opacity_path(xdir)
    OpacityCache().set_interpolation(spec.get('interpolation', 'linear'))
    if cdir:
        CIACache().set_cia_path(cdir)
    return L16.build_full_model(spec, scratch)


def judge_graph(ctx, model, sections, tag=''):
    by = {s.name: s for s in sections}
    comp = {'Temperature': model.temperature, 'Pressure': model.pressure, 'Chemistry': model.chemistry,
            'Planet': model.planet, 'Star': model.star, 'Model': model}
    for name, obj in comp.items():
        s = by[name]
        ctx.observe('class:' + s.klass, 'section:' + name)
        ok = ctx.check('selector-builds-class' + tag, same_class(type(obj), s.klass, _S['classes']), section=name,
                       selector=s.selector_text, want=s.klass, got=type(obj).__name__)
        if ok:
            judge_arrival(ctx, obj, s, tag)
    gases = {g.molecule: g for g in model.chemistry._gases}
    want = {s.name: s for s in by['Chemistry'].subsections}
    ctx.check('object-graph' + tag, sorted(gases) == sorted(want), what='gases', got=sorted(gases), want=sorted(want))
    for m, s in want.items():
        if m in gases:
            ctx.observe('class:' + s.klass, 'section:Gas')
            ctx.check('selector-builds-class' + tag, same_class(type(gases[m]), s.klass, _S['classes']), section='Gas',
                      selector=s.selector_text, want=s.klass, got=type(gases[m]).__name__)
            judge_arrival(ctx, gases[m], L.Section(m, None, None, s.klass,
                                                   list(s.entries) + [L.Entry('molecule_name', m, m, 'str')]), tag)
    cw = [s.klass for s in by['Model'].subsections]
    got = [type(c).__name__ for c in model.contribution_list]
    ctx.check('object-graph' + tag, got == cw, what='contributions (exactly those written, in file order)', got=got, want=cw)
    for c, s in zip(model.contribution_list, by['Model'].subsections):
        if type(c).__name__ == s.klass:
            ctx.observe('class:' + s.klass, 'section:Contribution')
            judge_arrival(ctx, c, s, tag)
    ctx.check('object-graph' + tag, model.planet is not None and model.star is not None and
              model.chemistry is comp['Chemistry'], what='components attached')


def wl_files(ctx, rng):
    from taurex.exceptions import InvalidModelException
    spec = draw_world(rng)
    tag = str(ctx.cases)
    xdir, cdir = L.write_world_files(spec, ctx.scratch, tag)
    sections = L.sections_from_spec(rng, spec, _S['classes'], xdir, cdir, ctx.scratch, tag)
    fn = os.path.join(ctx.scratch, 'f_%s.par' % tag)
    with open(fn, 'w') as fh:
        fh.write(L.render_file(rng, sections))
    ctx.feature(model=spec['model'], T=spec['temperature']['kind'], gases=[g['kind'] for g in spec['gases']],
                contributions=[c if isinstance(c, str) else c['name'] for c in spec['contributions']])
    pp = parse(fn)
    model = pp.generate_model()
    judge_graph(ctx, model, sections)
    # an unknown key / contribution somewhere in the complete file
    import copy
    bad = copy.deepcopy(sections)
    target = [s for s in bad if s.name == 'Model'][0]
    r = rng.integers(0, 3)
    if r == 0:
        target.entries.append(L.e_float(rng, rnd_unknown_key(rng), 1.0))
        mon = 'unknown-key-raises'
    elif r == 1:
        target.subsections.append(L.Section('Zz' + rnd_unknown_key(rng), None, None, None, []))
        mon = 'unknown-contribution-raises'
    else:
        sub = target.subsections[rng.integers(0, len(target.subsections))]
        sub.entries.append(L.e_float(rng, rnd_unknown_key(rng), 1.0))
        mon = 'unknown-key-raises'
    fb = os.path.join(ctx.scratch, 'fb_%s.par' % tag)
    with open(fb, 'w') as fh:
        fh.write(L.render_file(rng, bad))
    ppb = parse(fb)
    must_raise(ctx, mon, ppb.generate_model, section='Model', mutation=int(r))
    # the parsed model and the library model give the same spectrum
    pp = parse(fn)
    model = pp.generate_model()
    try:
        model.build()
        res = model.model()
    except InvalidModelException as e:
        if spec['temperature']['kind'] not in ('guillot', 'npoint'):
            raise
        ctx.license(type(e).__name__)
        return
    lib = library_model(spec, xdir, cdir, ctx.scratch)
    lib.build()
    ref = lib.model()
    ctx.close('parsed-model=library', res[0], ref[0], 0.0, what='grid')
    # same constructor values, same code, same process: 1e-13 covers nothing but summation-order noise
    ctx.close('parsed-model=library', res[1], ref[1], 1e-13, what='spectrum', model=spec['model'])
    ctx.sig('file', spec['model'], spec['temperature']['kind'], tuple(g['kind'] for g in spec['gases']),
            tuple(s.name for s in [x for x in sections if x.name == 'Model'][0].subsections), round(spec['planet_mass'], 6))
    ctx.sample({'model': spec['model'], 'T': spec['temperature']['kind'], 'gases': [g['kind'] for g in spec['gases']],
                'contributions': [c if isinstance(c, str) else c['name'] for c in spec['contributions']],
                'file_head': open(fn).read()[:400]})


def run_cli(args, timeout=600):
    env = dict(os.environ)
    env.pop('NUMBA_DISABLE_JIT', None)
    cmd = [sys.executable, '-W', 'ignore', '-m', 'taurex.taurex'] + args
    return subprocess.run(cmd, env=env, stdout=subprocess.PIPE, stderr=subprocess.STDOUT, timeout=timeout, cwd=os.getcwd())


def wl_cli(ctx, rng):
    """The program as a subprocess against the library, with the options the program adds (binning, instrument, size)."""
    import h5py
    from taurex.exceptions import InvalidModelException
    from taurex.binning import FluxBinner, SimpleBinner
    from taurex.util.util import wnwidth_to_wlwidth, compute_bin_edges
    for _ in range(40):
        spec = draw_world(rng)
        if spec['temperature']['kind'] in ('guillot', 'npoint'):
            continue                              # these may reject the atmosphere: not a CLI concern
        if spec['_powergas_defaults']:
            continue                              # stratum 'cli:powergas-defaults' of the 'known' workload
        break
    tag = str(ctx.cases)
    xdir, cdir = L.write_world_files(spec, ctx.scratch, tag)
    sections = L.sections_from_spec(rng, spec, _S['classes'], xdir, cdir, ctx.scratch, tag)
    wn = next(iter(spec['tables'].values()))['wn']
    mode = ['native', 'binning-manual', 'instrument-snr'][(ctx.case['index'] + ctx.shard) % 3]
    ctx.observe('cli:' + mode)
    binner = None
    snr = None
    if mode in ('binning-manual', 'instrument-snr'):
        lo, hi, npt = float(wn[0] * 1.02), float(wn[-1] * 0.98), int(rng.integers(2, 6))
        accurate = bool(rng.random() < 0.5)
        # the four documented ways of writing a manual grid: "start, end, number of points", equally spaced in wavenumber,
        # in wavelength (micron), or in the logarithm of either; the expected centres are written out here
        kk = ctx.case['index'] + ctx.shard            # cycled with the case, so that the few program runs of the quick tier cover all four
        gkey = ['wavenumber_grid', 'wavelength_grid', 'log_wavenumber_grid', 'log_wavelength_grid'][(kk // 3 * 2 + (kk % 3 - 1)) % 4]
        if mode == 'binning-manual' and npt == 2:
            npt = int(rng.integers(3, 7))            # with two points every spacing gives the same grid
        if gkey == 'wavenumber_grid':
            a, b = lo, hi
            grid = np.linspace(a, b, npt)
        elif gkey == 'log_wavenumber_grid':
            a, b = lo, hi
            grid = 10 ** np.linspace(np.log10(a), np.log10(b), npt)
        elif gkey == 'wavelength_grid':
            a, b = 1e4 / hi, 1e4 / lo
            grid = np.sort(1e4 / np.linspace(a, b, npt))
        else:
            a, b = 1e4 / hi, 1e4 / lo
            grid = np.sort(1e4 / 10 ** np.linspace(np.log10(a), np.log10(b), npt))
        ctx.observe('cli:binning-key:' + gkey)
        sections.append(L.Section('Binning', 'bin_type', 'manual', None,
                                  [L.e_floatlist(rng, gkey, [a, b, npt]), L.e_bool(rng, 'accurate', accurate)]))
        binner = (FluxBinner if accurate else SimpleBinner)(grid)
    if mode == 'instrument-snr':
        snr = float(rng.uniform(5, 50))
        sections.append(L.Section('Instrument', 'instrument', 'snr', 'SNRInstrument', [L.e_float(rng, 'SNR', snr)]))
    fn = os.path.join(ctx.scratch, 'cli_%s.par' % tag)
    with open(fn, 'w') as fh:
        fh.write(L.render_file(rng, sections))
    out, spc = os.path.join(ctx.scratch, 'cli_%s.h5' % tag), os.path.join(ctx.scratch, 'cli_%s.dat' % tag)
    size = ['', '--light', '--lighter'][rng.integers(0, 3)]
    ctx.feature(mode=mode, size=size, model=spec['model'])
    p = run_cli(['-i', fn, '-o', out, '-S', spc] + ([size] if size else []))
    ok = ctx.check('cli-exit-0', p.returncode == 0 and os.path.exists(out) and os.path.exists(spc), rc=p.returncode,
                   tail=p.stdout.decode(errors='replace')[-1200:])
    if not ok:
        return
    lib = library_model(spec, xdir, cdir, ctx.scratch)
    lib.build()
    ref = lib.model()
    native_wn, native = np.asarray(ref[0]), np.asarray(ref[1])
    if binner is None:
        want_wn, want = native_wn, native
        want_wlw = wnwidth_to_wlwidth(native_wn, compute_bin_edges(native_wn)[1])
    else:
        want_wn, want = grid, binner.bindown(native_wn, native)[1]
        want_wlw = wnwidth_to_wlwidth(grid, compute_bin_edges(grid)[1])
    txt = np.loadtxt(spc, ndmin=2)
    ctx.close('cli-S=library', txt[:, 0], 1e4 / want_wn, 1e-15 if binner is None else 1e-12, what='wavelength')
    ctx.close('cli-S=library', txt[:, 1], want, 1e-13, what='spectrum', mode=mode)
    if snr is not None:
        noise = np.ones(want.shape) * (want.max() - want.min()) / snr
        # the noise is a DIFFERENCE of two spectrum values: the 1e-13 agreement of the spectra (above) carries over as
        # 2e-13 * max|spectrum| / snr in absolute terms, however small max - min is
        ctx.close('cli-S=library', txt[:, 2], noise, 1e-12, atol=2e-13 * float(np.max(np.abs(want))) / snr, what='noise', snr=snr)
    else:
        ctx.close('cli-S=library', txt[:, 2], np.zeros(len(want)), 0.0, what='error column')
    with h5py.File(out, 'r') as f:
        sp = f['Output/Spectra']
        ctx.close('cli-hdf5=library', sp['native_wngrid'][()], native_wn, 0.0, what='native grid')
        ctx.close('cli-hdf5=library', sp['native_spectrum'][()], native, 1e-13, what='native spectrum', model=spec['model'])
        if binner is not None:
            ctx.close('cli-hdf5=library', sp['binned_spectrum'][()], want, 1e-13, what='binned spectrum')
        ctx.check('cli-hdf5-model-type', L16.decode(f['ModelParameters/model_type'][()]) == type(lib).__name__)
        has_native_tau, has_binned_tau = 'native_tau' in sp, 'binned_tau' in sp
        ctx.check('cli-output-size', has_native_tau == (size == '') and has_binned_tau == (size != '--lighter' and binner is not None),
                  size=size, native_tau=has_native_tau, binned_tau=has_binned_tau, binned=binner is not None)
    ctx.sig('cli', mode, size, spec['model'], spec['temperature']['kind'], round(spec['planet_mass'], 6))
    ctx.sample({'mode': mode, 'size': size, 'model': spec['model'], 'points': int(len(want))})
    # the program reports an unknown key as an error as well (every case in the thorough tier, every other one in
    # the quick tier: a second interpreter start)
    if ctx.tier == 'quick' and (ctx.case['index'] + ctx.shard) % 2:
        return
    import copy
    bad = copy.deepcopy(sections)
    tgt = [s for s in bad if s.name in ('Temperature', 'Planet', 'Model')][rng.integers(0, 3)]
    tgt.entries.append(L.e_float(rng, rnd_unknown_key(rng), 1.0))
    fb = os.path.join(ctx.scratch, 'clib_%s.par' % tag)
    with open(fb, 'w') as fh:
        fh.write(L.render_file(rng, bad))
    outb = os.path.join(ctx.scratch, 'clib_%s.h5' % tag)
    pb = run_cli(['-i', fb, '-o', outb])
    ctx.check('cli-unknown-key-nonzero-exit', pb.returncode != 0, rc=pb.returncode, section=tgt.name,
              tail=pb.stdout.decode(errors='replace')[-400:])


WORKLOADS = {'docs': wl_docs, 'known': wl_known, 'components': wl_components, 'files': wl_files, 'cli': wl_cli}

LEVEL_TEXT = ('Exploration by runtime monitoring: the constructors of every built-in component class are tapped and record the '
              'keyword arguments that actually arrive; the user documentation is parsed as text and the source tree scanned '
              'with ast, so that every documented selector whose class exists must resolve through the section factory to '
              'exactly that class; thousands of generated input files (every alias, casing, number format, boolean spelling, '
              'list form; unknown keys/selectors/contributions injected; composite and custom selectors) are parsed by the real '
              'ParameterParser and the arriving values, defaults and the object graph are judged against what was written; '
              'complete files are additionally run through the command-line program as a subprocess and its -S/-o spectra '
              'compared with the same components built directly through the Python API (1e-13). Held = held on the recorded '
              'executions.')
LEVEL_NOTE = ('Trusted: the ast scan of constructor signatures/defaults and the text parser of the .rst files (lib_c15); '
              'configobj as the file reader. Selectors needing absent external packages (polychord family, ace, BHMie) and '
              'PhoenixStar/lightcurve/iraclis data are out of scope and listed in the evidence notes.')
TECHNIQUE = ('constructor taps on the real component classes + documentation/ast-driven oracle over generated input files + '
             'subprocess runs of the command-line program against the library')
