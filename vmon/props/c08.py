"""C08 -- prior transforms are monotone inverse-CDF maps in the declared space.

Monitors
  * icontract postconditions on Uniform.sample / Gaussian.sample / Prior.prior /
    boundaries, attached to the real classes.  The oracle inside the contract
    does not look at the object's private state: a tap on every prior's
    __init__ records the *declared* constructor arguments, and the contract
    computes the inverse CDF from those.
  * workloads: direct construction, text form via factory.create_prior (the
    input-file route), default priors from (mode, bounds) through the module
    level compile_params.
"""
import math

import numpy as np
from scipy.special import erfc, ndtri

from vmon import contracts, own, world

PROPERTY = 'C08'
RULE = ('priors drawn from a seeded generator: bounds in either order over +-150 decades, widths '
        '1e-12..1e12, u on a grid containing 0, 1, tails and random points; prior strings generated from '
        'the documented syntax; a case is non-trivial when its (class, declared arguments) tuple is new '
        'and the two bounds differ / std > 0')
ASSUMPTIONS = [
    'lin_std of LogGaussian is not in the statement; it is exercised but not judged',
    'magnitudes are limited to 1e150 so that |b-a| does not overflow a double',
]
BUDGET = {
    'quick': [dict(name='main', env={}, shards=2,
                   cases={'uniform': 500, 'gaussian': 500, 'strings': 250, 'defaults': 250, 'defaults_objects': 100, 'optimizer': 40})],
    'thorough': [dict(name='main', env={}, shards=16,
                      cases={'uniform': 3200, 'gaussian': 3200, 'strings': 1500, 'defaults': 1500, 'defaults_objects': 600, 'optimizer': 300}),
                 dict(name='repo-tests', env={}, shards=1, cases={'repo_tests': 1})],
}
REQUIRED = dict(monitors=['contract:uniform.sample', 'contract:gaussian.sample', 'contract:prior.prior',
                          'uniform-inverse-cdf', 'gaussian-roundtrip-cdf', 'text-equals-direct',
                          'default-prior', 'monotone', 'lin-equivalence', 'default-prior-of-own-bounds',
                          'text-read-again-equals-direct', 'optimizer-default-prior-follows-current-bounds', 'clone:same-class-and-space', 'clone:same-map', 'caller-input-left-alone'],
                classes=['Uniform', 'LogUniform', 'Gaussian', 'LogGaussian', 'bounds-reversed', 'u=0', 'u=1',
                         'set_bounds-on-live-object', 'text:first-object-retuned', 'modify_bounds:NPoint',
                         'modify_bounds:Isothermal', 'clone:deepcopy', 'clone:pickle', 'clone:pickle2', 'clone:copy',
                         'layout:0-d', 'layout:(n,1)', 'layout:(1,n)', 'layout:2-d-C', 'layout:2-d-F', 'layout:transposed-view',
                         'layout:strided', 'layout:read-only', 'layout:list', 'bounds:given-as-caller-array', 'optimizer-bounds-rewritten:ordinary',
                         'optimizer-bounds-rewritten:a-few-parts-per-billion', 'optimizer-bounds-rewritten:between-tiny-values'])


def classify(f):
    return None


def setup(ctx):
    contracts.install_prior_contracts(ctx)


# --------------------------------------------------------------- helpers
def u_grid(rng):
    base = [0.0, 1.0, 0.5, 1e-300, 1e-16, 1e-9, 1e-3, 0.1, 0.16, 0.84, 0.9, 1 - 1e-3, 1 - 1e-9, 1 - 1e-16]
    return np.sort(np.concatenate([base, rng.random(24), 10 ** rng.uniform(-12, 0, 6)]))


def rnd_mag(rng, lo=-150, hi=150):
    s = rng.choice([-1.0, 1.0])
    return float(s * 10 ** rng.uniform(lo, hi))


def rnd_bounds(rng):
    kind = rng.integers(0, 5)
    if kind == 0:
        a, b = rng.uniform(-10, 10, 2)
    elif kind == 1:
        a, b = rnd_mag(rng), rnd_mag(rng)
    elif kind == 2:   # narrow interval far from zero
        a = rnd_mag(rng, -3, 12)
        b = a * (1 + 10 ** rng.uniform(-10, -1))
    elif kind == 3:
        a, b = 0.0, rnd_mag(rng, -30, 30)
    else:
        a, b = sorted(rng.integers(-30, 30, 2).tolist())
        a, b = float(a), float(b + 1)
    if a == b:
        b = a + 1.0
    if rng.random() < 0.5:
        a, b = b, a
    return float(a), float(b)


def check_monotone(ctx, name, u, x):
    x = np.asarray(x, dtype=float)
    ctx.check('monotone', np.all(np.diff(x) >= 0) and not np.any(np.isnan(x)), prior=name,
              u=u, x=x)


def uniform_oracle(a, b, u):
    lo, hi = min(a, b), max(a, b)
    return lo + (hi - lo) * np.asarray(u)


# --------------------------------------------------------------- workloads
def wl_uniform(ctx, rng):
    from taurex.core.priors import Uniform, LogUniform, PriorMode
    a, b = rnd_bounds(rng)
    u = u_grid(rng)
    log = rng.random() < 0.5
    if a > b:
        ctx.observe('bounds-reversed')
    ctx.observe('u=0', 'u=1')
    container = [tuple, list, np.array][rng.integers(0, 3)]
    led = own.Ledger(ctx, 'bounds')
    if not log:
        ctx.observe('Uniform')
        given = container((a, b))
        p = Uniform(bounds=led.lend(given, 'bounds') if isinstance(given, np.ndarray) else given)
        led.settle('Uniform(bounds=array)')
        x = np.array([p.sample(ui) for ui in u])
        if isinstance(given, np.ndarray):
            ctx.observe('bounds:given-as-caller-array')
        want = uniform_oracle(a, b, u)
        scale = max(abs(a), abs(b))
        ctx.close('uniform-inverse-cdf', x, want, 1e-12, atol=1e-12 * scale, bounds=(a, b))
        check_monotone(ctx, 'Uniform', u, x)
        ctx.check('uniform-onto-support', x[0] == min(a, b) and abs(x[-1] - max(a, b)) <= 1e-12 * scale,
                  bounds=(a, b), ends=(x[0], x[-1]))
        ctx.close('boundaries', p.boundaries(), (min(a, b), max(a, b)), 0.0)
        ctx.check('prior-identity', all(p.prior(v) == v for v in x), bounds=(a, b))
        ctx.check('prior-mode', p.priorMode is PriorMode.LINEAR)
        # vectorised call gives the same as scalar calls
        ctx.close('vector-equals-scalar', p.sample(u), x, 0.0)
        judge_layouts(ctx, rng, p, u, x)
        ctx.sig('Uniform', a, b)
        ctx.sample({'class': 'Uniform', 'bounds': (a, b), 'u': u[:5], 'x': x[:5]})
    else:
        ctx.observe('LogUniform')
        # declared in log space, or in linear space (lin_bounds)
        def squash(v):
            return v if abs(v) < 300 else math.copysign(math.log10(abs(v)), v)
        la, lb = squash(a), squash(b)
        if la == lb:
            lb = la + 1
        given = container((la, lb))
        p = LogUniform(bounds=led.lend(given, 'bounds') if isinstance(given, np.ndarray) else given)
        led.settle('LogUniform(bounds=array)')
        x = np.array([p.sample(ui) for ui in u])
        if isinstance(given, np.ndarray):
            ctx.observe('bounds:given-as-caller-array')
        want = uniform_oracle(la, lb, u)
        scale = max(abs(la), abs(lb))
        ctx.close('uniform-inverse-cdf', x, want, 1e-12, atol=1e-12 * scale, bounds=(la, lb), log=True)
        check_monotone(ctx, 'LogUniform', u, x)
        judge_layouts(ctx, rng, p, u, x)
        ctx.check('prior-mode', p.priorMode is PriorMode.LOG)
        xs = x[np.abs(x) < 300]
        ctx.close('log-prior-10**x', [p.prior(v) for v in xs], 10.0 ** xs, 1e-13, bounds=(la, lb))
        ctx.close('boundaries', p.boundaries(), (min(la, lb), max(la, lb)), 0.0)
        # lin_bounds = (10**la, 10**lb) is the same prior
        A, B = (10.0 ** la, 10.0 ** lb) if max(abs(la), abs(lb)) < 290 else (1.0, 1.0)
        if A != B:
            q = LogUniform(lin_bounds=container((A, B)))
            ctx.close('lin-equivalence', q.boundaries(), (math.log10(min(A, B)), math.log10(max(A, B))), 1e-13,
                      atol=1e-13, lin_bounds=(A, B))
            ctx.close('lin-equivalence', [q.sample(ui) for ui in u], want, 1e-11, atol=1e-11 * max(scale, 1.0),
                      lin_bounds=(A, B))
        ctx.sig('LogUniform', la, lb)
    # the bounds of the LIVE object are set again (set_bounds is public; the optimizer does this for default priors)
    if rng.random() < 0.5:
        a2, b2 = rnd_bounds(rng)
        if log:
            a2, b2 = squash(a2), squash(b2)
            if a2 == b2:
                b2 = a2 + 1
        given2 = container((a2, b2))
        p.set_bounds(led.lend(given2, 'set_bounds argument') if isinstance(given2, np.ndarray) else given2)
        led.settle('set_bounds(array)')
        ctx.observe('set_bounds-on-live-object')
        x2 = np.array([p.sample(ui) for ui in u])
        ctx.close('uniform-inverse-cdf', x2, uniform_oracle(a2, b2, u), 1e-12, atol=1e-12 * max(abs(a2), abs(b2)),
                  bounds=(a2, b2), after_set_bounds=True, first=(a, b))
        ctx.close('boundaries', p.boundaries(), (min(a2, b2), max(a2, b2)), 0.0, after_set_bounds=True)
        check_monotone(ctx, 'after-set_bounds', u, x2)
    if rng.random() < 0.5:
        judge_clone(ctx, rng, p, u)




def judge_layouts(ctx, rng, p, u, x):
    """``sample`` handed the unit-cube coordinates in another container / memory layout gives, element by element, what
    the scalar calls give (x = [p.sample(ui) for ui in u])."""
    k = len(u)
    kind = ['0-d', 'list', '(n,1)', '(1,n)', '2-d-C', '2-d-F', 'transposed-view', 'strided', 'read-only', 'float32-exact'][rng.integers(0, 10)]
    rows = 2 + int(rng.integers(0, 3))
    idx = rng.integers(0, k, (rows, 3))
    if kind == '0-d':
        j = int(rng.integers(0, k))
        arg, want = np.array(u[j]), np.array(x[j])
    elif kind == 'list':
        arg, want = [float(v) for v in u], x
    elif kind == '(n,1)':
        arg, want = u.reshape(-1, 1).copy(), x.reshape(-1, 1)
    elif kind == '(1,n)':
        arg, want = u.reshape(1, -1).copy(), x.reshape(1, -1)
    elif kind == '2-d-C':
        arg, want = np.ascontiguousarray(u[idx]), x[idx]
    elif kind == '2-d-F':
        arg, want = np.asfortranarray(u[idx]), x[idx]
    elif kind == 'transposed-view':
        arg, want = np.ascontiguousarray(u[idx].T).T, x[idx]
    elif kind == 'strided':
        arg, want = np.repeat(u, 2)[::2], x
    elif kind == 'read-only':
        arg, want = u.copy(), x
        arg.setflags(write=False)
    else:
        # values exactly representable in single precision, typed float32
        sel = np.array([i for i in range(k) if float(np.float32(u[i])) == float(u[i])], dtype=int)
        if len(sel) == 0:
            return
        arg, want = u[sel].astype(np.float32), x[sel]
    before = np.array(arg, dtype=float, copy=True)
    got = p.sample(arg)
    ctx.observe('layout:' + kind)
    ok = np.shape(got) == np.shape(want) and bool(np.array_equal(np.asarray(got, dtype=float), np.asarray(want, dtype=float),
                                                                 equal_nan=True))
    worst = None
    if not ok and np.shape(got) == np.shape(want):
        d = np.abs(np.asarray(got, dtype=float) - np.asarray(want, dtype=float))
        worst = [float(np.asarray(got, dtype=float).flat[int(np.nanargmax(d))]), float(np.asarray(want, dtype=float).flat[int(np.nanargmax(d))])]
    ctx.check('vector-equals-scalar', ok, layout=kind, cls=type(p).__name__, shape_got=list(np.shape(got)),
              shape_want=list(np.shape(want)), worst_got_want=worst)
    ctx.check('sample-leaves-its-argument-alone', bool(np.array_equal(np.asarray(arg, dtype=float), before)), layout=kind)


def judge_clone(ctx, rng, p, u):
    """The same prior reached by another route -- ``copy.copy`` / ``copy.deepcopy`` / a pickle round trip (what a
    sampler that farms the prior transform out to worker processes gets): it has to be the same map in the same space.
    ``sample`` / ``prior`` of the copy run under the same contracts (its declaration travels with it)."""
    from taurex.core.priors import PriorMode
    how = ['deepcopy', 'pickle', 'pickle2', 'copy'][rng.integers(0, 4)]
    q = world.clone(p, how)
    ctx.observe('clone:' + how)
    log = type(p).__name__.startswith('Log')
    ctx.check('clone:same-class-and-space', type(q) is type(p) and q.priorMode is (PriorMode.LOG if log else PriorMode.LINEAR),
              how=how, cls=type(p).__name__, mode=str(q.priorMode))
    with np.errstate(over='ignore'):
        a = np.array([p.sample(ui) for ui in u], dtype=float)
        b = np.array([q.sample(ui) for ui in u], dtype=float)
        fin = np.isfinite(a) & (np.abs(a) < 300)
        pa = np.array([p.prior(v) for v in a[fin]], dtype=float)
        pb = np.array([q.prior(v) for v in a[fin]], dtype=float)
    ctx.check('clone:same-map', bool(np.array_equal(a, b, equal_nan=True)) and bool(np.array_equal(pa, pb, equal_nan=True)),
              how=how, cls=type(p).__name__, sample_first=[float(a[1]), float(b[1])] if len(a) > 1 else None,
              prior_first=[float(pa[0]), float(pb[0])] if len(pa) else None)
    ctx.close('clone:boundaries', q.boundaries(), p.boundaries(), 0.0, how=how)


def norm_cdf(z):
    return 0.5 * erfc(-np.asarray(z) / math.sqrt(2.0))


def wl_gaussian(ctx, rng):
    from taurex.core.priors import Gaussian, LogGaussian, PriorMode
    kind = rng.integers(0, 3)
    if kind == 0:
        mean, std = float(rng.uniform(-10, 10)), float(10 ** rng.uniform(-3, 2))
    elif kind == 1:
        mean, std = rnd_mag(rng, -12, 12), float(10 ** rng.uniform(-12, 12))
    else:
        mean, std = float(rng.integers(-12, 12)), float(rng.integers(1, 5))
    u = u_grid(rng)
    log = rng.random() < 0.5
    ctx.observe('u=0', 'u=1')
    if log:
        ctx.observe('LogGaussian')
        if abs(mean) > 250:
            mean = math.copysign(math.log10(abs(mean)), mean)
        p = LogGaussian(mean=mean, std=std)
    else:
        ctx.observe('Gaussian')
        p = Gaussian(mean=mean, std=std)
    x = np.array([p.sample(ui) for ui in u])
    want = mean + std * ndtri(u)
    ctx.close('gaussian-inverse-cdf', x, want, 1e-12, atol=1e-12 * abs(mean), mean=mean, std=std)
    check_monotone(ctx, type(p).__name__, u, x)
    ctx.check('gaussian-onto-support', x[0] == -np.inf and x[-1] == np.inf, ends=(x[0], x[-1]))
    # independent round trip through erfc (no ndtri): Phi((x-mu)/sigma) == u.  The
    # subtraction x-mu cancels when std << |mean|; judge where it is well conditioned.
    inner = (u > 0) & (u < 1)
    z = (x[inner] - mean) / std
    cond = abs(mean) / std * 2.3e-16       # absolute error of z from representing x
    ui = u[inner]
    dens = np.exp(-0.5 * z * z) / math.sqrt(2 * math.pi)
    tolr = 1e-9
    ctx.close('gaussian-roundtrip-cdf', norm_cdf(z), ui, tolr, atol=4 * cond * np.max(dens) + 1e-300,
              mean=mean, std=std)
    ctx.close('vector-equals-scalar', p.sample(u), x, 0.0)
    judge_layouts(ctx, rng, p, u, x)
    b = p.boundaries()
    ctx.close('boundaries', b, (mean + std * ndtri(0.1), mean + std * ndtri(0.9)), 1e-12, atol=1e-12 * abs(mean))
    if log:
        ctx.check('prior-mode', p.priorMode is PriorMode.LOG)
        xs = x[np.abs(x) < 300]
        ctx.close('log-prior-10**x', [p.prior(v) for v in xs], 10.0 ** xs, 1e-13)
        if abs(mean) < 290:
            q = LogGaussian(lin_mean=10.0 ** mean, std=std)
            ctx.close('lin-equivalence', [q.sample(ui_) for ui_ in u[inner]], want[inner], 1e-11,
                      atol=1e-11 * max(abs(mean), 1.0), lin_mean=10.0 ** mean)
            # lin_std is only observed
            try:
                LogGaussian(mean=mean, lin_std=10.0 ** min(std, 100.0)).sample(0.3)
                ctx.event('lin_std-observed')
            except Exception:
                ctx.event('lin_std-raised')
    else:
        ctx.check('prior-mode', p.priorMode is PriorMode.LINEAR)
        ctx.check('prior-identity', all(p.prior(v) == v for v in x[inner]))
    if rng.random() < 0.5:
        judge_clone(ctx, rng, p, u)
    ctx.sig(type(p).__name__, mean, std)
    ctx.sample({'class': type(p).__name__, 'mean': mean, 'std': std, 'u': u[1:5], 'x': x[1:5]})


def fmt_num(rng, v):
    """A documented way of writing the number v in an input file -> (text, python value)."""
    v = float(v)
    k = rng.integers(0, 4)
    if v == int(v) and abs(v) < 1e6 and k == 0:
        return str(int(v)), int(v)
    if k == 1:
        return repr(v), v
    if k == 2:
        t = '%.17e' % v
        return t, float(t)
    t = '%.17g' % v
    return t, (int(t) if t.lstrip('-').isdigit() else float(t))


def wl_strings(ctx, rng):
    from taurex.parameter.factory import create_prior
    from taurex.core import priors as P
    cls = ['Uniform', 'LogUniform', 'Gaussian', 'LogGaussian'][rng.integers(0, 4)]
    casing = rng.integers(0, 3)
    written = [cls, cls.lower(), cls.upper()][casing]
    ctx.observe('text:' + cls, 'casing:%d' % casing)
    kwargs = {}
    parts = []
    sp = ['', ' '][rng.integers(0, 2)]
    if cls in ('Uniform', 'LogUniform'):
        a, b = rnd_bounds(rng)
        if cls == 'LogUniform' and max(abs(a), abs(b)) > 250:
            a, b = math.copysign(3.0, a), math.copysign(7.5, b)
        key = 'bounds'
        if cls == 'LogUniform' and rng.random() < 0.5:
            key = 'lin_bounds'
            a, b = 10.0 ** rng.uniform(-30, 5), 10.0 ** rng.uniform(-30, 5)
        (sa, a), (sb, b) = fmt_num(rng, a), fmt_num(rng, b)
        if a == b:
            return
        br = [('(', ')'), ('[', ']')][rng.integers(0, 2)]
        parts.append('%s=%s%s,%s%s%s' % (key, br[0], sa, sp, sb, br[1]))
        kwargs[key] = (a, b) if br[0] == '(' else [a, b]
    else:
        mean = float(rng.uniform(-12, 12)) if rng.random() < 0.7 else rnd_mag(rng, -6, 6)
        std = float(10 ** rng.uniform(-4, 3))
        names = ['mean', 'std']
        if cls == 'LogGaussian' and rng.random() < 0.5:
            names[0] = 'lin_mean'
            mean = 10.0 ** rng.uniform(-20, 5)
        (sm, mean), (ss, std) = fmt_num(rng, mean), fmt_num(rng, std)
        order = [0, 1] if rng.random() < 0.7 else [1, 0]
        vals = [(names[0], sm, mean), ('std', ss, std)]
        for i in order:
            if rng.random() < 0.9 or i == 0:
                parts.append('%s=%s' % vals[i][:2])
                kwargs[vals[i][0]] = vals[i][2]
    text = '%s(%s)' % (written, (',' + sp).join(parts))
    got = create_prior(text)
    want = getattr(P, cls)(**kwargs)
    ctx.check('text-equals-direct', type(got) is type(want), text=text, got=type(got).__name__)
    ctx.check('text-equals-direct', got.params() == want.params(), text=text, got=got.params(), want=want.params())
    ctx.close('text-equals-direct', got.boundaries(), want.boundaries(), 0.0, text=text)
    ctx.check('text-equals-direct', got.priorMode is want.priorMode, text=text)
    u = rng.random(200)
    ctx.close('text-equals-direct', got.sample(u), want.sample(u), 0.0, text=text)
    # the same text read again (two parameters with the same prior, a second input file in the same process) while the
    # first object was re-tuned in between: every reading gives the prior the TEXT describes
    if cls in ('Uniform', 'LogUniform') and rng.random() < 0.6:
        a2, b2 = rnd_bounds(rng)
        if cls == 'LogUniform' and max(abs(a2), abs(b2)) > 250:
            a2, b2 = -3.0, 7.5
        got.set_bounds((a2, b2))
        ctx.observe('text:first-object-retuned')
    again = create_prior(text)
    ctx.check('text-read-again-equals-direct', again.params() == want.params(), text=text, got=again.params(), want=want.params())
    ctx.close('text-read-again-equals-direct', again.sample(u), want.sample(u), 0.0, text=text)
    ctx.sig('text', cls, text)
    ctx.sample({'text': text, 'params': again.params()})
    # unknown prior names are errors
    if rng.random() < 0.1:
        try:
            create_prior('Cauchy(mean=1)')
            ctx.check('unknown-prior-raises', False, text='Cauchy(mean=1)')
        except ValueError:
            ctx.check('unknown-prior-raises', True)


def wl_defaults(ctx, rng):
    """Default priors derive from a parameter's bounds and mode."""
    from taurex.optimizer.optimizer import compile_params
    from taurex.core.priors import Uniform, LogUniform
    n = int(rng.integers(1, 6))
    fitparams, expect = {}, []
    for i in range(n):
        mode = ['linear', 'log'][rng.integers(0, 2)]
        if mode == 'log':
            a, b = 10.0 ** rng.uniform(-30, 10, 2)
        else:
            a, b = rnd_bounds(rng)
        if a == b:
            b = a * 2 + 1
        if rng.random() < 0.7:
            a, b = min(a, b), max(a, b)
        else:
            ctx.observe('bounds-reversed')
        to_fit = rng.random() < 0.75
        name = 'p%d' % i
        fitparams[name] = (name, name, (lambda: 1.0), (lambda v: None), mode, to_fit, [a, b])
        if to_fit:
            expect.append((name, mode, a, b))
    fp, pri, pdict, der = compile_params(fitparams, {})
    ctx.check('default-prior', [p[0] for p in fp] == [e[0] for e in expect] and len(pri) == len(expect),
              names=[p[0] for p in fp], expect=[e[0] for e in expect])
    u = u_grid(rng)
    for p, (name, mode, a, b) in zip(pri, expect):
        ctx.observe('default:' + mode)
        if mode == 'log':
            ok = type(p) is LogUniform
            la, lb = math.log10(a), math.log10(b)
        else:
            ok = type(p) is Uniform
            la, lb = a, b
        ctx.check('default-prior', ok, mode=mode, got=type(p).__name__)
        ctx.close('default-prior', p.boundaries(), (min(la, lb), max(la, lb)), 1e-13, atol=1e-13, mode=mode, bounds=(a, b))
        ctx.close('default-prior', p.sample(u), uniform_oracle(la, lb, u), 1e-11,
                  atol=1e-11 * max(abs(la), abs(lb)), mode=mode, bounds=(a, b))
        ctx.check('default-prior', pdict.get(name) is p)
    ctx.sig('defaults', tuple(expect))


_class_defaults = {}


def _fresh_objects(rng):
    from taurex.data.profiles.temperature import Isothermal, Guillot2010, NPoint
    from taurex.data import Planet
    k = rng.integers(0, 4)
    if k == 0:
        return Isothermal, lambda: Isothermal(T=float(rng.uniform(500, 1500)))
    if k == 1:
        return Guillot2010, lambda: Guillot2010(T_irr=float(rng.uniform(1400, 2400)))
    if k == 2:
        return Planet, lambda: Planet(planet_mass=float(rng.uniform(0.5, 2)), planet_radius=float(rng.uniform(0.5, 2)))
    return NPoint, lambda: NPoint(T_surface=1500.0, T_top=300.0, temperature_points=[900.0, 600.0], pressure_points=[1e4, 1e2])


def wl_defaults_objects(ctx, rng):
    """Default priors of REAL components: the bounds of one object are changed through the public
    Fittable.modify_bounds(); its own default prior follows, and every other object of the class (built before or
    after) and every sibling parameter keeps the default prior of ITS bounds."""
    from taurex.optimizer.optimizer import compile_params
    cls, make = _fresh_objects(rng)
    first = make()
    if cls not in _class_defaults:                 # the class's documented defaults, read before anything modifies them
        _class_defaults[cls] = {n: (t[4], tuple(t[6])) for n, t in first.fitting_parameters().items()}
    defaults = _class_defaults[cls]
    other_before = make()
    names = [n for n in defaults if len(defaults[n][1]) == 2]
    target = str(names[int(rng.integers(0, len(names)))])
    mode, old = defaults[target]
    lo = abs(old[0]) * float(rng.uniform(1.1, 2.0)) + 1e-3
    new = [lo, lo * float(rng.uniform(1.5, 4.0))]
    first.modify_bounds(target, list(new))
    other_after = make()
    ctx.observe('modify_bounds:' + cls.__name__)
    u = u_grid(rng)

    def judge(obj, expect, who):
        fp = {n: (t[0], t[1], t[2], t[3], t[4], True, t[6]) for n, t in obj.fitting_parameters().items() if n in expect}
        fitted, pri, pdict, der = compile_params(fp, {})
        for t, p in zip(fitted, pri):
            md, b = expect[t[0]]
            la, lb = (math.log10(b[0]), math.log10(b[1])) if md == 'log' else (b[0], b[1])
            ctx.close('default-prior-of-own-bounds', p.boundaries(), (min(la, lb), max(la, lb)), 1e-13, atol=1e-13,
                      param=t[0], who=who, cls=cls.__name__, modified=target, new_bounds=new)
            ctx.close('default-prior-of-own-bounds', p.sample(u), uniform_oracle(la, lb, u), 1e-11,
                      atol=1e-11 * max(abs(la), abs(lb)), param=t[0], who=who, cls=cls.__name__)
    expect_first = dict(defaults)
    expect_first[target] = (mode, tuple(new))
    judge(first, expect_first, 'the modified object')
    judge(other_before, defaults, 'another object built before')
    judge(other_after, defaults, 'another object built afterwards')
    ctx.sig('defaults-objects', cls.__name__, target, tuple(new))


def wl_optimizer(ctx, rng):
    """Default priors on a living Optimizer: compiled, bounds written again through set_boundary -- by an ordinary
    amount, by a few parts per billion, or between two tiny values (1e-12 -> 1e-10: decades apart in the prior's log
    space, 1e-10 apart in absolute terms) -- and compiled again.  After every compile each default prior is the
    inverse CDF of the uniform distribution over the bounds the parameter has NOW, in the space of its mode."""
    from taurex.optimizer import Optimizer
    from taurex.core.priors import Uniform, LogUniform
    from vmon.props import c07
    model, spec = c07.make_model(rng)
    obs = c07.make_obs(rng)
    opt = Optimizer('vmon', observed=obs, model=model)
    fp = model.fittingParameters
    pool = [n for n, t in fp.items() if isinstance(t[2](), float) and t[2]() > 0 and len(t[6]) == 2
            and min(t[6]) > 0 and n != 'nlayers']
    chosen = [str(pool[i]) for i in rng.choice(len(pool), min(len(pool), int(rng.integers(2, 6))), replace=False)]
    cur = {}
    for n in chosen:
        opt.enable_fit(n)
        mode = ['linear', 'log'][rng.integers(0, 2)]
        opt.set_mode(n, mode)
        cur[n] = [mode, [float(b) for b in fp[n][6]]]
    u = u_grid(rng)

    def judge(stage):
        opt.compile_params()
        names = [p[0] for p in opt.fitting_parameters]
        for n, pr in zip(names, opt.fitting_priors):
            if n not in cur:
                continue
            mode, (a, b) = cur[n]
            la, lb = (math.log10(a), math.log10(b)) if mode == 'log' else (a, b)
            wit = dict(param=n, mode=mode, bounds=(a, b), stage=stage)
            ctx.check('optimizer-default-prior-follows-current-bounds', type(pr) is (LogUniform if mode == 'log' else Uniform),
                      got=type(pr).__name__, **wit)
            ctx.close('optimizer-default-prior-follows-current-bounds', pr.boundaries(), (min(la, lb), max(la, lb)), 1e-13,
                      atol=1e-13, **wit)
            ctx.close('optimizer-default-prior-follows-current-bounds', pr.sample(u), uniform_oracle(la, lb, u), 1e-11,
                      atol=1e-11 * max(abs(la), abs(lb)), **wit)
    judge('first compile')
    for rnd in range(int(rng.integers(1, 4))):
        n = chosen[int(rng.integers(0, len(chosen)))]
        mode, (a, b) = cur[n]
        a, b = min(a, b), max(a, b)
        k = rng.integers(0, 3)
        if k == 0:
            new = [a * rng.uniform(0.3, 0.9), b * rng.uniform(1.1, 3.0)]
            kind = 'ordinary'
        elif k == 1:
            new = [a * (1.0 + 10 ** rng.uniform(-9, -6)), b * (1.0 - 10 ** rng.uniform(-9, -6))]
            kind = 'a-few-parts-per-billion'
        else:
            lo = float(10 ** rng.uniform(-13, -9.5))
            new = [lo, lo * float(10 ** rng.uniform(0.5, 3.0))] if rng.random() < 0.5 else [lo, max(b, 2 * lo)]
            if mode != 'log' and rng.random() < 0.5:
                opt.set_mode(n, 'log')
                cur[n][0] = 'log'
            kind = 'between-tiny-values'
        if rng.random() < 0.3:
            new = new[::-1]
        opt.set_boundary(n, list(new))
        cur[n][1] = [float(new[0]), float(new[1])]
        ctx.observe('optimizer-bounds-rewritten:' + kind)
        judge('after set_boundary (%s)' % kind)
    ctx.sig('optimizer', tuple(sorted(cur)), tuple(tuple(v[1]) for v in cur.values()))


def wl_repo_tests(ctx, rng):
    """The repository's own prior tests, run with the contracts on (same process)."""
    import pytest
    repo = contracts.repo_root()
    before = dict(ctx.monitors)
    rc = pytest.main(['-q', '-x', '-p', 'no:cacheprovider', '--no-header', '-W', 'ignore',
                      repo + '/tests/priors', repo + '/tests/util/test_fitting.py'])
    ctx.check('repo-tests-pass-under-contracts', int(rc) == 0, rc=int(rc))
    gained = sum(ctx.monitors.values()) - sum(before.values())
    ctx.note('contract_evaluations_during_repo_tests', gained)
    ctx.check('repo-tests-reached-contracts', gained > 0)
    ctx.sig('repo-tests')
    ctx.sig('repo-tests', 2)


WORKLOADS = {'uniform': wl_uniform, 'gaussian': wl_gaussian, 'strings': wl_strings, 'defaults': wl_defaults,
             'repo_tests': wl_repo_tests, 'defaults_objects': wl_defaults_objects, 'optimizer': wl_optimizer}

LEVEL_TEXT = ('Exploration by runtime monitoring: icontract postconditions on the real Uniform/Gaussian sample() and '
              'Prior.prior(), judged against the inverse CDF computed from the constructor arguments a tap recorded, '
              'plus reference-model comparisons over thousands of seeded priors, prior strings and default-prior '
              'set-ups. Held means held on the recorded executions; the universal quantifier is approached by '
              'stratified classes (both bound orders, +-150 decades, tails of u) and random fill.'
              ' Results the caller keeps and work arrays it re-uses are followed by an ownership ledger (vmon/own.py).')
LEVEL_NOTE = ('Trusted: scipy.special.ndtri/erfc as the independent normal distribution; the documented prior-string '
              'syntax as read from doc/source/user/taurex/fitting.rst.')
TECHNIQUE = 'runtime contracts (icontract) on the real prior classes + inverse-CDF reference oracle over seeded workloads'
