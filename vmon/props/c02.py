"""C02 -- emission / direct-image spectra equal the documented layered thermal integral.

Monitors
  * tap on EmissionModel.evaluate_emission (also used by DirectImageModel and partial_model): snapshot of
    layer thicknesses, density, temperature, quadrature nodes and every contribution's prepared sigma BEFORE
    the call; intensities per angle, 1/mu, weights after.
  * tap on compute_final_flux (both classes): the flux handed in and the spectrum returned.
  * numba kernels under NUMBA_BOUNDSCHECK=1.
Oracle: refmodel.emission_flux (independent Gauss-Legendre nodes, CODATA Planck function) + derived identities.
"""
import math

import numpy as np

from vmon import own
from vmon import faults
from vmon import refmodel as R
from vmon import taps, world
from vmon.props import c01 as base

PROPERTY = 'C02'
RULE = ('synthetic worlds as in C01 (isothermal / monotone / inverted / hot-spike / N-point / Guillot temperature '
        'profiles, four opacity magnitude classes, subsets of Absorption/CIA/Rayleigh/FlatMie/LeeMie, ngauss in '
        '{1,2,3,4,8}, eclipse and direct-image models); distinct = distinct (model, nlayers, ngauss, magnitude, '
        'contributions, T kind, planet) tuples whose model returned a spectrum')
ASSUMPTIONS = [
    'Planck function in the code\'s unit convention (pi*B_lambda*1e-6) from CODATA constants in scipy.constants',
    'cloud decks are not part of the emission workloads (the statement speaks of composition; the deck is defined for transits, C19)',
    'correlated-k mode: molecules share one set of g-points/weights and their coefficients add per g-point (the '
    'perfectly-correlated convention of the code); transmittances are weight-averaged exponentials',
    'licensed cut-off: a transmittance term whose vertical optical depth is >= 10 at every wavenumber may be '
    'replaced by 0; by Abel summation the intensity then deviates by at most exp(-10)*(B_0 + sum_l |B_{l-1}-B_l|)',
]
_Q = {'sweep': 1, 'emission': 100, 'direct': 35, 'isothermal': 35, 'rerun': 40, 'ktable': 40, 'several': 25, 'star': 60}
_T = {'sweep': 4, 'emission': 2000, 'direct': 600, 'isothermal': 600, 'rerun': 800, 'ktable': 700, 'several': 400, 'star': 800}
BUDGET = {
    'quick': [dict(name='boundscheck', env={'NUMBA_BOUNDSCHECK': '1'}, shards=4, cases=_Q)],
    'thorough': [dict(name='boundscheck', env={'NUMBA_BOUNDSCHECK': '1'}, shards=16, cases=_T),
                 dict(name='nojit', env={'NUMBA_DISABLE_JIT': '1'}, shards=4, cases={'emission': 100, 'isothermal': 30})],
}
REQUIRED = dict(monitors=['intensity-per-angle', 'flux', 'eclipse-spectrum', 'directimage-scaling',
                          'isothermal-identity', 'between-coldest-and-hottest', 'quadrature-nodes',
                          'partial-model-equals-intensity', 'ktable-intensity-per-angle', 'ktable-flux',
                          'earlier-result-stays-as-returned', 'caller-input-left-alone'],
                classes=['history:one-model-hundreds-of-temperatures', 'model:emission', 'model:directimage', 'clamp-possible', 'no-clamp', 'ngauss:1', 'ngauss:8',
                         'T:isothermal', 'T:array', 'magnitude:transparent', 'magnitude:saturating',
                         'rerun:evaluated-after-change', 'mode:ktable', 'ktable:continuum-only-model',
                         'ktable:model_contrib-entry-judged', 'ktable-mode:no-molecular-absorber',
                         'fault:fired:temperature', 'fault:fired:chemistry', 'fault:fired:contribution', 'fault:fired:pressure',
                         'several:evaluation-judged', 'several:set_quadratures-on-another-model', 'several:one-star-for-all-models-each-on-its-own-window', 'wn-dtype:i', 'T-route:mixin', 'chemistry:makefree+file', 'nlayers:1', 'star:refill-same-size', 'star:temperature-written'])
CUT = math.exp(-10.0)
EPS = float(np.finfo(float).eps)
_state = {}


def classify(f):
    if f['monitor'] == 'directimage-scaling' and f.get('witness', {}).get('matches_exactly_half') is True:
        return 'C02/directimage-half-normalisation'
    return None


def setup(ctx):
    from taurex.model import EmissionModel, DirectImageModel
    faults.install(ctx)
    problems = R.self_test()
    if problems:
        ctx.check('refmodel-selftest', False, problems=problems)

    def before_ev(self, a, kw):
        snap = {
            'dz': np.array(self.deltaz, dtype=float), 'rho': np.array(self.densityProfile, dtype=float),
            'T': np.array(self.temperatureProfile, dtype=float), 'n': int(self.nLayers),
            'mu_quads': np.array(self._mu_quads, dtype=float), 'wi_quads': np.array(self._wi_quads, dtype=float),
            'ngauss': int(self._ngauss), 'wn': np.array(a[0], dtype=float),
            'contribs': [(c.name, type(c).__name__, np.array(c.sigma_xsec, dtype=float)) for c in self.contribution_list],
            'Rp': float(self.planet.fullRadius), 'Rs': float(self.star.radius), 'Tstar': float(self.star.temperature),
            'dist': float(self.star.distance),
            'kweights': next((np.array(c.weights, dtype=float) for c in self.contribution_list
                              if getattr(c, 'weights', None) is not None), None),
        }
        from taurex.cache import GlobalCache
        snap['ktable_mode'] = GlobalCache()['opacity_method'] == 'ktables'
        _state['snap'] = snap
        if _state.get('snaps') is not None:
            _state['snaps'].append(snap)
        ctx.event('tap:evaluate_emission')
        return snap

    def after_ev(self, a, kw, res, exc, snap):
        if exc is None:
            snap['I'] = np.array(res[0], dtype=float)
            snap['inv_mu'] = np.array(res[1], dtype=float).ravel()
            snap['w'] = np.array(res[2], dtype=float).ravel()
            snap['tau_out'] = np.array(res[3], dtype=float)
    taps.tap(EmissionModel, 'evaluate_emission', before_ev, after_ev)

    def before_ff(self, a, kw):
        snap = _state.get('snap')
        if snap is not None:
            snap['f_total'] = np.array(a[0], dtype=float).ravel()
            snap['sed'] = None if self.star.spectralEmissionDensity is None else np.array(self.star.spectralEmissionDensity)
        ctx.event('tap:compute_final_flux')
    taps.tap(EmissionModel, 'compute_final_flux', before_ff, None)
    taps.tap(DirectImageModel, 'compute_final_flux', before_ff, None)


def teardown(ctx):
    taps.untap_all()
    faults.uninstall()


def pick_contribs(rng, spec):
    out = [c for c in base.pick_contribs(rng, spec) if (c if isinstance(c, str) else c['name']) != 'SimpleClouds']
    return out


def make_case(rng, tkind=None, nlayers=None):
    for _ in range(50):
        if nlayers is None and rng.random() < 0.08:
            # a single layer (C02 quantifies over all layer counts): profile classes that need two or more layers to
            # mean anything (node-based temperatures, two-layer / two-point gases) are outside this class
            spec = world.random_world_spec(rng, tkind=tkind or ['isothermal', 'guillot', 'array'][rng.integers(0, 3)],
                                           nlayers=1, gas_kinds=['constant'], n_inactive_trace=0)
        else:
            spec = world.random_world_spec(rng, tkind=tkind, nlayers=nlayers)
        spec['contributions'] = pick_contribs(rng, spec)
        spec['cia_magnitude'] = spec['magnitude']
        spec['cia_seed'] = int(rng.integers(0, 2 ** 31))
        spec['new_method'] = False
        spec['ngauss'] = int(rng.choice([1, 2, 3, 4, 8]))
        if rng.random() < 0.1:
            world.make_free_route(rng, spec)         # composition by the ``makefree+file`` route
        if world.is_bound(spec):
            return spec
    raise RuntimeError('generator could not draw a bound atmosphere')


def realise(spec, kind):
    world.reset_caches()
    world.install_opacities(spec)
    pairs = []
    for c in spec['contributions']:
        if not isinstance(c, str) and c['name'] == 'CIA':
            pairs = c['cia_pairs']
    if pairs:
        wn = next(iter(spec['tables'].values()))['wn']
        world.install_cia(np.random.default_rng(spec['cia_seed']), pairs, wn, spec['cia_magnitude'])
    model = world.build_model(spec, kind, ngauss=spec['ngauss'])
    world.add_contributions(model, spec)
    return model


def run(ctx, model, partial=False):
    from taurex.exceptions import InvalidModelException
    _state['snap'] = None
    try:
        model.build()
        if partial:
            out = model.partial_model()
        else:
            out = model.model()
    except InvalidModelException as e:
        if model.temperature.__class__.__name__ != 'Guillot2010':
            raise
        ctx.license(type(e).__name__)
        return None, None
    snap = _state['snap']
    _state['snap'] = None
    return snap, out


def oracle(ctx, snap, spec):
    n, wn = snap['n'], snap['wn']
    nwn = len(wn)
    # vertical optical depth of each layer alone (k-table sigma has one more axis: the g-points)
    dtau = np.zeros((n, nwn))
    ktau, kw = None, snap.get('kweights')
    for nm, kls, sig in snap['contribs']:
        p = 2 if kls == 'CIAContribution' else 1
        if sig.ndim == 3:
            ktau = np.zeros((n, nwn, sig.shape[2]))
            for l in range(n):
                ktau[l] = sig[l] * snap['rho'][l] * snap['dz'][l]
            continue
        for l in range(n):
            dtau[l] += sig[l] * snap['rho'][l] ** p * snap['dz'][l]
    if ktau is None and snap.get('ktable_mode'):
        # correlated-k mode without a molecular absorber in this evaluation (a continuum-only model, or one entry of
        # model_contrib): the same integral with an empty k part; this mode applies no clamp
        ktau, kw = np.zeros((n, nwn, 1)), np.array([1.0])
        ctx.observe('ktable-mode:no-molecular-absorber')
    if ktau is not None:
        return oracle_ktable(ctx, snap, spec, dtau, ktau, kw)
    ng = snap['ngauss']
    mus, ws = R.gauss_legendre_unit(ng)
    ctx.check('quadrature-nodes', ng == spec['ngauss'] and len(snap['inv_mu']) == ng, ng=ng)
    ctx.close('quadrature-nodes', np.sort(1.0 / snap['inv_mu']), np.sort(mus), 1e-12)
    order = np.argsort(1.0 / snap['inv_mu'])
    ctx.close('quadrature-nodes', snap['w'][order], ws[np.argsort(mus)], 1e-12)
    F, Is = R.emission_flux(dtau, snap['T'], wn, ng)
    B = np.array([R.planck_taurex_units(wn, t) / math.pi for t in snap['T']])
    # licence: which cumulative depths can be clamped (>= 10 at every wavenumber)
    above = np.cumsum(dtau[::-1], axis=0)[::-1]            # above[l] = tau_{>=l}
    clampable = [l for l in range(n) if np.min(above[l]) >= 10.0]
    if clampable:
        ctx.observe('clamp-possible')
        L = max(clampable)
        tv = B[0] + np.sum(np.abs(np.diff(B[:L + 1], axis=0)), axis=0) if L >= 1 else B[0].copy()
        atolI = CUT * tv
    else:
        ctx.observe('no-clamp')
        atolI = np.zeros(nwn)
    # rounding licence of the layered sum itself: every term is B_l times a DIFFERENCE of two exponentials in [0, 1];
    # a thin hot layer (difference ~1e-9, B five decades above the emergent intensity) carries an absolute rounding
    # error of a few eps * B_l whatever the order of evaluation, so two correct implementations agree to that only
    atolI = atolI + 16 * EPS * (B[0] + np.sum(B, axis=0))
    # intensities per angle (rows of I follow the model's own node order)
    mine = {round(float(m), 12): I for m, I in zip(mus, Is)}
    for k in range(ng):
        m = 1.0 / snap['inv_mu'][k]
        key = min(mine, key=lambda q: abs(q - m))
        ctx.close('intensity-per-angle', snap['I'][k], mine[key], 1e-9, atol=atolI, mu=m, ngauss=ng, nlayers=n)
    ctx.close('flux', snap['f_total'], F, 1e-9, atol=math.pi * atolI, ngauss=ng)
    return {'F': F, 'Is': Is, 'B': B, 'atolI': atolI, 'dtau': dtau, 'clampable': clampable}


def oracle_ktable(ctx, snap, spec, dtau, ktau, kw):
    """Correlated-k mode: every transmittance of the layered integral becomes the weight-averaged exponential
    T_X(mu) = exp(-tau_other_X/mu) * sum_g w_g exp(-tau^k_{X,g}/mu).  The code applies no clamp to the intensity in
    this mode, so no cut-off allowance is needed."""
    n, wn = snap['n'], snap['wn']
    nwn = len(wn)
    ng = snap['ngauss']
    mus, ws = R.gauss_legendre_unit(ng)
    ctx.check('quadrature-nodes', ng == spec['ngauss'] and len(snap['inv_mu']) == ng, ng=ng)
    ctx.close('kweights-sum-to-one', float(np.sum(kw)), 1.0, 1e-12)
    B = np.array([R.planck_taurex_units(wn, t) / math.pi for t in snap['T']])
    roundI = 16 * EPS * (B[0] + np.sum(B, axis=0))       # rounding licence of the layered sum (see oracle())
    above = np.zeros((n + 1, nwn))
    kabove = np.zeros((n + 1, nwn, ktau.shape[2]))
    for l in range(n - 1, -1, -1):
        above[l] = above[l + 1] + dtau[l]
        kabove[l] = kabove[l + 1] + ktau[l]

    def trans(l, mu):
        return np.exp(-above[l] / mu) * np.sum(np.exp(-kabove[l] / mu) * kw, axis=-1)
    F = np.zeros(nwn)
    Is = []
    for m, w in zip(mus, ws):
        I = B[0] * trans(0, m)
        for l in range(n):
            I = I + B[l] * (trans(l + 1, m) - trans(l, m))
        Is.append(I)
        F += 2.0 * math.pi * w * m * I
    mine = {round(float(m), 12): I for m, I in zip(mus, Is)}
    for k in range(ng):
        m = 1.0 / snap['inv_mu'][k]
        key = min(mine, key=lambda q: abs(q - m))
        ctx.close('ktable-intensity-per-angle', snap['I'][k], mine[key], 1e-9, atol=roundI, mu=m, ngauss=ng, nlayers=n,
                  ng_k=int(ktau.shape[2]))
    ctx.close('ktable-flux', snap['f_total'], F, 1e-9, atol=math.pi * roundI, ngauss=ng)
    return {'F': F, 'Is': np.array(Is), 'B': B, 'atolI': roundI, 'dtau': dtau, 'clampable': []}


_kdir = [0]


def wl_ktable(ctx, rng):
    """Emission in correlated-k mode with genuinely g-dependent coefficients (real .pickle k-tables on disk,
    discovered through KTableCache) against the weight-averaged-exponential form of the layered integral."""
    import os
    from taurex.cache import GlobalCache
    from taurex.cache.ktablecache import KTableCache
    from taurex.exceptions import InvalidModelException
    iso = rng.random() < 0.35
    spec = make_case(rng, tkind='isothermal' if iso else None, nlayers=int(rng.choice([2, 3, 5, 7, 13])))
    spec['interpolation'] = 'linear'
    kind = 'emission'
    observe_case(ctx, spec, kind)
    ctx.observe('mode:ktable')
    ngk = int(rng.integers(1, 6))
    w = rng.random(ngk) + 0.05
    w /= w.sum()
    degenerate = rng.random() < 0.2
    world.reset_caches()
    _kdir[0] += 1
    d = os.path.join(ctx.scratch, 'ktab-%d' % _kdir[0])
    os.makedirs(d)
    for mname, t in spec['tables'].items():
        fac = np.ones((1, 1, 1, ngk)) if degenerate else 10 ** np.sort(rng.uniform(-2, 2, (1, 1, 1, ngk)), axis=-1)
        world.write_pickle_ktable(os.path.join(d, mname + '.pickle'), mname, t['wn'], t['T'], t['P'], t['xsec'][..., None] * fac, w)
    GlobalCache()['opacity_method'] = 'ktables'
    KTableCache().set_ktable_path(d)
    pairs = []
    for c in spec['contributions']:
        if not isinstance(c, str) and c['name'] == 'CIA':
            pairs = c['cia_pairs']
    if pairs:
        wn = next(iter(spec['tables'].values()))['wn']
        world.install_cia(np.random.default_rng(spec['cia_seed']), pairs, wn, spec['cia_magnitude'])
    names = [c if isinstance(c, str) else c['name'] for c in spec['contributions']]
    continuum_only = False
    if rng.random() < 0.3:
        # correlated-k mode, but no molecular absorption in the model (continuum only: CIA / Rayleigh / hazes)
        rest = [c for c in spec['contributions'] if (c if isinstance(c, str) else c['name']) != 'Absorption']
        spec['contributions'] = rest or ['Rayleigh']
        continuum_only = True
        ctx.observe('ktable:continuum-only-model')
    model = world.build_model(spec, kind, ngauss=spec['ngauss'])
    world.add_contributions(model, spec)
    try:
        snap, out = run(ctx, model)
        if snap is None:
            return
        res = oracle(ctx, snap, spec)
        if not continuum_only and 'Absorption' in names:
            ctx.check('ktable-path-was-taken', snap.get('kweights') is not None and any(c[2].ndim == 3 for c in snap['contribs']))
        judge_spectrum(ctx, snap, out, res, spec, kind)
        if iso:
            wn = np.array(out[0])
            T = spec['temperature']['T'] * (spec['temperature'].get('scale') or 1.0)
            want = R.planck_taurex_units(wn, T) / R.planck_taurex_units(wn, snap['Tstar']) * (snap['Rp'] / snap['Rs']) ** 2
            ctx.close('isothermal-identity', out[1], want, 1e-9, T=T, mode='ktable', ng_k=ngk)
        # every contribution on its own (model_contrib evaluates each with the same code path): each evaluation judged
        _state['snaps'] = []
        try:
            model.model_contrib()
            snaps = list(_state['snaps'])
        finally:
            _state['snaps'] = None
        for sn in snaps:
            if 'I' in sn and 'f_total' in sn:
                oracle(ctx, sn, spec)
                ctx.observe('ktable:model_contrib-entry-judged')
    finally:
        import shutil
        world.reset_caches()
        shutil.rmtree(d, ignore_errors=True)
    ctx.sig('ktable', spec['nlayers'], spec['ngauss'], ngk, spec['magnitude'], bool(degenerate), round(spec['planet_mass'], 6))
    ctx.sample({'mode': 'ktable', 'world': world.spec_summary(spec), 'g_points': ngk, 'degenerate': bool(degenerate)})


def observe_case(ctx, spec, kind):
    ctx.observe('wn-dtype:' + next(iter(spec['tables'].values()))['wn'].dtype.kind)
    ctx.observe('T-route:mixin' if spec['temperature'].get('scale') else 'T-route:plain')
    ctx.observe('chemistry:makefree+file' if spec.get('makefree') else 'chemistry:free')
    ctx.observe('model:' + kind, 'magnitude:' + spec['magnitude'], 'nlayers:%d' % spec['nlayers'],
                'T:' + spec['temperature']['kind'], 'ngauss:%d' % spec['ngauss'])
    for c in spec['contributions']:
        ctx.observe('contrib:' + (c if isinstance(c, str) else c['name']))
    ctx.feature(summary=world.spec_summary(spec), kind=kind, ngauss=spec['ngauss'])


def judge_spectrum(ctx, snap, out, res, spec, kind):
    wn, spectrum = np.array(out[0]), np.array(out[1], dtype=float)
    Rp, Rs = snap['Rp'], snap['Rs']
    Bstar = R.planck_taurex_units(wn, snap['Tstar'])
    ctx.close('star-sed', snap['sed'], Bstar, 1e-9)
    atolF = math.pi * res['atolI']
    if kind == 'emission':
        want = res['F'] / Bstar * (Rp / Rs) ** 2
        ctx.close('eclipse-spectrum', spectrum, want, 1e-9, atol=atolF / Bstar * (Rp / Rs) ** 2)
        ratio = spectrum / (Rp / Rs) ** 2
        lo = np.min(math.pi * res['B'], axis=0) / Bstar
        hi = np.max(math.pi * res['B'], axis=0) / Bstar
        al = atolF / Bstar
        ctx.check('between-coldest-and-hottest', np.all(ratio >= lo * (1 - 1e-9) - al) and np.all(ratio <= hi * (1 + 1e-9) + al),
                  worst_low=float(np.min(ratio - lo)), worst_high=float(np.min(hi - ratio)))
    else:
        d = snap['dist'] * 3.08567758e16      # parsec in metres, as documented for the star distance
        want = res['F'] * Rp ** 2 / d ** 2
        with np.errstate(divide='ignore', invalid='ignore'):
            r = spectrum / want
        r = r[np.isfinite(r)]
        at = atolF * Rp ** 2 / d ** 2
        # mechanism test for the known finding: exactly one half of the stated scaling, everywhere
        half = bool(np.all(np.abs(spectrum - 0.5 * want) <= 1e-9 * np.abs(0.5 * want) + 0.5 * at))
        ctx.close('directimage-scaling', spectrum, want, 1e-9, atol=at, matches_exactly_half=half,
                  ratio_minmax=[float(r.min()), float(r.max())] if r.size else None)
        # whatever the constant, the spectrum must be proportional to the layered integral
        if r.size:
            ctx.check('directimage-proportional-to-integral', (r.max() - r.min()) <= 1e-9 * abs(r.max()) +
                      float(np.max(atolF / np.maximum(res['F'], 1e-300))), ratio_minmax=[float(r.min()), float(r.max())])
    return spectrum


def wl_emission(ctx, rng, kind='emission', tkind=None):
    spec = make_case(rng, tkind=tkind)
    observe_case(ctx, spec, kind)
    model = realise(spec, kind)
    snap, out = run(ctx, model)
    if snap is None:
        return
    res = oracle(ctx, snap, spec)
    spectrum = judge_spectrum(ctx, snap, out, res, spec, kind)
    # partial_model returns the same per-angle intensities
    if rng.random() < 0.3:
        psnap, pout = run(ctx, model, partial=True)
        if psnap is not None:
            ctx.close('partial-model-equals-intensity', pout[0], snap['I'], 1e-12)
    ctx.sig(kind, spec['nlayers'], spec['ngauss'], spec['magnitude'], tuple(world.spec_summary(spec)['contributions']),
            spec['temperature']['kind'], round(spec['planet_mass'], 6))
    ctx.sample({'world': world.spec_summary(spec), 'model': kind, 'ngauss': spec['ngauss'],
                'clampable_layers': len(res['clampable']), 'spectrum_minmax': [float(spectrum.min()), float(spectrum.max())]})


def wl_direct(ctx, rng):
    return wl_emission(ctx, rng, kind='directimage')


def wl_isothermal(ctx, rng):
    """Isothermal atmosphere => exactly B(T)/B(T*) (Rp/Rs)^2 whatever the composition and ngauss."""
    spec = make_case(rng, tkind='isothermal')
    observe_case(ctx, spec, 'emission')
    model = realise(spec, 'emission')
    snap, out = run(ctx, model)
    if snap is None:
        return
    res = oracle(ctx, snap, spec)
    judge_spectrum(ctx, snap, out, res, spec, 'emission')
    wn = np.array(out[0])
    T = spec['temperature']['T'] * (spec['temperature'].get('scale') or 1.0)
    want = R.planck_taurex_units(wn, T) / R.planck_taurex_units(wn, snap['Tstar']) * (snap['Rp'] / snap['Rs']) ** 2
    # with the licensed clamp the bottom term may be off by exp(-10)*B
    rtol = 1e-9 + (CUT if res['clampable'] else 0.0)
    ctx.close('isothermal-identity', out[1], want, rtol, T=T, ngauss=spec['ngauss'], clamp=bool(res['clampable']))
    ctx.sig('iso', spec['nlayers'], spec['ngauss'], spec['magnitude'], round(T, 3))


def wl_rerun(ctx, rng):
    """The same emission model object evaluated again after parameters were changed through model[name] = value
    (what a retrieval does): every evaluation must equal the integral for the atmosphere it has at that moment."""
    from taurex.exceptions import InvalidModelException
    kind = ['emission', 'directimage'][int(rng.random() < 0.25)]
    spec = make_case(rng)
    observe_case(ctx, spec, kind)
    model = realise(spec, kind)
    snap, out = run(ctx, model)
    if snap is None:
        return
    res = oracle(ctx, snap, spec)
    judge_spectrum(ctx, snap, out, res, spec, kind)
    # results kept by the caller while the same model goes on (ownership ledger): grid, spectrum, tau of every evaluation
    led = own.Ledger(ctx, 'rerun')
    for a_, l_ in zip(out[:3], ('grid', 'spectrum', 'tau')):
        led.keep(a_, l_ + '[0]')
    sed0 = model.star.spectralEmissionDensity
    led.keep(sed0, 'star-sed[0]')
    changes_all = []
    for k in range(int(rng.integers(1, 4))):
        changes = base.perturb_model(rng, model)
        changes_all.append([(n, float(a), float(b)) for n, a, b in changes])
        ctx.feature(summary=world.spec_summary(spec), kind=kind, ngauss=spec['ngauss'], changes=changes_all)
        if rng.random() < 0.4:
            site = faults.drive_into(ctx, rng, model.model)      # a rejected evaluation in between
            if site == 'rejected':
                return
            if site:
                changes_all[-1].append(('fault:' + site, 0.0, 0.0))
        _state['snap'] = None
        try:
            out = model.model()
        except InvalidModelException as e:
            ctx.license(type(e).__name__)
            return
        s2 = _state['snap']
        _state['snap'] = None
        zb = np.asarray(model.altitude_boundaries, dtype=float)
        if not np.all(np.isfinite(zb)) or zb[-1] > 2.0 * s2['Rp']:
            ctx.event('domain-skip:perturbed-atmosphere-unbound')
            return
        ctx.observe('rerun:evaluated-after-change')
        r2 = oracle(ctx, s2, spec)
        judge_spectrum(ctx, s2, out, r2, spec, kind)
        led.settle('evaluation %d of the same model' % (k + 1))
        for a_, l_ in zip(out[:3], ('grid', 'spectrum', 'tau')):
            led.keep(a_, '%s[%d]' % (l_, k + 1))
    ctx.sig('rerun', kind, spec['nlayers'], spec['ngauss'], spec['magnitude'], tuple(n for ch in changes_all for n, _, _ in ch),
            round(spec['planet_mass'], 6))


def wl_sweep(ctx, rng):
    """A long history on ONE emission model (a retrieval of the temperature): hundreds of evaluations, a new isothermal
    temperature every time, earlier ones coming back.  Every evaluation is judged like the first; the star's spectrum the
    caller read at the start stays what it was."""
    from taurex.exceptions import InvalidModelException
    spec = make_case(rng, tkind='isothermal')
    observe_case(ctx, spec, 'emission')
    model = realise(spec, 'emission')
    snap, out = run(ctx, model)
    if snap is None:
        return
    res = oracle(ctx, snap, spec)
    judge_spectrum(ctx, snap, out, res, spec, 'emission')
    led = own.Ledger(ctx, 'sweep')
    led.keep(model.star.spectralEmissionDensity, 'star-sed[0]')
    n = int(rng.integers(560, 700)) if ctx.tier == 'quick' else int(rng.integers(1200, 4000))
    temps = [float(rng.uniform(300, 2800)) for _ in range(n)]
    seq = []
    for j, t in enumerate(temps):
        seq.append(t)
        if j % 50 == 49:
            seq.append(temps[int(rng.integers(0, j // 2))])
    judged = 0
    for j, t in enumerate(seq):
        model['T'] = t
        _state['snap'] = None
        try:
            out = model.model()
        except InvalidModelException as e:
            ctx.license(type(e).__name__)
            continue
        s2 = _state['snap']
        _state['snap'] = None
        zb = np.asarray(model.altitude_boundaries, dtype=float)
        if s2 is None or not np.all(np.isfinite(zb)) or zb[-1] > 2.0 * s2['Rp']:
            ctx.event('domain-skip:perturbed-atmosphere-unbound')
            continue
        r2 = oracle(ctx, s2, spec)
        judge_spectrum(ctx, s2, out, r2, spec, 'emission')
        judged += 1
        if j % 100 == 99:
            led.settle('evaluation %d of the same model' % j)
    led.settle('all evaluations')
    if judged > 500:
        ctx.observe('history:one-model-hundreds-of-temperatures')
    ctx.sig('sweep', spec['nlayers'], spec['ngauss'], spec['magnitude'], len(seq))


def wl_several(ctx, rng):
    """Several emission / direct-image model objects alive at once and evaluated in turn; in between one further model
    of the same quadrature order is given its own nodes through the public set_quadratures().  Every evaluation of the
    other models is judged by the ordinary oracle (Gauss-Legendre nodes, layered integral): nothing may leak between
    objects."""
    from taurex.exceptions import InvalidModelException
    spec = make_case(rng)
    kinds = ['emission', 'directimage', 'emission'][:int(rng.integers(2, 4))]
    observe_case(ctx, spec, kinds[0])
    variants = [spec]
    for _ in kinds[1:]:
        v = dict(spec)
        if rng.random() < 0.5:
            v['planet_radius'] = float(v['planet_radius'] * rng.uniform(1.0, 1.2))
        variants.append(v if world.is_bound(v) else dict(spec))
    models = [realise(variants[0], kinds[0])]
    # every third case: ONE star object serves all the models (a script comparing planets of one system), and each model is
    # evaluated on its own window of the native grid (windows of the same size, other wavenumbers)
    shared_star = ctx.case['index'] % 3 == 1
    for v, k in zip(variants[1:], kinds[1:]):
        m = world.build_model(v, k, ngauss=v['ngauss'], share={'star': models[0].star} if shared_star else None)
        world.add_contributions(m, v)
        models.append(m)
    windows = {}
    odd = world.build_model(spec, 'emission', ngauss=spec['ngauss'])       # the one that gets its own quadrature
    world.add_contributions(odd, spec)
    built = [False] * len(models)
    seq = [int(i) for i in rng.permutation(len(models))] + [-1] + [int(i) for i in rng.integers(0, len(models), int(rng.integers(2, 5)))]
    ctx.feature(summary=world.spec_summary(spec), kinds=kinds, sequence=seq, ngauss=spec['ngauss'])
    for i in seq:
        if i < 0:
            ng = spec['ngauss']
            mu = np.linspace(-1, 1, 2 * ng + 1)[1::2]            # a midpoint rule on [-1, 1]
            odd.set_quadratures(mu, np.full(ng, 2.0 / ng))
            try:
                odd.build()
                odd.model()
            except InvalidModelException as e:
                ctx.license(type(e).__name__)
            ctx.observe('several:set_quadratures-on-another-model')
            continue
        _state['snap'] = None
        try:
            if not built[i]:
                models[i].build()
                built[i] = True
            if shared_star:
                native = np.asarray(models[i].nativeWavenumberGrid, dtype=float)
                if len(native) >= 4:
                    kw_ = max(2, len(native) // 2)
                    if i not in windows:
                        windows[i] = native[(i * 2) % (len(native) - kw_ + 1):][:kw_].copy()
                    out = models[i].model(wngrid=windows[i])
                    ctx.observe('several:one-star-for-all-models-each-on-its-own-window')
                else:
                    out = models[i].model()
            else:
                out = models[i].model()
        except InvalidModelException as e:
            if models[i].temperature.__class__.__name__ != 'Guillot2010':
                raise
            ctx.license(type(e).__name__)
            return
        snap = _state['snap']
        _state['snap'] = None
        res = oracle(ctx, snap, variants[i])
        judge_spectrum(ctx, snap, out, res, variants[i], kinds[i])
        ctx.observe('several:evaluation-judged')
    ctx.sig('several', tuple(kinds), tuple(seq), spec['nlayers'], spec['ngauss'], round(spec['planet_mass'], 6))


def wl_star(ctx, rng):
    """The stellar term on its own, the way a caller with its own work array drives it: ``star.initialize(grid)`` with
    ONE array object that is refilled in place with another grid of the same size between calls, the temperature written
    through the public setter in between, earlier SEDs kept by the caller.  Each SED is the Planck function on the grid
    of THAT call; what the caller lent is left alone; what it kept stays what it was."""
    from taurex.data.stellar import BlackbodyStar
    T = float(rng.uniform(2500, 10000))
    star = BlackbodyStar(temperature=T, radius=float(rng.uniform(0.1, 3.0)))
    n = int(rng.integers(2, 40))
    buf = np.array(world.wn_grid(rng, n), dtype=float)
    led = own.Ledger(ctx, 'star')
    for k in range(int(rng.integers(2, 6))):
        led.lend(buf, 'grid handed to star.initialize')
        star.initialize(buf)
        sed = star.spectralEmissionDensity
        ctx.close('star-sed', sed, R.planck_taurex_units(buf, T), 1e-9, call=k, route='star.initialize(own array)')
        led.settle('star.initialize call %d' % k)
        led.keep(sed, 'sed[%d]' % k)
        how = ['refill-same-size', 'same-again', 'temperature-written', 'fresh-array'][rng.integers(0, 4)]
        if how == 'refill-same-size':
            g2 = np.array(world.wn_grid(rng, n), dtype=float)
            if len(g2) == n:
                led.refill(buf, g2)
        elif how == 'temperature-written':
            T = float(np.clip(T * rng.uniform(0.7, 1.3), 2300.0, 11000.0))
            star.temperature = T
        elif how == 'fresh-array':
            buf = np.array(world.wn_grid(rng, n), dtype=float)
        ctx.observe('star:' + how)
    ctx.sig('star', n, round(T, 3))


WORKLOADS = {'sweep': wl_sweep, 'star': wl_star, 'several': wl_several, 'emission': wl_emission, 'direct': wl_direct, 'isothermal': wl_isothermal, 'rerun': wl_rerun,
             'ktable': wl_ktable}

LEVEL_TEXT = ('Exploration by runtime monitoring: every evaluate_emission / compute_final_flux call made by the workload '
              'is tapped (layer thicknesses, density, temperatures, quadrature nodes and each contribution\'s prepared '
              'sigma before; per-angle intensities and final spectrum after) and judged by an independent layered '
              'thermal-integral reference (own Gauss-Legendre nodes, CODATA Planck function) to 1e-9, widened only by '
              'the derived exp(-10) licence when the oracle\'s own optical depths show a clamp is possible; isothermal '
              'identity, coldest/hottest bounds, partial_model agreement and the direct-image scaling are checked on the '
              'same executions. Kernels run under NUMBA_BOUNDSCHECK=1, a slice is repeated with the JIT disabled.'
              ' Results the caller keeps and work arrays it re-uses are followed by an ownership ledger (vmon/own.py).')
LEVEL_NOTE = ('Trusted: refmodel emission integral (self-tested on an isothermal slab each run); sigma per contribution taken '
              'as given (C03/C04/C19); k-table emission is covered by C20.')
TECHNIQUE = 'call taps on evaluate_emission/compute_final_flux + numba bounds-check sanitizer + independent thermal-integral reference model'
