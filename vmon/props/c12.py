"""C12 -- temperature profiles are finite, positive and bounded by their control values.

Monitors
  * icontract postconditions on the ``profile`` property of every built-in temperature class
    (Isothermal, NPoint, Guillot2010, Rodgers2000, TemperatureArray and through it TemperatureFile),
    attached to the real classes (vmon/lib_c12.py).  They fire on every access the workloads -- or a
    forward model built by a workload -- make, and judge the returned array from the *declared*
    constructor arguments (constructor tap, deep copy) and the grid handed to ``initialize_profile``
    (tap): one value per layer, finite, positive, inside [min, max] of the control temperatures,
    constant when the controls are equal, Guillot == closed form (scipy.special.exp1).
  * the workloads judge the rejection half of the property: every documented non-physical set
    (inverted pressure nodes, slope >= limit, zero opacity, negative temperature) must raise an
    InvalidModelException (subclass) at construction or at ``profile`` -- a returned array or any other
    exception type fails -- and every physical set must be accepted.
"""
import os

import numpy as np

from vmon import lib_c12 as L
from vmon import own, world

PROPERTY = 'C12'
RULE = ('profiles from a seeded generator: layer counts 2..60 and 100, pressure grids over 1e-3..12 decades (log-spaced '
        'geometric-mean layers, irregular, narrow, and the real SimplePressureProfile), 2..7 control points, smoothing '
        'windows 0..100, all-equal controls, explicit end pressures, Guillot parameters inside [1e-10,1] and up to 3 '
        'decades outside, alpha outside [0,1], negative opacities, every documented non-physical set, values changed '
        'through the public fitting-parameter setters; a case is non-trivial when a profile was returned and judged by '
        'the contracts or a non-physical set was presented; distinct = distinct (class, nlayers, grid kind, controls) tuples')
ASSUMPTIONS = [
    'control temperatures are drawn positive (1..1e4 K): negative/zero controls of Isothermal/NPoint/array profiles have no '
    'documented rejection and are only observed',
    'Guillot with T_irr = T_int = 0 (returns exactly 0 K) is counted, not judged: zero is neither a negative temperature nor positive',
    'Guillot magnitudes are limited to |kappa| in 1e-12..1e3 so that the closed form is representable in doubles',
    'TemperatureArray without pressure points interpolates on the layer index: only the bound/constant claims are applied',
    'Rodgers2000 is judged with its default covariance and one temperature per layer',
]
_Q = {'isothermal': 60, 'npoint': 420, 'guillot': 300, 'rodgers': 120, 'array': 200, 'file': 60, 'model': 40, 'long': 4}
_T = {'isothermal': 400, 'npoint': 5000, 'guillot': 4000, 'rodgers': 1200, 'array': 2500, 'file': 500, 'model': 300, 'long': 12}
BUDGET = {
    'quick': [dict(name='main', env={}, shards=8, cases=_Q)],
    'thorough': [dict(name='main', env={}, shards=16, cases=_T),
                 dict(name='repo-tests', env={}, shards=1, cases={'repo_tests': 1})],
}
REQUIRED = dict(
    monitors=['contract:one-per-layer', 'contract:finite-positive', 'contract:within-controls',
              'contract:constant-when-controls-equal', 'contract:isothermal-constant', 'contract:guillot-closed-form',
              'contract-fired', 'rejects-nonphysical', 'accepts-physical', 'controls-roundtrip',
              'clone:original-unchanged-by-writes-to-the-copy', 'caller-input-left-alone'],
    classes=['Isothermal', 'NPoint', 'Guillot2010', 'Rodgers2000', 'TemperatureArray', 'TemperatureFile',
             'npoint:valid', 'npoint:inverted', 'npoint:slope', 'npoint:all-equal', 'npoint:smoothed',
             'guillot:inside', 'guillot:outside-bounds', 'guillot:zero-kappa', 'guillot:negative-T',
             'guillot:alpha-outside', 'guillot:negative-kappa', 'guillot:reinit-judged', 'reinit:other-grid-same-n',
             'reinit:other-planet', 'reinit:planet-set', 'reinit:other-n', 'reinit:first-again', 'grid:integer-decades', 'array:index', 'array:pressure', 'array:all-equal',
             'rodgers:all-equal', 'nlayers:2', 'nlayers:100', 'grid:simple', 'grid:irregular', 'grid:narrow',
             'via-forward-model', 'via-setter', 'via-setter:a-few-parts-per-billion', 'history:NPoint', 'history:Guillot2010', 'history:dozens-of-rejections-on-one-object', 'clone:deepcopy', 'controls:given-as-caller-array', 'npoint:non-positive-pressure-node', 'file:temp_units=kK', 'file:temp_units=mK', 'file:temp_units=deg_C'])

NLAYERS = list(range(2, 61)) + [100]


def classify(f):
    """Known-finding keys decided from the necessary conditions of the mechanism."""
    w = f.get('witness') or {}
    if f.get('monitor') == 'contract:finite-positive' and w.get('cls') == 'Guillot2010':
        d = w.get('decl') or {}
        try:
            neg = any(float(d[k]) < 0 for k in ('kappa_irr', 'kappa_v1', 'kappa_v2'))
            alpha_out = not (0.0 <= float(d['alpha']) <= 1.0)
        except Exception:
            return None
        if (neg or alpha_out) and w.get('nan', 0) > 0:
            return 'C12/guillot-unphysical-opacity-or-alpha-gives-nan'
    return None


def setup(ctx):
    L.install(ctx)


# ------------------------------------------------------------------ generators
def gen_nlayers(rng):
    k = rng.integers(0, 10)
    if k == 0:
        return 2
    if k == 1:
        return 100
    if k == 2:
        return int(rng.choice([3, 4, 5, 7]))
    return int(rng.choice(NLAYERS))


def gen_pressure(ctx, rng, n, kinds=('simple', 'irregular', 'narrow', 'taurex')):
    """Layer pressures, strictly decreasing from the surface to the top."""
    kind = kinds[rng.integers(0, len(kinds))]
    if 2 <= n <= 12 and rng.random() < 0.08:
        # exact decades written as integers: 10**np.arange(...) is an int64 array
        hi = int(rng.integers(n - 1, 13))
        ctx.observe('grid:integer-decades')
        return 10 ** np.arange(hi, hi - n, -1), 'integer-decades'
    lpmax = rng.uniform(2.0, 8.0)
    if kind == 'narrow':
        dec = 10 ** rng.uniform(-3, 0.3)
    else:
        dec = rng.uniform(2.0, 12.0)
    if kind == 'taurex':
        from taurex.data.profiles.pressure import SimplePressureProfile
        pp = SimplePressureProfile(nlayers=n, atm_min_pressure=10 ** (lpmax - dec), atm_max_pressure=10 ** lpmax)
        pp.compute_pressure_profile()
        P = np.array(pp.profile, dtype=float)
        ctx.observe('grid:simple')
    elif kind == 'irregular':
        lp = np.sort(rng.uniform(lpmax - dec, lpmax, n))[::-1].copy()
        for i in range(1, n):
            if lp[i] >= lp[i - 1] - 1e-7:
                lp[i] = lp[i - 1] - 1e-7 - 1e-3 * rng.random()
        P = 10 ** lp
        ctx.observe('grid:irregular')
    else:
        lev = np.logspace(lpmax, lpmax - dec, n + 1)
        P = np.sqrt(lev[:-1] * lev[1:])
        ctx.observe('grid:' + ('narrow' if kind == 'narrow' else 'simple'))
    assert np.all(np.diff(P) < 0)
    return P, kind


def gen_planet(rng):
    from taurex.data import Planet
    m = float(10 ** rng.uniform(np.log10(0.05), 1.0))
    r = float(rng.uniform(0.1, 2.0))
    return Planet(planet_mass=m, planet_radius=r), (m, r)


def gen_temps(rng, k):
    lo = 10 ** rng.uniform(0, 3.5)
    hi = lo * 10 ** rng.uniform(0, 1.0)
    t = rng.uniform(lo, hi, k)
    shape = rng.integers(0, 6)
    if shape == 0:
        t = np.sort(t)
    elif shape == 1:
        t = np.sort(t)[::-1]
    elif shape == 2:
        t = np.full(k, t[0])
        t[rng.integers(0, k)] = hi          # a spike
    if rng.random() < 0.12:
        return [int(round(v)) for v in t]          # whole-number controls handed over as Python ints
    return [float(v) for v in t]


def access(ctx, obj, expect='value'):
    """Read obj.profile once under the contracts.  Returns the array, or the licensed exception."""
    from taurex.exceptions import InvalidModelException
    before = ctx.monitors['contract:one-per-layer']
    try:
        r = obj.profile
    except InvalidModelException as e:
        ctx.license(type(e).__name__)
        return e
    ctx.check('contract-fired', ctx.monitors['contract:one-per-layer'] > before or L._h['domain'](obj) is not None,
              cls=type(obj).__name__, domain=L._h['domain'](obj))
    return r


def judge_rejection(ctx, make, what, **wit):
    """``make`` builds/evaluates a documented non-physical set: only an InvalidModelException is correct."""
    from taurex.exceptions import InvalidModelException
    try:
        r = make()
    except InvalidModelException as e:
        ctx.license(type(e).__name__)
        ctx.check('rejects-nonphysical', True)
        return
    except Exception as e:      # wrong exception type
        ctx.check('rejects-nonphysical', False, what=what, raised=type(e).__name__, message=str(e)[:200], **wit)
        return
    if isinstance(r, InvalidModelException):
        ctx.check('rejects-nonphysical', True)
        return
    r = np.asarray(r, dtype=float)
    ctx.check('rejects-nonphysical', False, what=what, returned='array', nan=int(np.sum(np.isnan(r))),
              head=r[:4], **wit)


def accepted(ctx, r, what, **wit):
    ok = not isinstance(r, Exception)
    ctx.check('accepts-physical', ok, what=what, raised=type(r).__name__ if not ok else None, **wit)
    return ok


def roundtrip(ctx, obj, expect):
    """The public fitting parameters read back what was declared."""
    fp = obj.fitting_parameters()
    for k, v in expect.items():
        ctx.check('controls-roundtrip', k in fp and fp[k][2]() == v, param=k, want=v,
                  got=fp[k][2]() if k in fp else None, cls=type(obj).__name__)




def caller_array(ctx, led, values, label, p=0.5, rng=None):
    """The control values as the caller's own float64 array (lent to the constructor) or as a plain list."""
    if rng.random() < p:
        ctx.observe('controls:given-as-caller-array')
        return led.lend(np.array(values, dtype=np.float64), label)
    return list(values)


def caller_reuses(ctx, rng, led, obj, arrays, what):
    """After the object was built and read, what the caller handed in is still what it was (the constructor and the read
    do not write into the caller's arrays).  NOT judged: what happens when the caller overwrites its arrays afterwards,
    or whether a setter writes through to them -- NPoint keeps the caller's node lists by reference on the unchanged
    tree, its setters write into them, and C12 speaks about the profile for its control values, not about who owns the
    container they came in."""
    led.settle(what)
    return None


def maybe_clone(ctx, rng, obj, expect=None, p=0.35):
    """Another route to the same profile: a ``copy.deepcopy`` of the live object (a reference model kept aside before
    a scan).  The workload goes on with the COPY --
    setters, re-initialisation -- and reads the original once more at the end: what is written to the copy must show
    in the copy (its reads are judged from the copy's own declaration) and must not show in the original."""
    if rng.random() >= p:
        return obj, None
    how = 'deepcopy'        # objects with fitting parameters do not pickle on the unchanged tree (closures): not a route
    c = world.clone(obj, how)
    ctx.observe('clone:' + how)
    if expect is not None:
        roundtrip(ctx, c, expect)
    return c, obj


def original_untouched(ctx, orig, first):
    if orig is None:
        return
    again = access(ctx, orig)          # judged by the contracts from the original's own declaration
    if type(orig).__name__ == 'Guillot2010':
        # depends on the planet's gravity, and the workload writes to the (shared) planet: the closed-form contract
        # above is the judgement; equality with the first read is not implied
        return
    same = (isinstance(again, Exception) and isinstance(first, Exception)) or \
        (not isinstance(again, Exception) and not isinstance(first, Exception)
         and np.shape(again) == np.shape(first) and bool(np.array_equal(np.asarray(again), np.asarray(first))))
    ctx.check('clone:original-unchanged-by-writes-to-the-copy', same, cls=type(orig).__name__)


def reinit_again(ctx, rng, obj, n, P, planet, same_n_only=False, rounds=None):
    """The SAME profile object is initialised again -- another pressure grid with the same layer count, another
    planet, the same Planet object after its mass/radius was set, another layer count -- and read again; the first
    set-up is then restored and read once more.  The contracts judge every read from the grid the tap recorded at
    initialize_profile, so anything kept from an earlier set-up (a cache keyed on the layer count or the opacities,
    a buffer, a smoothed profile) shows as a closed-form / within-controls / one-per-layer failure.
    Reads that the new set-up makes non-physical (a pressure node now outside the grid) are licensed rejections."""
    for _ in range(int(rounds or rng.integers(1, 4))):
        kind = ['other-grid-same-n', 'other-planet', 'planet-set', 'other-n'][rng.integers(0, 4)]
        if kind == 'other-n' and same_n_only:
            kind = 'other-grid-same-n'
        if kind == 'other-grid-same-n':
            P2, _ = gen_pressure(ctx, rng, n)
            obj.initialize_profile(planet, n, P2)
        elif kind == 'other-planet':
            planet2, _ = gen_planet(rng)
            obj.initialize_profile(planet2, n, P)
        elif kind == 'planet-set':
            fp = planet.fitting_parameters()
            name = ['planet_mass', 'planet_radius'][rng.integers(0, 2)]
            old = fp[name][2]()
            new = float(old * 10 ** rng.uniform(-0.5, 0.5))
            fp[name][3](new)
            L.redeclare(planet, {name: new})
            obj.initialize_profile(planet, n, P)
        else:
            n2 = gen_nlayers(rng)
            P2, _ = gen_pressure(ctx, rng, n2)
            obj.initialize_profile(planet, n2, P2)
        ctx.observe('reinit:' + kind)
        access(ctx, obj)
    obj.initialize_profile(planet, n, P)
    ctx.observe('reinit:first-again')
    return access(ctx, obj)


# ------------------------------------------------------------------- workloads
def wl_isothermal(ctx, rng):
    from taurex.data.profiles.temperature import Isothermal
    n = gen_nlayers(rng)
    P, gk = gen_pressure(ctx, rng, n)
    T = float(10 ** rng.uniform(0, 4))
    ctx.observe('Isothermal', 'nlayers:%d' % n)
    iso = Isothermal(T=T)
    planet, _ = gen_planet(rng)
    if rng.random() < 0.5:
        iso.initialize_profile(planet, n, P)
    else:
        iso.initialize_profile(nlayers=n)          # the documented minimal call
    first = access(ctx, iso)
    accepted(ctx, first, 'isothermal', T=T)
    roundtrip(ctx, iso, {'T': T})
    iso, orig = maybe_clone(ctx, rng, iso, {'T': T})
    T2 = float(10 ** rng.uniform(0, 4))
    iso.fitting_parameters()['T'][3](T2)
    L.redeclare(iso, T=T2)
    ctx.observe('via-setter')
    accepted(ctx, access(ctx, iso), 'isothermal-after-set', T=T2)
    # observed only: a negative control has no documented rejection
    neg = Isothermal(T=-T)
    neg.initialize_profile(nlayers=n)
    try:
        v = neg.profile
        ctx.event('observed-only:isothermal-negative-T-%s' % ('returned-negative' if np.all(v < 0) else 'other'))
    except Exception as e:
        ctx.event('observed-only:isothermal-negative-T-raised-' + type(e).__name__)
    reinit_again(ctx, rng, iso, n, P, planet)
    original_untouched(ctx, orig, first)
    ctx.sig('iso', n, T, T2)


def wl_npoint(ctx, rng):
    from taurex.data.profiles.temperature import NPoint
    n = gen_nlayers(rng)
    P, gk = gen_pressure(ctx, rng, n)
    planet, _ = gen_planet(rng)
    k = int(rng.integers(0, 6))
    temps = gen_temps(rng, k + 2)
    mode = ['valid', 'valid', 'valid', 'equal', 'inverted', 'slope'][rng.integers(0, 6)]
    if mode == 'equal':
        temps = [temps[0]] * (k + 2)
    l0, l1 = np.log10(P[0]), np.log10(P[-1])
    fr = np.sort(rng.uniform(0.02, 0.98, k))
    pp = [float(10 ** (l0 + f * (l1 - l0))) for f in fr]
    kw = {}
    r = rng.random()
    if r < 0.1:
        kw['P_surface'] = -1
    elif r < 0.3:
        kw['P_surface'] = float(P[0] * 10 ** rng.uniform(-0.01, 1.0))
    r = rng.random()
    if r < 0.1:
        kw['P_top'] = -1
    elif r < 0.3:
        kw['P_top'] = float(P[-1] * 10 ** rng.uniform(-1.0, 0.01))
    window = int(rng.choice([0, 1, 2, 5, 10, 25, 33, 50, 99, 100])) if rng.random() < 0.6 else int(rng.integers(0, 101))
    kw['smoothing_window'] = window
    if mode == 'inverted':
        how = rng.integers(0, 5)
        if how == 4 and k >= 1:
            # a node that is not a pressure at all: negative or exactly zero (a sampler stepping outside a linear prior)
            i = int(rng.integers(0, k))
            pp[i] = -pp[i] if rng.random() < 0.6 else 0.0
            ctx.observe('npoint:non-positive-pressure-node')
        elif how == 0 and k >= 2:
            i = int(rng.integers(0, k - 1))
            pp[i], pp[i + 1] = pp[i + 1], pp[i]
        elif how == 1 and k >= 1:
            pp[0] = float(P[0] * 10 ** rng.uniform(0.0, 2.0)) if 'P_surface' not in kw or kw['P_surface'] < 0 \
                else float(kw['P_surface'] * 10 ** rng.uniform(0.0, 2.0))
        elif how == 2 and k >= 1:
            pp[-1] = float(P[-1] * 10 ** rng.uniform(-2.0, 0.0)) if 'P_top' not in kw or kw['P_top'] < 0 \
                else float(kw['P_top'] * 10 ** rng.uniform(-2.0, 0.0))
        else:
            kw['P_top'] = float(P[0] * 10 ** rng.uniform(0.0, 1.0))
            kw.pop('P_surface', None)
    if rng.random() < 0.3 or mode == 'slope':
        kw['limit_slope'] = float(10 ** rng.uniform(-1, 5))
    led = own.Ledger(ctx, 'npoint')
    g_t = caller_array(ctx, led, temps[1:-1], 'temperature_points', rng=rng) if k else list(temps[1:-1])
    g_p = caller_array(ctx, led, pp, 'pressure_points', rng=rng) if k else list(pp)
    np_ = NPoint(T_surface=temps[0], T_top=temps[-1], temperature_points=g_t, pressure_points=g_p, **kw)
    np_.initialize_profile(planet, n, P)
    ctx.observe('NPoint', 'nlayers:%d' % n, 'npoint:controls=%d' % (k + 2))
    ctx.feature(kind='npoint', nlayers=n, window=window, grid=gk, decl=np_._vmon_decl[1])
    verdict = L.nonphysical_npoint(np_._vmon_decl[1], P)
    ctx.observe('npoint:' + verdict)
    if len(set(temps)) == 1 and verdict == 'valid':
        ctx.observe('npoint:all-equal')
    wsize = int(n * window / 100.0)
    if verdict == 'valid' and wsize + (wsize % 2 == 0) >= 3 and wsize + (wsize % 2 == 0) <= n:
        ctx.observe('npoint:smoothed')
    if verdict == 'borderline':
        ctx.event('domain-skip:npoint-slope-at-limit')
        return
    if verdict in ('inverted', 'slope'):
        judge_rejection(ctx, lambda: access(ctx, np_), 'npoint-' + verdict, decl=np_._vmon_decl[1], P0=P[0], Pn=P[-1])
        ctx.sig('npoint', verdict, n, k, tuple(pp), tuple(temps))
        return
    res = access(ctx, np_)
    if not accepted(ctx, res, 'npoint-valid', decl=np_._vmon_decl[1], P0=P[0], Pn=P[-1]):
        return
    rt = {'T_surface': temps[0], 'T_top': temps[-1]}
    for i in range(k):
        rt['T_point%d' % (i + 1)] = temps[i + 1]
        rt['P_point%d' % (i + 1)] = pp[i]
    roundtrip(ctx, np_, rt)
    again = caller_reuses(ctx, rng, led, np_, [g_t, g_p], 'NPoint built and read')
    if again is not None:
        accepted(ctx, again, 'npoint-after-caller-reused-its-arrays', decl=np_._vmon_decl[1])
    np_, orig = maybe_clone(ctx, rng, np_, rt)
    # change one node through the public setter: the contracts judge the new state
    fp = np_.fitting_parameters()
    if rng.random() < (0.5 if orig is None else 0.9):
        name = ['T_surface', 'T_top'][rng.integers(0, 2)] if k == 0 or rng.random() < 0.5 else 'T_point%d' % (rng.integers(0, k) + 1)
        v = float(10 ** rng.uniform(0, 4))
        if rng.random() < 0.4:
            # a step of a few parts per billion, as a converged sampler takes: the hottest (coldest) control moves INWARD by
            # that little, and the profile read next has to stay below (above) it
            ext = int(np.argmax(temps)) if rng.random() < 0.5 else int(np.argmin(temps))
            name = 'T_surface' if ext == 0 else ('T_top' if ext == k + 1 else 'T_point%d' % ext)
            eps_ = float(10 ** rng.uniform(-9, -6))
            v = float(temps[ext] * (1.0 - eps_)) if temps[ext] == max(temps) else float(temps[ext] * (1.0 + eps_))
            ctx.observe('via-setter:a-few-parts-per-billion')
        fp[name][3](v)
        if name.startswith('T_point'):
            L.redeclare(np_, {('temperature_points', int(name[7:]) - 1): v})
        else:
            L.redeclare(np_, {name: v})
        ctx.observe('via-setter')
        v2 = L.nonphysical_npoint(np_._vmon_decl[1], P)
        r2 = access(ctx, np_)
        if v2 == 'valid':
            accepted(ctx, r2, 'npoint-after-set', decl=np_._vmon_decl[1])
        elif v2 == 'slope':
            judge_rejection(ctx, lambda: r2, 'npoint-slope-after-set', decl=np_._vmon_decl[1])
    reinit_again(ctx, rng, np_, n, P, planet)
    original_untouched(ctx, orig, res)
    ctx.sig('npoint', n, k, window, gk, tuple(temps), tuple(pp))
    ctx.sample({'class': 'NPoint', 'nlayers': n, 'grid': gk, 'controls': temps, 'pressure_points': pp, 'window': window,
                'T_minmax': [float(np.min(res)), float(np.max(res))]})


def wl_guillot(ctx, rng):
    from taurex.data.profiles.temperature import Guillot2010
    n = gen_nlayers(rng)
    P, gk = gen_pressure(ctx, rng, n)
    planet, (pm, pr) = gen_planet(rng)
    mode = ['inside'] * 6 + ['outside-bounds', 'outside-bounds', 'alpha-outside', 'negative-kappa', 'zero-kappa',
                             'negative-T', 'zero-T', 'setter-invalid']
    mode = mode[rng.integers(0, len(mode))]
    kb = (-12.0, 3.0) if mode == 'outside-bounds' else (-10.0, 0.0)
    p = dict(T_irr=float(rng.uniform(50, 3500)), kappa_irr=float(10 ** rng.uniform(*kb)),
             kappa_v1=float(10 ** rng.uniform(*kb)), kappa_v2=float(10 ** rng.uniform(*kb)),
             alpha=float(rng.choice([0.0, 1.0, 0.5])) if rng.random() < 0.2 else float(rng.uniform(0, 1)),
             T_int=float(rng.choice([0.0, 100.0])) if rng.random() < 0.2 else float(rng.uniform(0, 1500)))
    ctx.observe('Guillot2010', 'nlayers:%d' % n, 'guillot:' + mode)
    ctx.feature(kind='guillot', mode=mode, nlayers=n, grid=gk, planet=(pm, pr))
    if mode == 'alpha-outside':
        p['alpha'] = float(rng.choice([-1, 1]) * 10 ** rng.uniform(-2, 1) + (1.0 if rng.random() < 0.5 else 0.0))
        if 0.0 <= p['alpha'] <= 1.0:
            p['alpha'] += 1.0
    elif mode == 'negative-kappa':
        for key in rng.choice(['kappa_irr', 'kappa_v1', 'kappa_v2'], int(rng.integers(1, 4)), replace=False):
            p[str(key)] = -p[str(key)]
    elif mode == 'zero-T':
        which = rng.integers(0, 3)
        if which == 0:
            p['T_irr'] = 0.0
            p['T_int'] = max(p['T_int'], 10.0)
        elif which == 1:
            p['T_int'] = 0.0
        else:
            p['T_irr'] = p['T_int'] = 0.0
            ctx.event('domain-skip:guillot-all-temperatures-zero')
    if mode in ('zero-kappa', 'negative-T'):
        q = dict(p)
        if mode == 'zero-kappa':
            for key in rng.choice(['kappa_irr', 'kappa_v1', 'kappa_v2'], int(rng.integers(1, 4)), replace=False):
                q[str(key)] = 0.0
        else:
            for key in rng.choice(['T_irr', 'T_int'], int(rng.integers(1, 3)), replace=False):
                q[str(key)] = -abs(q[str(key)]) - 1.0

        def make():
            g = Guillot2010(**q)
            g.initialize_profile(planet, n, P)
            return access(ctx, g)
        judge_rejection(ctx, make, 'guillot-' + mode, params=q)
        ctx.sig('guillot', mode, tuple(sorted(q.items())))
        return
    g = Guillot2010(**p)
    g.initialize_profile(planet, n, P)
    res = access(ctx, g)
    if mode in ('alpha-outside', 'negative-kappa') or (p['T_irr'] == 0.0 and p['T_int'] == 0.0):
        # outside the documented bounds the property only asks for "finite positive or rejected";
        # T_irr = T_int = 0 is counted, not judged (see ASSUMPTIONS)
        if isinstance(res, Exception):
            ctx.event('outside-bounds-rejected:' + mode)
            ctx.sig('guillot', mode, 'rejected', tuple(sorted(p.items())))
            return
    elif not accepted(ctx, res, 'guillot-' + mode, params=p):
        return
    roundtrip(ctx, g, {'T_irr': p['T_irr'], 'kappa_irr': p['kappa_irr'], 'kappa_v1': p['kappa_v1'],
                       'kappa_v2': p['kappa_v2'], 'alpha': p['alpha'], 'T_int_guillot': p['T_int']})
    g, orig = maybe_clone(ctx, rng, g)
    fp = g.fitting_parameters()
    if mode == 'setter-invalid':
        # a sampler writes a non-physical value through the fitting parameter: profile must reject, then recover
        ctx.observe('via-setter')
        name, decl = [('kappa_irr', 'kappa_irr'), ('kappa_v1', 'kappa_v1'), ('kappa_v2', 'kappa_v2'),
                      ('T_irr', 'T_irr'), ('T_int_guillot', 'T_int')][rng.integers(0, 5)]
        bad = 0.0 if name.startswith('kappa') else -float(rng.uniform(1, 1000))
        old = fp[name][2]()
        fp[name][3](bad)
        L.redeclare(g, {decl: bad})
        judge_rejection(ctx, lambda: access(ctx, g), 'guillot-set-%s=%g' % (name, bad), params=p)
        ctx.observe('guillot:zero-kappa' if bad == 0.0 else 'guillot:negative-T')
        fp[name][3](old)
        L.redeclare(g, {decl: old})
        back = access(ctx, g)
        if accepted(ctx, back, 'guillot-restored', params=p):
            ctx.check('restored-equals-original', bool(np.array_equal(np.asarray(back), np.asarray(res))))
    elif rng.random() < 0.4:
        ctx.observe('via-setter')
        name, decl, v = [('kappa_irr', 'kappa_irr', float(10 ** rng.uniform(-10, 0))),
                         ('kappa_v1', 'kappa_v1', float(10 ** rng.uniform(-10, 0))),
                         ('alpha', 'alpha', float(rng.uniform(0, 1))),
                         ('T_irr', 'T_irr', float(rng.uniform(50, 3500))),
                         ('T_int_guillot', 'T_int', float(rng.uniform(0, 1500)))][rng.integers(0, 5)]
        if mode in ('inside', 'outside-bounds', 'zero-T'):
            fp[name][3](v)
            L.redeclare(g, {decl: v})
            accepted(ctx, access(ctx, g), 'guillot-after-set', params=g._vmon_decl[1])
    if mode in ('inside', 'outside-bounds', 'setter-invalid'):
        again = reinit_again(ctx, rng, g, n, P, planet)
        if mode == 'inside' and not isinstance(again, Exception):
            ctx.observe('guillot:reinit-judged')
    original_untouched(ctx, orig, res)
    ctx.sig('guillot', mode, n, gk, tuple(sorted(p.items())), round(pm, 6), round(pr, 6))
    ctx.sample({'class': 'Guillot2010', 'mode': mode, 'nlayers': n, 'params': p, 'planet': [pm, pr],
                'T_minmax': [float(np.nanmin(res)), float(np.nanmax(res))]})


def wl_rodgers(ctx, rng):
    from taurex.data.profiles.temperature import Rodgers2000
    n = gen_nlayers(rng)
    P, gk = gen_pressure(ctx, rng, n)
    planet, _ = gen_planet(rng)
    temps = gen_temps(rng, n)
    if rng.random() < 0.2:
        temps = [temps[0]] * n
        ctx.observe('rodgers:all-equal')
    h = float(10 ** rng.uniform(-1.5, 1.5))
    ctx.observe('Rodgers2000', 'nlayers:%d' % n)
    ctx.feature(kind='rodgers', nlayers=n, h=h, grid=gk)
    led = own.Ledger(ctx, 'rodgers')
    given = caller_array(ctx, led, temps, 'temperature_layers', rng=rng)
    r = Rodgers2000(temperature_layers=given, correlation_length=h)
    r.initialize_profile(planet, n, P)
    res = access(ctx, r)
    if not accepted(ctx, res, 'rodgers', h=h, n=n):
        return
    again = caller_reuses(ctx, rng, led, r, [given], 'Rodgers2000 built and read')
    if again is not None:
        accepted(ctx, again, 'rodgers-after-caller-reused-its-array', h=h, n=n)
    roundtrip(ctx, r, dict([('correlation_length', h)] + [('T_%d' % (i + 1), temps[i]) for i in range(min(n, 5))]))
    r, orig = maybe_clone(ctx, rng, r)
    if rng.random() < 0.5:
        i = int(rng.integers(0, n))
        v = float(10 ** rng.uniform(0, 4))
        r.fitting_parameters()['T_%d' % (i + 1)][3](v)
        L.redeclare(r, {('temperature_layers', i): v})
        ctx.observe('via-setter')
        accepted(ctx, access(ctx, r), 'rodgers-after-set')
    reinit_again(ctx, rng, r, n, P, planet, same_n_only=True)
    original_untouched(ctx, orig, res)
    ctx.sig('rodgers', n, gk, h, tuple(temps[:6]))
    ctx.sample({'class': 'Rodgers2000', 'nlayers': n, 'h': h, 'controls_minmax': [min(temps), max(temps)],
                'T_minmax': [float(np.min(res)), float(np.max(res))]})


def gen_array_case(ctx, rng, n, P):
    k = n if rng.random() < 0.2 else int(rng.integers(2, 13))
    temps = gen_temps(rng, k)
    if rng.random() < 0.15:
        temps = [temps[0]] * k
        ctx.observe('array:all-equal')
    pts = None
    if rng.random() < 0.6:
        l0, l1 = np.log10(P[0]), np.log10(P[-1])
        span = rng.choice(['inside', 'cover', 'shifted'])
        a, b = {'inside': (0.1, 0.9), 'cover': (-0.2, 1.2), 'shifted': (0.5, 1.8)}[str(span)]
        fr = np.sort(rng.uniform(a, b, k))
        for i in range(1, k):
            if fr[i] <= fr[i - 1] + 1e-9:
                fr[i] = fr[i - 1] + 1e-6
        pts = 10 ** (l0 + fr * (l1 - l0))         # decreasing (surface first)
        if rng.random() < 0.3:
            pts = pts[::-1].copy()                 # increasing order is accepted too
        ctx.observe('array:pressure')
    else:
        ctx.observe('array:index')
    return temps, (None if pts is None else [float(v) for v in pts])


def wl_array(ctx, rng):
    from taurex.data.profiles.temperature.temparray import TemperatureArray
    n = gen_nlayers(rng)
    P, gk = gen_pressure(ctx, rng, n)
    planet, _ = gen_planet(rng)
    temps, pts = gen_array_case(ctx, rng, n, P)
    rev = bool(rng.random() < 0.3)
    ctx.observe('TemperatureArray', 'nlayers:%d' % n)
    ctx.feature(kind='array', nlayers=n, grid=gk, npoints=len(temps), has_p=pts is not None, reverse=rev)
    led = own.Ledger(ctx, 'temparray')
    g_t = caller_array(ctx, led, temps, 'tp_array', rng=rng)
    g_p = None if pts is None else caller_array(ctx, led, pts, 'p_points', rng=rng)
    ta = TemperatureArray(tp_array=g_t, p_points=g_p, reverse=rev)
    ta.initialize_profile(planet, n, P)
    res = access(ctx, ta)
    if not accepted(ctx, res, 'array', npoints=len(temps)):
        return
    again = caller_reuses(ctx, rng, led, ta, [g_t, g_p], 'TemperatureArray built and read')
    if again is not None:
        accepted(ctx, again, 'array-after-caller-reused-its-arrays', npoints=len(temps))
    led.settle('TemperatureArray')
    reinit_again(ctx, rng, ta, n, P, planet)
    ctx.sig('array', n, gk, tuple(temps), None if pts is None else tuple(pts), rev)
    ctx.sample({'class': 'TemperatureArray', 'nlayers': n, 'controls': temps, 'p_points': pts, 'reverse': rev,
                'T_minmax': [float(np.min(res)), float(np.max(res))]})


def wl_file(ctx, rng):
    from taurex.data.profiles.temperature.file import TemperatureFile
    n = gen_nlayers(rng)
    P, gk = gen_pressure(ctx, rng, n)
    planet, _ = gen_planet(rng)
    temps, pts = gen_array_case(ctx, rng, n, P)
    skip = int(rng.integers(0, 3))
    comma = bool(rng.random() < 0.4) and pts is not None
    unit = str(rng.choice(['Pa', 'bar'])) if pts is not None else 'Pa'
    ncol = int(rng.integers(2, 5)) if pts is not None else int(rng.integers(1, 4))
    cols = rng.permutation(ncol)
    tcol = int(cols[0])
    pcol = int(cols[1]) if pts is not None else None
    # the temperature column in another unit (documented keyword temp_units): kelvin multiples, or degrees Celsius --
    # which the package may refuse (an offset is not a factor) but must not read as kelvin times something
    tunit = str(rng.choice(['K', 'K', 'K', 'mK', 'kK', 'deg_C', 'Celsius']))
    tscale, toffset = L.TEMP_UNITS[tunit]
    path = os.path.join(ctx.scratch, 'tp_%d_%d.dat' % (ctx.case['index'], rng.integers(0, 1 << 30)))
    with open(path, 'w') as fh:
        for i in range(skip):
            fh.write('header line %d\n' % i)
        for i, t in enumerate(temps):
            row = ['%.17g' % rng.uniform(0, 10) for _ in range(ncol)]
            row[tcol] = '%.17g' % ((t - toffset) / tscale)
            if pcol is not None:
                row[pcol] = '%.17g' % (pts[i] / L.PRESS_UNITS[unit])
            fh.write((',' if comma else ' ').join(row) + '\n')
    ctx.observe('TemperatureFile', 'nlayers:%d' % n)
    ctx.feature(kind='file', nlayers=n, grid=gk, npoints=len(temps), has_p=pts is not None, unit=unit, comma=comma)
    kw = dict(filename=path, skiprows=skip, temp_col=tcol)
    if tunit != 'K' or rng.random() < 0.3:
        kw['temp_units'] = tunit
    ctx.observe('file:temp_units=' + tunit)
    if pcol is not None:
        kw.update(press_col=pcol, press_units=unit)
        if comma:
            kw['delimiter'] = ','
    if toffset:
        try:
            tf = TemperatureFile(**kw)
        except Exception as e:
            # degrees Celsius refused at construction: a refusal is what the statement allows for input it cannot take
            ctx.license(type(e).__name__)
            ctx.event('file:celsius-refused')
            return
        ctx.event('file:celsius-accepted')
    else:
        tf = TemperatureFile(**kw)
    tf.initialize_profile(planet, n, P)
    res = access(ctx, tf)
    if not accepted(ctx, res, 'file', npoints=len(temps)):
        return
    reinit_again(ctx, rng, tf, n, P, planet)
    ctx.sig('file', n, gk, tuple(temps), None if pts is None else tuple(pts), unit, comma, skip)
    ctx.sample({'class': 'TemperatureFile', 'nlayers': n, 'controls': temps, 'p_points': pts, 'unit': unit,
                'T_minmax': [float(np.min(res)), float(np.max(res))]})


def wl_model(ctx, rng):
    """The contracts fire on the calls a forward model makes while it is built and run through its profiles."""
    from taurex.data.stellar import BlackbodyStar
    from taurex.data.profiles.pressure import SimplePressureProfile
    from taurex.data.profiles.chemistry import TaurexChemistry, ConstantGas
    from taurex.data.profiles.temperature import Isothermal, NPoint, Guillot2010, Rodgers2000
    from taurex.data.profiles.temperature.temparray import TemperatureArray
    from taurex.model import TransmissionModel
    from taurex.exceptions import InvalidModelException
    world.reset_caches()
    n = gen_nlayers(rng)
    lpmax = rng.uniform(3.0, 7.0)
    pmax, pmin = 10 ** lpmax, 10 ** (lpmax - rng.uniform(2, 10))
    planet, (pm, pr) = gen_planet(rng)
    kind = ['Isothermal', 'NPoint', 'Guillot2010', 'Rodgers2000', 'TemperatureArray'][rng.integers(0, 5)]
    if kind == 'Isothermal':
        t = Isothermal(T=float(rng.uniform(100, 3000)))
    elif kind == 'NPoint':
        k = int(rng.integers(0, 4))
        temps = gen_temps(rng, k + 2)
        d = (np.log10(pmax) - np.log10(pmin)) / n / 2.0
        hi, lo = np.log10(pmax) - d, np.log10(pmin) + d
        fr = np.sort(rng.uniform(0.05, 0.95, k))
        t = NPoint(T_surface=temps[0], T_top=temps[-1], temperature_points=list(temps[1:-1]),
                   pressure_points=[float(10 ** (hi + f * (lo - hi))) for f in fr],
                   smoothing_window=int(rng.integers(0, 101)))
    elif kind == 'Guillot2010':
        t = Guillot2010(T_irr=float(rng.uniform(300, 2500)), kappa_irr=float(10 ** rng.uniform(-4, -1)),
                        kappa_v1=float(10 ** rng.uniform(-4, -1)), kappa_v2=float(10 ** rng.uniform(-4, -1)),
                        alpha=float(rng.uniform(0, 1)), T_int=float(rng.uniform(0, 500)))
    elif kind == 'Rodgers2000':
        t = Rodgers2000(temperature_layers=gen_temps(rng, n), correlation_length=float(rng.uniform(0.5, 10)))
    else:
        t = TemperatureArray(tp_array=gen_temps(rng, int(rng.integers(2, 9))))
    chem = TaurexChemistry(fill_gases=['H2', 'He'], ratio=0.17)
    chem.addGas(ConstantGas('N2', mix_ratio=1e-4))
    m = TransmissionModel(planet=planet, star=BlackbodyStar(temperature=5000.0, radius=1.0),
                          pressure_profile=SimplePressureProfile(nlayers=n, atm_min_pressure=pmin, atm_max_pressure=pmax),
                          temperature_profile=t, chemistry=chem)
    ctx.observe(kind, 'nlayers:%d' % n, 'via-forward-model')
    ctx.feature(kind='model:' + kind, nlayers=n)
    before = ctx.monitors['contract:one-per-layer']
    try:
        m.build()
        m.initialize_profiles()
        tp = np.array(m.temperatureProfile, dtype=float)
    except InvalidModelException as e:
        if kind != 'NPoint':
            raise
        ctx.license(type(e).__name__)      # steep random nodes may legitimately exceed the default slope limit
        return
    ctx.check('contract-fired', ctx.monitors['contract:one-per-layer'] - before >= 2, kind=kind,
              gained=ctx.monitors['contract:one-per-layer'] - before)
    ctx.check('model-temperature-one-per-layer', tp.shape == (m.nLayers,) and m.nLayers == n, shape=list(tp.shape), n=n)
    ctx.sig('model', kind, n, round(pm, 6), round(pr, 6), round(pmax, 3), round(pmin, 9))


def wl_long(ctx, rng):
    """A long history on ONE profile object, as in a retrieval whose priors reach into the unphysical: over a hundred
    parameter updates through the public setters, physical and unphysical ones interleaved -- every unphysical set is
    rejected (the 100th as the first), every physical one gives a finite positive profile within its controls."""
    from taurex.data.profiles.temperature import NPoint, Guillot2010
    n = int(rng.integers(3, 30))
    P, gk = gen_pressure(ctx, rng, n)
    planet, _ = gen_planet(rng)
    steps = int(rng.integers(110, 180)) if ctx.tier == 'quick' else int(rng.integers(300, 900))
    l0, l1 = np.log10(P[0]), np.log10(P[-1])
    if rng.random() < 0.5:
        temps = gen_temps(rng, 3)
        pp = float(10 ** (l0 + 0.5 * (l1 - l0)))
        obj = NPoint(T_surface=temps[0], T_top=temps[2], temperature_points=[temps[1]], pressure_points=[pp], smoothing_window=0)
        obj.initialize_profile(planet, n, P)
        fp = obj.fitting_parameters()
        ctx.observe('history:NPoint')
        rejected = 0
        for i in range(steps):
            if rng.random() < 0.5:
                # the node's pressure is written above the surface pressure or below the top: an inverted node order
                v = float(P[0] * 10 ** rng.uniform(0.05, 2.0)) if rng.random() < 0.5 else float(P[-1] * 10 ** rng.uniform(-2.0, -0.05))
            else:
                v = float(10 ** (l0 + rng.uniform(0.05, 0.95) * (l1 - l0)))
            fp['P_point1'][3](v)
            L.redeclare(obj, {('pressure_points', 0): v})
            if rng.random() < 0.5:
                t = float(rng.uniform(200, 3000))
                fp['T_point1'][3](t)
                L.redeclare(obj, {('temperature_points', 0): t})
            verdict = L.nonphysical_npoint(obj._vmon_decl[1], P)
            if verdict == 'borderline':
                continue
            if verdict in ('inverted', 'slope'):
                rejected += 1
                judge_rejection(ctx, lambda: access(ctx, obj), 'npoint-%s-after-%d-rejections' % (verdict, rejected),
                                decl=obj._vmon_decl[1], step=i)
            else:
                accepted(ctx, access(ctx, obj), 'npoint-valid-in-a-long-history', decl=obj._vmon_decl[1], step=i,
                         rejected_before=rejected)
    else:
        p = dict(T_irr=float(rng.uniform(500, 2500)), kappa_irr=float(10 ** rng.uniform(-4, -1)),
                 kappa_v1=float(10 ** rng.uniform(-4, -1)), kappa_v2=float(10 ** rng.uniform(-4, -1)),
                 alpha=float(rng.uniform(0.1, 0.9)), T_int=float(rng.uniform(50, 500)))
        obj = Guillot2010(**p)
        obj.initialize_profile(planet, n, P)
        fp = obj.fitting_parameters()
        ctx.observe('history:Guillot2010')
        rejected = 0
        for i in range(steps):
            name = ['T_irr', 'T_int'][rng.integers(0, 2)]
            bad = rng.random() < 0.5
            v = -float(rng.uniform(1.0, 2000.0)) if bad else float(rng.uniform(50, 2500))
            fp['T_int_guillot' if name == 'T_int' else name][3](v)
            L.redeclare(obj, {name: v})
            d = obj._vmon_decl[1]
            if float(d['T_irr']) < 0 or float(d['T_int']) < 0:
                rejected += 1
                judge_rejection(ctx, lambda: access(ctx, obj), 'guillot-negative-T-after-%d-rejections' % rejected, params=dict(d), step=i)
            else:
                accepted(ctx, access(ctx, obj), 'guillot-valid-in-a-long-history', params=dict(d), step=i, rejected_before=rejected)
    if rejected > 100:
        ctx.observe('history:over-a-hundred-rejections-on-one-object')
    if rejected > 45:
        ctx.observe('history:dozens-of-rejections-on-one-object')
    ctx.sig('long', type(obj).__name__, n, steps, rejected)


def wl_repo_tests(ctx, rng):
    """The repository's own temperature tests, run in this process with the contracts on (DESIGN 3.4).  Their
    hypothesis strategies draw arbitrary floats: the contracts' domain preconditions count what they do not judge."""
    import pytest
    from vmon import contracts
    tests = os.path.join(contracts.repo_root(), 'tests')
    if not os.path.isdir(tests):
        tests = '/repo/tests'
    # wall-clock must not decide anything: no per-example deadline, no 'too slow' health checks, fixed examples
    import contextlib
    import io
    from hypothesis import HealthCheck, settings
    settings.register_profile('vmon', deadline=None, suppress_health_check=list(HealthCheck), derandomize=True,
                              database=None)
    before = sum(ctx.monitors.values())
    buf = io.StringIO()
    with contextlib.redirect_stdout(buf):
        rc = pytest.main(['-q', '-rf', '-p', 'no:cacheprovider', '--no-header', '-W', 'ignore', '--hypothesis-profile=vmon',
                          os.path.join(tests, 'temperature')])
    ctx.check('repo-tests-pass-under-contracts', int(rc) == 0, rc=int(rc), output=buf.getvalue()[-2500:])
    gained = sum(ctx.monitors.values()) - before
    ctx.note('contract_evaluations_during_repo_tests', gained)
    ctx.check('repo-tests-reached-contracts', gained > 0)
    ctx.sig('repo-tests')
    ctx.sig('repo-tests', 2)


WORKLOADS = {'long': wl_long, 'repo_tests': wl_repo_tests, 'isothermal': wl_isothermal, 'npoint': wl_npoint, 'guillot': wl_guillot, 'rodgers': wl_rodgers,
             'array': wl_array, 'file': wl_file, 'model': wl_model}

LEVEL_TEXT = ('Exploration by runtime monitoring: icontract postconditions attached from the harness to the profile property of '
              'every built-in temperature class judge every array the workloads (and forward models they build) obtain -- one '
              'value per layer, finite, positive, inside the range of the declared control temperatures, constant for equal '
              'controls, Guillot equal to an independently coded closed form -- against constructor arguments and grids recorded '
              'by taps; the workloads present every documented non-physical set (also through the fitting-parameter setters) and '
              'require an InvalidModelException. Held means held on the recorded executions.'
              ' Results the caller keeps and work arrays it re-uses are followed by an ownership ledger (vmon/own.py).')
LEVEL_NOTE = ('Trusted: scipy.special.exp1 for E2; the Guillot 2010 / Line 2012 formula as quoted in the class documentation; '
              'IAU-2015 nominal Jupiter constants for the surface gravity (agree with the repository to 1e-12).')
TECHNIQUE = 'icontract postconditions on every TemperatureProfile.profile + constructor/initialize taps + closed-form reference, over seeded workloads'
