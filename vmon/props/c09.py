"""C09 -- posterior summaries are the weighted statistics of the stored samples.

Monitors
  * a DESIGNED sample set (samples, weights, log-likelihoods, mode / cluster membership) is handed to the unmodified
    nestle / MultiNest / PolyChord wrappers through the sampler doubles (vmon/doubles: the MultiNest and PolyChord
    doubles write the libraries' output files, the nestle stand-in returns a nestle.Result); ``optimizer.fit()`` then
    runs the wrapper's own parsing, summarising and post-processing.
  * observed: the returned solution dictionary, ``get_samples`` / ``get_weights`` / ``get_solution``.
Oracle (per reported solution)
  * traces and weights bit-identical to the designed rows of that mode;
  * per parameter the 16/50/84 % weighted quantiles (sort, cumulative normalised weights, linear interpolation of q on
    that CDF): exact when all sample values are distinct, a bracket when values tie (the order of tied values is
    unspecified); sigma_m = q50-q16, sigma_p = q84-q50; mean = weighted mean; MAP = the sample of greatest weight
    (MultiNest: the value the sampler printed as "MAP Parameters", which the double takes from that very sample);
  * Spectra = a freshly built shadow model at the MAP on the full native grid (native) and its overlap-mean binning
    onto the observation bins; Profiles = the shadow model at the median;
  * every derived trace has one entry per sample in sample order (shadow evaluated per sample) and the same summaries.
Tolerances
  * traces / weights: exact -- the doubles write 19 significant digits, every IEEE double round-trips;
  * quantiles, sigma_m/p, mean: 1e-12 relative (+1e-12 max|x| absolute; sigma = difference of two quantiles: 4e-12):
    with distinct values the sort is unique and the reference accumulates the same numbers in the same order (measured
    residual 0), the margin covers np.average versus a two-pass sum;
  * spectra and profiles: 1e-9 relative -- the shadow is the same forward model, its parameters are 10**theta from
    Python's pow instead of numpy's (<= 1 ulp) and the binned spectrum comes from an independent overlap mean (C05 judges
    the binner to 1e-12; measured 4e-15);
  * derived traces 1e-10 relative (same argument, one model evaluation per sample).
"""
import random

import numpy as np

from vmon import lib_c06 as L
from vmon import refmodel as R
from vmon import taps

PROPERTY = 'C09'
RULE = ('designed sample sets: N in {1,2,3,10,200} and random sizes, D = 1..5 fitted parameters with linear/log default or '
        'user priors, weights equal / one dominant / many exact zeros / tied / descending / random (normalised or not), '
        'sample values distinct or tied, log-likelihoods ranked with or against the weights, derived selections {}, {mu}, '
        '{mu, logg, avg_T}; handed through all three wrappers (MultiNest multimodal off / on with 1 or 2 modes of equal or '
        'different length, PolyChord clustering on with 1 or 2 clusters / off); distinct = distinct (sampler, layout, N, D, '
        'weight kind, tie kind, derived selection, world) tuples')
ASSUMPTIONS = [
    'file formats written by the doubles (documented in vmon/doubles/pymultinest/__init__.py and pypolychord/__init__.py) '
    'are the real on-disk formats: MultiNest <base>.txt rows "weight -2logL params" in E28.18 fields; <base>stats.dat with '
    'the evidence line(s), "Total Modes Found", per mode "Mode k" / "Strictly Local Log-Evidence" / "Local Log-Evidence" / '
    '"Dim No. Mean Sigma" / "Maximum Likelihood Parameters" / "MAP Parameters" tables, modes separated by two blank '
    'lines (and without the mode header when multimodal is off); <base>post_separate.dat with two blank lines before each '
    'mode; PolyChord <root>.txt rows "weight -2logL params derived", clusters/<root>_k.txt likewise, <root>.stats with '
    'the global evidence on line 9 and local evidences from line 15',
    'MultiNest\'s "MAP Parameters" are the parameters of the sample of greatest posterior weight and its Mean the weighted '
    'mean of the mode\'s samples (the double computes them so)',
    'the PolyChord wrapper takes its MAP from the sample of greatest likelihood of the cluster file; the statement\'s '
    '"sample of greatest weight" is judged for PolyChord on sample sets where the two coincide, otherwise counted',
    'when the greatest weight is shared by several samples any of them is accepted as the MAP (as a whole vector)',
    'with tied sample values the reported quantile must lie in the bracket [max{x: F+(x) < q}, max{x: F-(x) <= q}]',
    'single-rank run (the derived-trace re-ordering across MPI ranks is C18)',
]
_Q = {'posterior': 62, 'reuse': 8}
_T = {'posterior': 650, 'reuse': 60}
BUDGET = {
    'quick': [dict(name='boundscheck', env={'NUMBA_BOUNDSCHECK': '1'}, shards=6, cases=_Q)],
    'thorough': [dict(name='boundscheck', env={'NUMBA_BOUNDSCHECK': '1'}, shards=16, cases=_T)],
}
REQUIRED = dict(
    monitors=['fit-returns-a-solution', 'solutions-reported', 'traces-bit-identical', 'weights-bit-identical',
              'get_samples/get_weights', 'quantile-value', 'quantile-sigma_m', 'quantile-sigma_p', 'map-is-greatest-weight',
              'get_solution-yields-map-and-median',
              'mean-is-weighted-mean', 'spectrum-at-map:native', 'spectrum-at-map:binned', 'profiles-at-median',
              'derived-trace-per-sample-in-order', 'derived-summaries'],
    classes=['width-kind:3', 'reuse:set_observed', 'reuse:fit-2', 'sampler:nestle', 'sampler:multinest', 'sampler:polychord', 'judged:nestle', 'judged:multinest',
             'judged:polychord', 'judged:polychord:cluster-1', 'judged:polychord:cluster-2-equal',
             'judged:multinest:multimodal-off', 'judged:multinest:multimodal-1-mode',
             'judged:multinest:multimodal-2-modes-equal', 'multinest:multimodal-off',
             'multinest:multimodal-1-mode', 'multinest:multimodal-2-modes-equal', 'multinest:multimodal-2-modes-ragged',
             'polychord:cluster-1', 'polychord:cluster-2-equal', 'polychord:cluster-off',
             'N:1', 'N:2', 'N:3', 'N:10', 'N:200', 'N:thousands', 'weights:equal', 'weights:dominant', 'weights:zeros', 'weights:ties',
             'weights:descending', 'weights:runner-up-a-hair-lighter', 'values:distinct', 'values:tied', 'derived:none', 'derived:mu', 'derived:mu,logg,avg_T',
             'D:1', 'D:5', 'quantile:exact', 'quantile:bracket'])
SAMPLERS = ['nestle', 'multinest', 'polychord']
_rec = {}


def classify(f):
    """Known mechanisms, each recognised from its necessary conditions: the designed layout handed to the wrapper, the
    exception type and the wrapper function it left from (never from sample values)."""
    feat = f.get('features', {})
    w = f.get('witness', {})
    if f.get('monitor') != 'fit-returns-a-solution':
        return None
    exc, msg, frames = w.get('exception'), str(w.get('message', '')), w.get('frames') or []
    sampler, layout = feat.get('sampler'), feat.get('layout')
    in_store = frames and frames[-1] in ('store_nest_solutions', 'store_polychord_solutions', 'get_poly_stats')
    if sampler == 'multinest' and layout == 'multimodal-2-modes-ragged' and exc == 'ValueError' \
            and frames[-1:] == ['store_nest_solutions'] and 'inhomogeneous' in msg:
        return 'C09/multinest-ragged-modes'
    if sampler == 'polychord' and layout == 'cluster-2-ragged' and exc == 'ValueError' \
            and frames[-1:] == ['store_polychord_solutions'] and 'inhomogeneous' in msg:
        return 'C09/polychord-ragged-clusters'
    if sampler == 'polychord' and layout == 'cluster-off' and exc == 'KeyError' and 'maximum a posterior' in msg \
            and frames[-1:] == ['store_polychord_solutions']:
        return 'C09/polychord-nocluster-no-map'
    if sampler in ('multinest', 'polychord') and feat.get('min_rows_in_a_file') == 1 and exc == 'IndexError' \
            and 'too many indices' in msg and in_store:
        return 'C09/single-row-file-read-as-1d'
    if sampler == 'polychord' and layout in ('cluster-1', 'cluster-2-equal') and exc == 'ValueError' \
            and 'generate_solution' in frames and any(len(s) == 2 for s in (w.get('map_shapes') or [])):
        # the wrapper reported every MAP value as a (1, k) array and post-processing at the MAP raised on it
        return 'C09/polychord-map-is-2d-array'
    if exc == 'TypeError' and frames[-3:] == ['compute_error', 'parallelVariance', 'combine_variance'] \
            and any(z >= k >= 1 for z, k in zip(feat.get('zero_weights_per_group') or [], feat.get('subsample_per_group') or [])):
        # the random sigma_fraction sub-sample can consist of zero-weight samples only: their weights (w + 1e-300)
        # underflow in OnlineVariance.combine_variance (counts*size/sum(counts)) and no variance is accumulated
        return 'C09/zero-weight-subsample-underflow'
    return None


def setup(ctx):
    _rec['R'] = L.use_doubles()
    L.install_nestle_tap()
    import taurex.optimizer.polychord  # noqa: F401


def teardown(ctx):
    taps.untap_all()
    L.remove_nestle_tap()
    L.drop_doubles()


# ----------------------------------------------------------------- designs
def draw_weights(rng, n, kind):
    if kind == 'equal':
        w = np.full(n, 1.0 / n)
    elif kind == 'dominant':
        w = rng.uniform(0.0, 1.0, n)
        w = 0.1 * w / max(w.sum(), 1e-300)
        w[rng.integers(0, n)] = 0.9
    elif kind == 'zeros':
        w = rng.uniform(0.0, 1.0, n)
        z = rng.random(n) < 0.6
        w[z] = 0.0
        if not np.any(w > 0):
            w[rng.integers(0, n)] = 0.5
    elif kind == 'ties':
        w = rng.choice([0.5, 1.0, 2.0], n)
    elif kind == 'descending':
        w = np.sort(rng.uniform(0.0, 1.0, n))[::-1].copy() if rng.random() < 0.5 else 0.7 ** np.arange(n)
    elif kind == 'runner-up-a-hair-lighter' and n >= 2:
        # a long run: the second-heaviest sample is lighter than the heaviest by a few parts per billion (NOT a tie)
        w = rng.uniform(0.0, 1.0, n) ** 3
        i = int(np.argmax(w))
        j = int(rng.choice([k for k in range(n) if k != i]))
        w[j] = w[i] * (1.0 - 10 ** rng.uniform(-9, -6))
    else:
        w = rng.uniform(0.0, 1.0, n) ** 3
    if kind != 'ties' and rng.random() < 0.7:
        w = w / w.sum()
    return np.asarray(w, dtype=float)


def draw_samples(rng, decls, n, tied):
    cols = []
    for d in decls:
        if d['family'] == 'uniform':
            p0, p1 = d['p']
            gen = lambda k, p0=p0, p1=p1: p0 + (p1 - p0) * rng.uniform(0.0, 1.0, k)
        else:
            mid, std = d['p']
            gen = lambda k, mid=mid, std=std: mid + std * np.clip(rng.normal(0, 1, k), -2.3, 2.3)
        if tied and n > 1:
            levels = gen(max(1, n // 3))
            cols.append(levels[rng.integers(0, len(levels), n)])
        else:
            cols.append(gen(n))
    return np.stack(cols, axis=1)


# ------------------------------------------------------------- references
def q_exact(x, w, q):
    order = np.argsort(x, kind='stable')
    xs, ws = x[order], w[order]
    cdf = np.cumsum(ws)
    cdf = cdf / cdf[-1]
    return float(np.interp(q, cdf, xs))


def q_bracket(x, w, q):
    W = float(np.sum(w))
    vals = np.unique(x)
    Fp = np.array([np.sum(w[x <= v]) for v in vals]) / W
    Fm = np.array([np.sum(w[x < v]) for v in vals]) / W
    lo = vals[Fp < q - 1e-12]
    hi = vals[Fm <= q + 1e-12]
    lo_v, hi_v = (float(lo.max()) if lo.size else float(vals.min())), float(hi.max())
    # inside a group of tied samples the documented rule (linear interpolation of the cumulative weights over the sorted
    # samples) leaves only the ORDER of the tied samples open: the cumulative weight reaches the group's value v after the
    # first tied sample, whose weight is at most the largest weight in the group -- so the quantile is at least
    # u + (v - u) * (q - F(<v)) / wmax(v), and exactly v beyond that
    k = int(np.searchsorted(vals, hi_v))
    if lo.size and k < len(vals) and vals[k] == hi_v and Fm[k] < q - 1e-12 and Fp[k] > q + 1e-12 and k >= 1 and vals[k - 1] == lo_v:
        wmax = float(np.max(w[x == hi_v])) / W
        if wmax > 0:
            lo_v = lo_v + (hi_v - lo_v) * min(1.0, (q - Fm[k]) / wmax) * (1.0 - 1e-12)
    return lo_v, hi_v


def judge_quantiles(ctx, x, w, got, what, base):
    """got = dict(value, sigma_m, sigma_p); returns the median used downstream."""
    scale = float(np.max(np.abs(x))) if x.size else 1.0
    distinct = len(np.unique(x)) == len(x)
    if distinct:
        ctx.observe('quantile:exact')
        q16, q50, q84 = (q_exact(x, w, q) for q in (0.16, 0.5, 0.84))
        ctx.close('quantile-value', got['value'], q50, 1e-12, atol=1e-12 * scale, what=what, **base)
        ctx.close('quantile-sigma_m', got['sigma_m'], q50 - q16, 1e-12, atol=4e-12 * scale, what=what, **base)
        ctx.close('quantile-sigma_p', got['sigma_p'], q84 - q50, 1e-12, atol=4e-12 * scale, what=what, **base)
        return q50
    ctx.observe('quantile:bracket')
    b16, b50, b84 = (q_bracket(x, w, q) for q in (0.16, 0.5, 0.84))
    t = 1e-12 * scale
    v = float(got['value'])
    ctx.check('quantile-value', b50[0] - t <= v <= b50[1] + t, got=v, bracket=b50, what=what, **base)
    sm, sp = float(got['sigma_m']), float(got['sigma_p'])
    ctx.check('quantile-sigma_m', b50[0] - b16[1] - 4 * t <= sm <= b50[1] - b16[0] + 4 * t and sm >= -4 * t, got=sm,
              b50=b50, b16=b16, what=what, **base)
    ctx.check('quantile-sigma_p', b84[0] - b50[1] - 4 * t <= sp <= b84[1] - b50[0] + 4 * t and sp >= -4 * t, got=sp,
              b84=b84, b50=b50, what=what, **base)
    return v if b50[0] - t <= v <= b50[1] + t else None


def same_array(a, b):
    a, b = np.asarray(a), np.asarray(b)
    return a.shape == b.shape and np.array_equal(a, b)


# --------------------------------------------------------------- workload
LAYOUTS = {
    'nestle': ['single'],
    'multinest': ['multimodal-off', 'multimodal-1-mode', 'multimodal-2-modes-equal', 'multimodal-2-modes-ragged'],
    'polychord': ['cluster-1', 'cluster-2-equal', 'cluster-2-ragged', 'cluster-off'],
}


def wl_posterior(ctx, rng, rounds=1):
    from taurex import OutputSize
    idx = ctx.case['index'] + ctx.shard
    sampler = SAMPLERS[idx % 3]
    lay = LAYOUTS[sampler]
    layout_kind = lay[(idx // 3) % len(lay)]
    tag = 'post%d' % ctx.case['index']
    random.seed(int(rng.integers(0, 2 ** 31)))          # sample_parameters draws from the global random module
    ndim = [1, 5, None, None][ctx.case['index'] % 4]
    # ---- world, observation, optimizer
    spec = L.draw_world(rng)
    L.install(spec)
    model = L.build(spec)
    cat = L.catalogue(spec, model)
    names = [str(n) for n in rng.permutation(list(cat))]
    chosen = names[:min(int(ndim or rng.integers(1, 6)), len(names))]
    order = [n for n in model.fittingParameters if n in chosen]
    decls = [L.declare_prior(rng, n, cat[n], False) for n in order]
    D = len(decls)
    opt = None
    for rnd in range(rounds):
        wn = next(iter(spec['tables'].values()))['wn']
        layout = L.draw_obs_layout(rng, wn, kmax=20)
        if layout is None:
            ctx.event('domain-skip:no-layout-with-width-condition')
            return
        ctx.observe('width-kind:%d' % layout['width_kind'])
        truth = L.shadow_eval(spec, [])
        if 'rejected' in truth or not np.all(np.isfinite(truth['depth'])):
            ctx.event('domain-skip:truth-not-a-valid-atmosphere')
            return
        mt, _ = L.bin_ref(truth['wn'], truth['depth'], layout['c'], layout['w'])
        K = layout['K']
        sigma = float(np.mean(mt)) * 10 ** rng.uniform(-3.5, -2.0) * rng.uniform(0.5, 2.0, K)
        y = mt + sigma * rng.normal(0, 1, K)
        obs, _ = L.make_observation(rng, layout, y, sigma, shuffle=bool(rng.random() < 0.5))
        # the stored binned spectrum is row by row the observation's: bins in the observation's own row order (two bins
        # that share a centre may come in either order)
        layout = dict(layout, obs_c=np.array(obs.wavenumberGrid, dtype=float), obs_w=np.array(obs.binWidths, dtype=float))
        if layout.get('tied_centres'):
            ctx.observe('bins:two-share-a-centre')
        # ---- the designed sample set
        N = int([1, 2, 3, 10, 200, 0, 0][ctx.case['index'] % 7] or rng.integers(4, 60))
        long_chain = ctx.case['index'] % 31 == 17
        if long_chain:
            # a chain of the length real runs have (thousands of samples; never a round number)
            N = (int(rng.integers(2100, 3300)) if ctx.tier == 'quick' else int(rng.integers(4000, 20000))) | 1
            ctx.observe('N:thousands')
        two = layout_kind in ('multimodal-2-modes-equal', 'multimodal-2-modes-ragged', 'cluster-2-equal', 'cluster-2-ragged')
        if two and N < 2:
            N = 2
        if layout_kind.endswith('equal') and N % 2:
            N += 1
        if layout_kind.endswith('ragged') and N < 3:
            N = 3
        wkind = ['equal', 'dominant', 'zeros', 'ties', 'descending', 'random', 'runner-up-a-hair-lighter'][int(rng.integers(0, 7))]
        tied = bool(rng.random() < 0.3)
        x = draw_samples(rng, decls, N, tied)
        w = draw_weights(rng, N, wkind)
        ll = -0.5 * rng.chisquare(max(D, 1), N) - 3.0
        if two:
            n1 = N // 2 if layout_kind.endswith('equal') else int(rng.choice([k for k in range(1, N) if k != N - k]))
            groups = [np.arange(0, n1), np.arange(n1, N)]
            for g in groups:                                   # every mode carries weight
                if not np.any(w[g] > 0):
                    w[g[0]] = 0.25 * (w.max() if w.max() > 0 else 1.0)
        else:
            groups = [np.arange(N)]
        agree = bool(rng.random() < 0.5)
        if sampler == 'polychord' and agree:
            for g in groups:                                   # greatest likelihood on the sample of greatest weight
                ll[g[int(np.argmax(w[g]))]] = ll[g].max() + 1.0
        design = {'samples': x, 'weights': w, 'loglike': ll, 'logz': float(rng.uniform(-50, -5)), 'logzerr': float(rng.uniform(0.01, 0.5))}
        design['modes' if sampler == 'multinest' else 'clusters'] = groups
        kw = {}
        if sampler == 'multinest':
            kw['search_multi_modes'] = layout_kind != 'multimodal-off'
        if sampler == 'polychord':
            kw['cluster'] = layout_kind != 'cluster-off'
        kw['sigma_fraction'] = float(rng.choice([0.1, 0.5, 1.0]))
        dsel = [[], ['mu'], ['mu', 'logg', 'avg_T']][int(rng.integers(0, 3))]
        if long_chain:
            kw['sigma_fraction'] = 24.5 / N          # (two dozen forward models for the profile spreads, not thousands)
            dsel = [['mu'], ['mu', 'logg', 'avg_T']][int(rng.integers(0, 2))]
        if opt is None:
            opt = L.make_optimizer(sampler, obs, model, ctx.scratch, tag, **kw)
            L.disable_default_fits(opt, model, obs)
            for d in decls:
                L.apply_prior(opt, d)
            kw0 = dict(kw)
        else:
            # the SAME optimizer object is pointed to another observation (other bins, other error bars) and fitted
            # again, as a script looping over observations does; sampler options stay those of the first fit
            kw = dict(kw0)
            opt.set_observed(obs)
            ctx.observe('reuse:set_observed', 'reuse:fit-%d' % (rnd + 1))
        for n in list(model.derivedParameters):
            (opt.enable_derived if n in dsel else opt.disable_derived)(n)
        Rr = _rec['R']
        Rr.reset()
        Rr.script = [{'u': [0.5] * D}]
        Rr.design = design
        distinct_cols = all(len(np.unique(x[:, j])) == N for j in range(D))
        ctx.observe('sampler:' + sampler, '%s:%s' % (sampler, layout_kind), 'N:%d' % N, 'D:%d' % D, 'weights:' + wkind,
                    'values:distinct' if distinct_cols else 'values:tied', 'derived:' + (','.join(dsel) or 'none'))
        ctx.feature(sampler=sampler, layout=layout_kind, N=N, D=D, weights=wkind, tied=tied, derived=dsel,
                    names=[d['name'] for d in decls], priors=[d['kind'] for d in decls],
                    min_rows_in_a_file=int(min(len(g) for g in groups)), group_sizes=[len(g) for g in groups],
                    zero_weights_per_group=[int(np.sum(w[g] == 0)) for g in groups],
                    subsample_per_group=[int(len(g) * kw['sigma_fraction']) for g in groups])
        size = [OutputSize.heavy, OutputSize.light, OutputSize.lighter][int(rng.integers(0, 3))]
        try:
            sol = opt.fit(output_size=size)
        except Exception as e:                                 # decided by the classifier from the designed layout
            import traceback
            frames = [fr.name for fr in traceback.extract_tb(e.__traceback__) if '/taurex/' in fr.filename]
            try:
                shapes = [list(np.shape(v)) for v in next(iter(opt.get_solution()))[1]]
            except Exception:
                shapes = None
            ctx.check('fit-returns-a-solution', False, exception=type(e).__name__, message=str(e)[:300], frames=frames[-8:],
                      map_shapes=shapes)
            ctx.sig('raised', sampler, layout_kind, N, D, wkind, type(e).__name__)
            return
        finally:
            import taurex.log
            taurex.log.disableLogging()
        ctx.check('fit-returns-a-solution', True)
        if sampler == 'multinest' and layout_kind == 'multimodal-off':
            groups = [np.arange(N)]
        if sampler == 'polychord' and layout_kind == 'cluster-off':
            groups = [np.arange(N)]
        keys = sorted(k for k in sol if k.startswith('solution'))
        ok = ctx.check('solutions-reported', keys == ['solution%d' % k for k in range(len(groups))], got=keys, want=len(groups))
        if not ok:
            return
        fit_names = [('log_' + d['name']) if d['space'] == 'log' else d['name'] for d in decls]
        ctx.observe('judged:' + sampler, 'judged:%s:%s' % (sampler, layout_kind))
        # get_solution() yields (index, MAP vector, median vector, extras) -- the vectors post-processing is run at
        reported = {}
        for sidx, vmap, vmed, _extra in opt.get_solution():
            reported[int(sidx)] = (np.array([np.ravel(v)[0] for v in vmap], dtype=float),
                                   np.array([np.ravel(v)[0] for v in vmed], dtype=float))
        map_key = 'map' if sampler == 'nestle' else 'nest_map'
        for k in range(len(groups)):
            fpk = sol['solution%d' % k]['fit_params']
            ok = k in reported and list(fpk) == fit_names
            if ok:
                ok = np.array_equal(reported[k][0], np.array([np.ravel(fpk[n][map_key])[0] for n in fit_names], dtype=float)) and \
                    np.array_equal(reported[k][1], np.array([np.ravel(fpk[n]['value'])[0] for n in fit_names], dtype=float))
            ctx.check('get_solution-yields-map-and-median', ok, solution=k, sampler=sampler, layout=layout_kind)
        for k, g in enumerate(groups):
            judge_solution(ctx, opt, sol['solution%d' % k], k, x[g], w[g], ll[g], decls, fit_names, spec, layout, dsel, sampler,
                           dict(sampler=sampler, layout=layout_kind, solution=k, N=len(g), weights=wkind))
        ctx.sig(sampler, layout_kind, N, D, wkind, tied, tuple(dsel), tuple(fit_names), spec['nlayers'], round(spec['planet_mass'], 6))
        s0 = sol['solution0']['fit_params']
        ctx.sample({'sampler': sampler, 'layout': layout_kind, 'N': N, 'weights': wkind, 'tied_values': tied, 'derived': dsel,
                    'fit_params': {n: {q: float(np.ravel(s0[n][q])[0]) for q in ('value', 'sigma_m', 'sigma_p')} for n in fit_names}})


def wl_reuse(ctx, rng):
    wl_posterior(ctx, rng, rounds=int(rng.integers(2, 4)))


def judge_solution(ctx, opt, sol, k, x, w, ll, decls, fit_names, spec, layout, dsel, sampler, base):
    N, D = x.shape
    # ---- (a) stored traces and weights are the sampler's, unchanged
    ctx.check('traces-bit-identical', same_array(sol['tracedata'], x), got_shape=list(np.shape(sol['tracedata'])),
              want_shape=[N, D], **base)
    ctx.check('weights-bit-identical', same_array(sol['weights'], w), got_shape=list(np.shape(sol['weights'])), want_n=N, **base)
    ctx.check('get_samples/get_weights', same_array(opt.get_samples(k), x) and same_array(opt.get_weights(k), w), **base)
    fp = sol['fit_params']
    ok = ctx.check('fit-params-named-in-order', list(fp) == fit_names, got=list(fp), want=fit_names, **base)
    if not ok:
        return
    imax = np.flatnonzero(w == w.max())
    map_key = 'map' if sampler == 'nestle' else 'nest_map'
    mean_key = 'nest_mean' if sampler == 'polychord' else 'mean'
    medians, got_map = [], []
    mean_ref, _ = R.weighted_mean_var(x, w)
    for j, name in enumerate(fit_names):
        p = fp[name]
        b = dict(base, param=name)
        ctx.check('traces-bit-identical', same_array(p['trace'], x[:, j]), what='fit_params trace', **b)
        medians.append(judge_quantiles(ctx, x[:, j], w, p, name, b))
        scale = float(np.max(np.abs(x[:, j])))
        ctx.close('mean-is-weighted-mean', np.ravel(p[mean_key])[0] if np.size(p[mean_key]) == 1 else p[mean_key], mean_ref[j],
                  1e-12, atol=1e-12 * scale, key=mean_key, **b)
        got_map.append(p[map_key])
    # ---- (c) MAP: a stored sample, the one of greatest weight, taken as a whole vector
    gm = np.array([np.ravel(v)[0] if np.size(v) == 1 else np.nan for v in got_map], dtype=float)
    shapes = [list(np.shape(v)) for v in got_map]
    ml = int(np.argmax(ll))
    judge_map = True
    if sampler == 'polychord' and ml not in imax:
        ctx.event('observed-only:polychord-map-is-max-likelihood-sample-not-max-weight')
        ctx.observe('polychord:maxlike!=maxweight')
        judge_map = False
    if judge_map:
        hit = [int(i) for i in imax if np.array_equal(gm, x[i])]
        ctx.check('map-is-greatest-weight', bool(hit), got=gm, want=x[imax[0]], n_tied_max=len(imax), shapes=shapes,
                  max_likelihood_sample=x[ml], **base)
        map_theta = x[hit[0]] if hit else x[imax[0]]
        if len(imax) > 1:
            ctx.observe('map:tied-greatest-weight')
    else:
        map_theta = x[ml]
    if not all(s in ([], [1]) for s in shapes):
        ctx.observe('map-shape:not-scalar')
    # ---- (e) spectrum at the MAP
    sh = L.shadow_eval(spec, [(d['name'], L.to_value(d, t)) for d, t in zip(decls, map_theta)])
    if 'rejected' in sh:
        ctx.check('shadow-accepts-designed-sample', False, which='map', **base)
    else:
        S = sol['Spectra']
        ctx.close('spectrum-at-map:native', S['native_wngrid'], sh['wn'], 0.0, what='grid', **base)
        if np.shape(S['native_spectrum']) == sh['depth'].shape and np.all(np.isfinite(sh['depth'])):
            ctx.close('spectrum-at-map:native', S['native_spectrum'], sh['depth'], 1e-9, **base)
            mb, tot = L.bin_ref(sh['wn'], sh['depth'], layout.get('obs_c', layout['c']), layout.get('obs_w', layout['w']))
            ctx.close('spectrum-at-map:binned', S['binned_spectrum'], mb, 1e-9, **base)
        elif not np.all(np.isfinite(sh['depth'])):
            ctx.event('domain-skip:shadow-spectrum-not-finite')
        else:
            ctx.check('spectrum-at-map:native', False, got_shape=list(np.shape(S['native_spectrum'])), **base)
    # ---- (f) profiles at the median
    if all(m is not None for m in medians):
        shm = L.shadow_eval(spec, [(d['name'], L.to_value(d, t)) for d, t in zip(decls, medians)])
        if 'rejected' in shm:
            ctx.check('shadow-accepts-designed-sample', False, which='median', **base)
        else:
            m = shm['model']
            P = sol['Profiles']
            ref = {'temp_profile': m.temperatureProfile, 'active_mix_profile': m.chemistry.activeGasMixProfile,
                   'inactive_mix_profile': m.chemistry.inactiveGasMixProfile, 'density_profile': m.densityProfile,
                   'altitude_profile': m.altitudeProfile, 'pressure_profile': m.pressureProfile,
                   'scaleheight_profile': m.scaleheight_profile, 'gravity_profile': m.gravity_profile,
                   'mu_profile': m.chemistry.muProfile}
            for key, want in ref.items():
                if key not in P:
                    ctx.check('profiles-at-median', False, missing=key, **base)
                    continue
                want = np.asarray(want, dtype=float)
                if np.all(np.isfinite(want)):
                    ctx.close('profiles-at-median', P[key], want, 1e-9, atol=1e-300, profile=key, **base)
    else:
        ctx.event('profiles-not-judged:median-outside-bracket')
    # ---- (g) derived traces
    if dsel:
        dp = sol.get('derived_params')
        if not ctx.check('derived-trace-per-sample-in-order', isinstance(dp, dict) and
                         sorted(dp) == sorted(n + '_derived' for n in dsel), got=sorted(dp) if isinstance(dp, dict) else None,
                         want=dsel, **base):
            return
        m = L.build(spec)
        ref = {n: [] for n in dsel}
        for row in x:
            for d, t in zip(decls, row):
                m[d['name']] = L.to_value(d, t)
            m.initialize_profiles()
            for n in dsel:
                ref[n].append(float(m.derivedParameters[n][2]()))
        for n in dsel:
            got = dp[n + '_derived']
            tr = np.asarray(ref[n], dtype=float)
            b = dict(base, derived=n)
            if np.shape(got['trace']) != tr.shape:
                ctx.check('derived-trace-per-sample-in-order', False, got_len=list(np.shape(got['trace'])), want_len=N, **b)
                continue
            ctx.close('derived-trace-per-sample-in-order', got['trace'], tr, 1e-10, atol=1e-300, **b)
            # summaries by the same rule, over the reference trace
            gt = np.asarray(got['trace'], dtype=float)
            judge_derived_summary(ctx, gt, tr, w, got, b)
    elif 'derived_params' in sol and sol['derived_params']:
        ctx.check('derived-trace-per-sample-in-order', False, unexpected=list(sol['derived_params']), **base)


def judge_derived_summary(ctx, gt, tr, w, got, b):
    """The derived trace is a computed quantity (1e-10): summaries are judged on the reported trace itself (so that
    only the quantile rule is in question), exactly when its values are distinct, by bracket when they tie."""
    scale = float(np.max(np.abs(gt))) if gt.size else 1.0
    if len(np.unique(gt)) == len(gt):
        q16, q50, q84 = (q_exact(gt, w, q) for q in (0.16, 0.5, 0.84))
        ctx.close('derived-summaries', got['value'], q50, 1e-12, atol=1e-12 * scale, what='value', **b)
        ctx.close('derived-summaries', got['sigma_m'], q50 - q16, 1e-12, atol=4e-12 * scale, what='sigma_m', **b)
        ctx.close('derived-summaries', got['sigma_p'], q84 - q50, 1e-12, atol=4e-12 * scale, what='sigma_p', **b)
    else:
        b16, b50, b84 = (q_bracket(gt, w, q) for q in (0.16, 0.5, 0.84))
        t = 1e-12 * scale
        v, sm, sp = float(got['value']), float(got['sigma_m']), float(got['sigma_p'])
        ctx.check('derived-summaries', b50[0] - t <= v <= b50[1] + t, got=v, bracket=b50, what='value', **b)
        ctx.check('derived-summaries', b50[0] - b16[1] - 4 * t <= sm <= b50[1] - b16[0] + 4 * t, got=sm, what='sigma_m', **b)
        ctx.check('derived-summaries', b84[0] - b50[1] - 4 * t <= sp <= b84[1] - b50[0] + 4 * t, got=sp, what='sigma_p', **b)
    mean_ref, _ = R.weighted_mean_var(gt, w)
    ctx.close('derived-summaries', got['mean'], mean_ref, 1e-12, atol=1e-12 * scale, what='mean', **b)


WORKLOADS = {'posterior': wl_posterior, 'reuse': wl_reuse}

LEVEL_TEXT = ('Exploration by runtime monitoring of designed posteriors: sample sets with chosen sizes, weight patterns '
              '(equal, dominant, exact zeros, ties, descending), tied or distinct values and mode / cluster layouts are handed to '
              'the unmodified nestle, MultiNest and PolyChord wrappers through recording doubles that write the samplers\' real '
              'output files (or return a nestle.Result); optimizer.fit() parses, summarises and post-processes them. Each reported '
              'solution is decided against the design: traces and weights bit-identical; 16/50/84 % weighted quantiles exact '
              '(distinct values) or within the tie bracket; MAP = sample of greatest weight; mean = weighted mean; stored spectrum '
              '= freshly built shadow model at the MAP (native, and binned by an independent overlap mean, 1e-9); profiles = '
              'shadow at the median; derived traces = shadow per sample, in sample order, with the same summaries.')
LEVEL_NOTE = ('Trusted: the doubles\' file formats (written from the wrappers\' parsers and the libraries\' documented output; '
              'stated in the evidence), refmodel.weighted_mean_var, the quantile reference. Layouts on which the unchanged '
              'wrappers raise are recognised as known findings from the designed layout and the exception.')
TECHNIQUE = ('designed sample sets through recording sampler doubles (real on-disk formats) + reference weighted statistics + '
             'freshly built shadow model at MAP / median / per sample')
