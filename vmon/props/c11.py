"""C11 -- vertical structure is hydrostatic, ordered and one value per layer.

Monitors (icontract postconditions attached to the real classes, vmon/lib_c11.py)
  * SimplePressureProfile.compute_pressure_profile: levels strictly decreasing, log-spaced between the
    declared bounds, layer pressure = geometric mean of its two levels.
  * Array/FilePressureProfile.compute_pressure_profile: one layer per entry, profile = the given array.
  * Planet.calculate_scale_properties (every call, also those a model makes): z0 = 0, strictly increasing,
    dz = H ln(P_lower/P_upper), H = kT/(mu g), g = GM/(R+z)^2, against vmon.refmodel.hydrostatic and as
    relations on the returned numbers; lengths n+1 / n / n / n.
  * SimpleForwardModel.initialize_profiles: every exposed per-layer array has nLayers entries, density =
    P/(kT), altitude/thickness/scale height/gravity equal the reference recursion for the model's own
    levels, temperature and molecular weight.
  * generate_profile_dict / SimpleForwardModel.generate_profiles: every stored profile has nLayers entries.
Workloads additionally store the profiles (recording output group and real HDF5 files read back with
h5py) and check alignment by perturbing one layer (temperature, abundance, pressure) and looking at which
index of every exposed/stored array moves.
Only gravitationally bound atmospheres (finite altitudes, top below 2 planetary radii) are judged.
"""
import os

import numpy as np

from vmon import lib_c11 as L
from vmon import world

PROPERTY = 'C11'
RULE = ('planets 0.05..10 M_J, 0.1..2 R_J; layer counts 1..100 (and 200 for the bare grid); standard grids over 1e-3..14 decades, '
        'array and file pressure profiles (log-uniform and jittered, either order with reverse); temperature one value per layer, '
        'isothermal, N-point or Guillot; molecular weight varying per layer through a per-layer heavy-gas abundance; direct calls '
        'of calculate_scale_properties with arbitrary strictly decreasing levels; one-layer perturbations of temperature, abundance '
        'and pressure; non-trivial = a bound atmosphere was built and judged; distinct = distinct (planet, grid, nlayers, profiles) tuples')
ASSUMPTIONS = [
    'atmospheres whose reference altitude is not finite or exceeds 2 planetary radii are re-drawn (not gravitationally bound)',
    'array/file pressure profiles need at least two entries (the level spacing of a single pressure is undefined); the hydrostatic '
    'relations are judged only when the derived levels are strictly decreasing, lengths and alignment always',
    'grids whose levels are closer than 1e-9 decades are counted, not judged',
    'temperature and molecular weight per layer are inputs here (decided by C12 / C10)',
]
_Q = {'grid': 200, 'scale': 200, 'model': 75, 'align': 45, 'shared': 20}
_T = {'grid': 2500, 'scale': 2500, 'model': 800, 'align': 450, 'shared': 200}
BUDGET = {
    'quick': [dict(name='main', env={}, shards=8, cases=_Q)],
    'thorough': [dict(name='main', env={}, shards=16, cases=_T)],
}
_HYDRO = ['lengths', 'altitude-starts-at-zero-and-increases', 'altitude', 'thickness', 'scale-height', 'gravity',
          'g-inverse-square', 'H=kT/(mu g)', 'dz=H ln(P_lower/P_upper)', 'z=cumsum(dz)']
REQUIRED = dict(
    monitors=['contract:grid.lengths', 'contract:grid.levels-strictly-decreasing', 'contract:grid.levels-log-spaced',
              'contract:grid.layer-is-geometric-mean', 'contract:array-grid.lengths',
              'contract:array-grid.profile-is-the-given-array', 'contract:model.inputs-one-per-layer',
              'contract:model.exposed-one-per-layer', 'contract:model.mix-one-per-layer', 'contract:model.density=P/(kT)',
              'contract:model.altitude-profile-is-lower-boundary', 'contract:generate_profile_dict.one-per-layer',
              'contract:generate_profiles.one-per-layer', 'contract:generate_profiles.mix-one-per-layer',
              'stored-one-per-layer', 'stored-equals-exposed', 'hdf5-one-per-layer', 'aligned:temperature', 'aligned:abundance',
              'aligned:pressure', 'contract-fired']
    + ['contract:scale.' + k for k in _HYDRO] + ['contract:model.' + k for k in _HYDRO],
    classes=['shared-planet:models-of-different-layer-counts', 'history:a-grid-computed-over-a-hundred-grids-ago-again', 'pressure:simple', 'pressure:array', 'pressure:file', 'nlayers:1', 'nlayers:2', 'nlayers:100', 'T:layers',
             'T:isothermal', 'T:npoint', 'T:guillot', 'units:km', 'atmosphere:extended-beyond-two-radii', 'planet-given-in:Rearth', 'planet-given-in:Mearth', 'planet-given-in:km', 'scale:irregular-levels', 'stored:hdf5', 'stored:recorded',
             'perturb:temperature', 'perturb:abundance', 'perturb:pressure', 'perturb:top-layer', 'perturb:bottom-layer',
             'via-setter', 'pressure:array-with-unordered-derived-levels', 'T-dtype:i', 'T-dtype:f',
             'T:integer-valued-layers', 'shared-planet:earlier-model-rejudged', 'model:evaluated-then-rejudged',
             'path-method:new', 'path-method:old', 'moved-in-a-late-digit:planet_mass', 'moved-in-a-late-digit:T'])

AMU = L.R.AMU


def classify(f):
    return None


def setup(ctx):
    L.install(ctx)


# ------------------------------------------------------------------ generators
def gen_nlayers(rng, lo=1):
    k = rng.integers(0, 10)
    if k == 0:
        return max(lo, 1)
    if k == 1:
        return 2
    if k == 2:
        return 100
    if k == 3:
        return int(rng.choice([3, 4, 5, 7, 12, 13]))
    return int(rng.integers(lo, 101))


def gen_planet_args(rng):
    return float(10 ** rng.uniform(np.log10(0.05), 1.0)), float(rng.uniform(0.1, 2.0))


def smooth_T(rng, n):
    base = rng.uniform(150, 2500)
    return [float(v) for v in np.clip(base * (1 + 0.4 * np.sin(np.linspace(0, rng.uniform(1, 6), n) + rng.uniform(0, 6)))
                                      + rng.normal(0, 0.03 * base, n), 60, 3500)]


def gen_spec(rng, pkinds=('simple', 'simple', 'array', 'file'), tkinds=('layers', 'layers', 'isothermal', 'npoint', 'guillot'),
             nmin=1):
    pk = pkinds[rng.integers(0, len(pkinds))]
    n = gen_nlayers(rng, lo=max(nmin, 2 if pk != 'simple' else 1))
    pm, pr = gen_planet_args(rng)
    lpmax = rng.uniform(3.0, 8.0)
    dec = rng.uniform(1.0, 12.0) if rng.random() < 0.85 else 10 ** rng.uniform(-3, 0)
    spec = dict(n=n, planet=(pm, pr), pkind=pk, pmax=float(10 ** lpmax), pmin=float(10 ** (lpmax - dec)))
    if pk != 'simple':
        lev = np.linspace(lpmax, lpmax - dec, n + 1)
        lp = 0.5 * (lev[:-1] + lev[1:])
        r = rng.random()
        if r < 0.5:
            lp = lp + rng.uniform(-0.2, 0.2, n) * (dec / n)       # jitter small enough to keep the derived levels ordered
        elif r < 0.65:
            # strongly irregular spacing: the levels the class derives (np.gradient) need not be ordered; such cases
            # are outside the hydrostatic clause ("for any decreasing levels") but inside "one entry per layer"
            lp = np.sort(rng.uniform(lpmax - dec, lpmax, n))[::-1].copy()
            for i in range(1, n):
                if lp[i] >= lp[i - 1] - 1e-6:
                    lp[i] = lp[i - 1] - 1e-6 - 1e-3 * rng.random()
        spec['parray'] = [float(v) for v in 10 ** lp]
        spec['reverse'] = bool(rng.random() < 0.4)
        spec['punits'] = str(rng.choice(['Pa', 'bar']))
    tk = tkinds[rng.integers(0, len(tkinds))]
    spec['tkind'] = tk
    if tk == 'layers':
        spec['T'] = smooth_T(rng, n)
        if rng.random() < 0.25:          # whole-number temperatures handed over as integers (a table typed by hand)
            spec['T'] = [int(round(v)) for v in spec['T']]
            spec['T_integer'] = True
    elif tk == 'isothermal':
        spec['T'] = float(rng.uniform(100, 3000))
    elif tk == 'npoint':
        spec['T'] = dict(T_surface=float(rng.uniform(300, 3000)), T_top=float(rng.uniform(100, 2000)),
                         smoothing_window=int(rng.integers(0, 50)))
    else:
        spec['T'] = dict(T_irr=float(rng.uniform(300, 2500)), kappa_irr=float(10 ** rng.uniform(-3, -1)),
                         kappa_v1=float(10 ** rng.uniform(-3, -1)), kappa_v2=float(10 ** rng.uniform(-3, -1)),
                         alpha=float(rng.uniform(0, 1)), T_int=float(rng.uniform(50, 400)))
    nf = int(rng.integers(1, 4))
    spec['fills'] = ['H2', 'He', 'Ne'][:nf]
    spec['ratios'] = [float(10 ** rng.uniform(-2, 0)) for _ in range(nf - 1)]
    heavy = str(rng.choice(['CO2', 'N2', 'CH4']))
    spec['heavy'] = heavy
    spec['heavy_x'] = [float(v) for v in np.clip(rng.uniform(0, 0.5) * (0.5 + 0.5 * np.sin(np.linspace(0, 5, n) + rng.uniform(0, 6)))
                                                 + 1e-6, 1e-8, 0.6)]
    spec['h2o'] = float(10 ** rng.uniform(-8, -2))
    spec['active'] = ['H2O'] + ([heavy] if rng.random() < 0.5 else [])
    spec['new_method'] = bool(rng.random() < 0.4)
    return spec


def build(ctx, spec, planet=None):
    from taurex.cache import OpacityCache
    from taurex.data import Planet
    from taurex.data.stellar import BlackbodyStar
    from taurex.data.profiles.pressure import SimplePressureProfile, ArrayPressureProfile, FilePressureProfile
    from taurex.data.profiles.temperature import Isothermal, NPoint, Guillot2010
    from taurex.data.profiles.temperature.temparray import TemperatureArray
    from taurex.data.profiles.chemistry import TaurexChemistry, ConstantGas
    from taurex.data.profiles.chemistry.gas.arraygas import ArrayGas
    from taurex.model import TransmissionModel
    world.reset_caches()
    Fake = world.fake_opacity_class()
    for m in spec['active']:
        OpacityCache().add_opacity(Fake(m, np.array([100.0, 200.0, 400.0]), np.array([50.0, 4000.0]), np.array([1e-3, 1e9]),
                                        np.full((2, 2, 3), 1e-25)))
    n = spec['n']
    planet = planet or Planet(planet_mass=spec['planet'][0], planet_radius=spec['planet'][1])
    if spec['pkind'] == 'simple':
        pressure = SimplePressureProfile(nlayers=n, atm_min_pressure=spec['pmin'], atm_max_pressure=spec['pmax'])
    else:
        arr = np.array(spec['parray'])
        given = arr[::-1].copy() if spec['reverse'] else arr
        if spec['pkind'] == 'array':
            pressure = ArrayPressureProfile(given, reverse=spec['reverse'])
        else:
            path = os.path.join(ctx.scratch, 'p_%d_%d.dat' % (ctx.case['index'], spec.setdefault('_fileno', 0)))
            spec['_fileno'] += 1
            col, ncol, skip = spec.setdefault('_col', 1), 3, spec.setdefault('_skip', 1)
            with open(path, 'w') as fh:
                for i in range(skip):
                    fh.write('pressure table line %d\n' % i)
                for v in given:
                    row = ['0.5'] * ncol
                    row[col] = '%.17g' % (v / L.PRESS_UNITS[spec['punits']])
                    fh.write(' '.join(row) + '\n')
            pressure = FilePressureProfile(filename=path, usecols=col, skiprows=skip, units=spec['punits'],
                                           reverse=spec['reverse'])
    tk = spec['tkind']
    if tk == 'layers':
        temperature = TemperatureArray(tp_array=np.array(spec['T']) if spec['n'] % 2 else list(spec['T']))
    elif tk == 'isothermal':
        temperature = Isothermal(T=spec['T'])
    elif tk == 'npoint':
        temperature = NPoint(**spec['T'])
    else:
        temperature = Guillot2010(**spec['T'])
    chem = TaurexChemistry(fill_gases=list(spec['fills']), ratio=list(spec['ratios']))
    chem.addGas(ConstantGas('H2O', mix_ratio=spec['h2o']))
    chem.addGas(ArrayGas(spec['heavy'], mix_ratio_array=np.array(spec['heavy_x'])))
    if spec['heavy'] != 'N2':
        chem.addGas(ConstantGas('N2', mix_ratio=1e-5))
    model = TransmissionModel(planet=planet, star=BlackbodyStar(temperature=5000.0, radius=1.0), pressure_profile=pressure,
                              temperature_profile=temperature, chemistry=chem,
                              new_path_method=bool(spec.get('new_method', False)))
    return model


def is_bound(model):
    z, dz, H, g, bound = L.reference(model.temperatureProfile, model.pressure.pressure_profile_levels,
                                     model.chemistry.muProfile, model.planet)
    return bound and L.hydro_domain(model.temperatureProfile, model.pressure.pressure_profile_levels,
                                    model.chemistry.muProfile) is None


def draw_bound_model(ctx, rng, allow_unordered=False, **kw):
    from taurex.exceptions import InvalidModelException
    for _ in range(60):
        spec = gen_spec(rng, **kw)
        try:
            m = build(ctx, spec)
            before = ctx.monitors['contract:model.inputs-one-per-layer']
            m.build()
        except InvalidModelException:
            ctx.event('redraw:invalid-temperature-nodes')
            continue
        if is_bound(m):
            ctx.check('contract-fired', ctx.monitors['contract:model.inputs-one-per-layer'] > before)
            return spec, m
        if allow_unordered and spec['pkind'] != 'simple' and L.hydro_domain(
                m.temperatureProfile, m.pressure.pressure_profile_levels, m.chemistry.muProfile) == 'levels-not-strictly-decreasing' \
                and np.all(np.isfinite(m.altitude_boundaries)):
            spec['unordered'] = True
            return spec, m
        ctx.event('domain-skip:atmosphere-not-bound-or-array-levels-not-decreasing')
    raise RuntimeError('generator could not draw a bound atmosphere')


# --------------------------------------------------------- exposed and stored
class RecordingGroup:
    """Output group double: records what store_profiles writes."""

    def __init__(self):
        self.arrays = {}

    def write_array(self, name, array, metadata=None):
        self.arrays[name] = np.array(array, copy=True)

    def create_group(self, name):
        return self


STORE_TO_EXPOSED = {'temp_profile': 'T', 'density_profile': 'density', 'scaleheight_profile': 'H', 'altitude_profile': 'z',
                    'gravity_profile': 'g', 'pressure_profile': 'P', 'mu_profile': 'mu', 'active_mix_profile': 'active',
                    'inactive_mix_profile': 'inactive'}


def collect(ctx, model, hdf5=False):
    """Every exposed and stored per-layer array of the model -> {name: array with the layer on the last axis}."""
    import taurex.util.output as tout
    n = int(model.nLayers)
    d = {'exposed:P': model.pressureProfile, 'exposed:T': model.temperatureProfile, 'exposed:density': model.densityProfile,
         'exposed:z': model.altitudeProfile, 'exposed:g': model.gravity_profile, 'exposed:H': model.scaleheight_profile,
         'exposed:dz': model.deltaz, 'exposed:mu': model.chemistry.muProfile,
         'exposed:active': model.chemistry.activeGasMixProfile, 'exposed:inactive': model.chemistry.inactiveGasMixProfile}
    before = ctx.monitors['contract:generate_profiles.one-per-layer'], ctx.monitors['contract:generate_profile_dict.one-per-layer']
    stored = {'generate_profiles': model.generate_profiles(), 'generate_profile_dict': tout.generate_profile_dict(model)}
    ctx.check('contract-fired', ctx.monitors['contract:generate_profiles.one-per-layer'] > before[0]
              and ctx.monitors['contract:generate_profile_dict.one-per-layer'] > before[1] + 1)
    rec = RecordingGroup()
    tout.store_profiles(rec, model)
    stored['store_profiles'] = rec.arrays
    ctx.observe('stored:recorded')
    if hdf5:
        import h5py
        from taurex.output.hdf5 import HDF5Output
        path = os.path.join(ctx.scratch, 'o_%d_%d.h5' % (ctx.case['index'], len(os.listdir(ctx.scratch))))
        with HDF5Output(path) as o:
            grp = o.create_group('Profiles')
            tout.store_profiles(grp, model)
        with h5py.File(path, 'r') as fh:
            stored['hdf5'] = {k: fh['Profiles'][k][...] for k in fh['Profiles']}
        os.remove(path)
        ctx.observe('stored:hdf5')
        shapes = {k: list(v.shape) for k, v in stored['hdf5'].items()}
        ctx.check('hdf5-one-per-layer', len(shapes) == 8 and all(s[-1] == n and len(s) == (2 if 'mix' in k else 1)
                                                                 for k, s in shapes.items()), shapes=shapes, n=n)
    for how, sd in stored.items():
        for k, v in sd.items():
            if k not in STORE_TO_EXPOSED:
                continue
            d['%s:%s' % (how, k)] = v
            ex = d['exposed:' + STORE_TO_EXPOSED[k]]
            shape_ok = v is not None and np.ndim(v) >= 1 and np.shape(v)[-1] == n
            ctx.check('stored-one-per-layer', shape_ok, how=how, key=k, shape=list(np.shape(v)), n=n)
            ctx.check('stored-equals-exposed', shape_ok and np.shape(v) == np.shape(ex) and bool(np.all(np.asarray(v) == np.asarray(ex))),
                      how=how, key=k, shape=list(np.shape(v)), exposed_shape=list(np.shape(ex)))
    d['exposed:zb'] = model.altitude_boundaries
    return {k: np.array(v, dtype=float, copy=True) for k, v in d.items() if v is not None}


def moved(a, b):
    """Indices along the last axis at which the two arrays differ (None if the shapes differ)."""
    if a.shape != b.shape:
        return None
    diff = a != b
    if diff.ndim > 1:
        diff = diff.reshape(-1, diff.shape[-1]).any(axis=0)
    return [int(i) for i in np.nonzero(diff)[0]]


def quantity(name):
    q = name.split(':', 1)[1]
    return STORE_TO_EXPOSED.get(q, q)


# ------------------------------------------------------------------- workloads
_grids_seen = []          # (nlayers, pmin, pmax) of every grid this process has computed, in order


def wl_grid(ctx, rng):
    from taurex.data.profiles.pressure import SimplePressureProfile
    n = int(rng.choice([1, 2, 3, 100, 200])) if rng.random() < 0.3 else int(rng.integers(1, 101))
    lpmax = rng.uniform(-2.0, 9.0)
    dec = rng.uniform(1.0, 14.0) if rng.random() < 0.7 else 10 ** rng.uniform(-3, 0)
    pmax, pmin = float(10 ** lpmax), float(10 ** (lpmax - dec))
    if len(_grids_seen) > 140 and rng.random() < 0.35:
        # a long-lived process (a retrieval, a script building model after model): a grid it computed long ago -- more
        # than a hundred other grids ago -- is asked for again
        n, pmin, pmax = _grids_seen[int(rng.integers(0, len(_grids_seen) - 135))]
        ctx.observe('history:a-grid-computed-over-a-hundred-grids-ago-again')
    _grids_seen.append((n, pmin, pmax))
    pp = SimplePressureProfile(nlayers=n, atm_min_pressure=pmin, atm_max_pressure=pmax)
    ctx.observe('pressure:simple', 'nlayers:%d' % n)
    ctx.feature(kind='grid', nlayers=n, pmin=pmin, pmax=pmax)
    before = ctx.monitors['contract:grid.lengths']
    pp.compute_pressure_profile()
    ctx.check('contract-fired', ctx.monitors['contract:grid.lengths'] > before)
    ctx.check('grid-ends-at-declared-bounds', abs(pp.pressure_profile_levels[0] / pmax - 1) < 1e-12
              and abs(pp.pressure_profile_levels[-1] / pmin - 1) < 1e-12)
    if rng.random() < 0.4:      # a sampler moves the bounds through the fitting parameters
        fp = pp.fitting_parameters()
        pmin2 = pmin * float(10 ** rng.uniform(-2, 0))
        fp['atm_min_pressure'][3](pmin2)
        L.redeclare(pp, atm_min_pressure=pmin2)
        _grids_seen.append((n, pmin2, pmax))
        ctx.observe('via-setter')
        pp.compute_pressure_profile()
    ctx.sig('grid', n, pmin, pmax)
    ctx.sample({'class': 'SimplePressureProfile', 'nlayers': n, 'pmax': pmax, 'pmin': pmin,
                'levels_head': pp.pressure_profile_levels[:3], 'layers_head': pp.profile[:2]})


def wl_scale(ctx, rng):
    """Planet.calculate_scale_properties on arbitrary strictly decreasing levels."""
    from taurex.data import Planet
    for _ in range(60):
        n = gen_nlayers(rng)
        pm, pr = gen_planet_args(rng)
        lpmax = rng.uniform(2.0, 8.0)
        dec = rng.uniform(0.5, 12.0)
        kind = ['log', 'irregular'][rng.integers(0, 2)]
        if kind == 'log':
            lev = np.logspace(lpmax, lpmax - dec, n + 1)
        else:
            cuts = np.sort(rng.uniform(0, 1, n - 1)) if n > 1 else np.array([])
            for i in range(1, len(cuts)):
                if cuts[i] <= cuts[i - 1] + 1e-6:
                    cuts[i] = cuts[i - 1] + 1e-6
            lev = 10 ** (lpmax - dec * np.concatenate([[0.0], cuts, [1.0 + 1e-6 * n]]))
        T = np.array(smooth_T(rng, n))
        if rng.random() < 0.2:
            T = np.round(T).astype(int)      # integer dtype: every returned array must still be real-valued
        mu = rng.uniform(2.0, 44.0, n) * AMU if rng.random() < 0.7 else np.full(n, rng.uniform(2.0, 44.0) * AMU)
        planet = Planet(planet_mass=pm, planet_radius=pr)
        if L.hydro_domain(T, lev, mu) is None:
            ref_ = L.reference(T, lev, mu, planet)
            if ref_[4]:
                break
            if ref_[0] is not None and np.all(np.isfinite(ref_[0])) and np.all(ref_[1] > 0) \
                    and ref_[0][-1] < L.JUDGE_HEIGHT_RADII * planet.fullRadius and rng.random() < 0.5:
                break            # a loosely bound, extended atmosphere: the recursion is judged there too
        ctx.event('domain-skip:atmosphere-not-bound')
    else:
        raise RuntimeError('generator could not draw a bound atmosphere')
    units = 'km' if rng.random() < 0.25 else 'm'
    ctx.observe('nlayers:%d' % n, 'scale:%s-levels' % ('irregular' if kind == 'irregular' else 'log'), 'units:' + units,
                'T-dtype:' + T.dtype.kind)
    ctx.feature(kind='scale', nlayers=n, planet=(pm, pr), levels=kind, units=units)
    before = ctx.monitors['contract:scale.altitude']
    if units == 'm' and rng.random() < 0.5:
        z, H, g, dz = planet.calculate_scale_properties(T, lev, mu)
    else:
        z, H, g, dz = planet.calculate_scale_properties(T, lev, mu, length_units=units)
    ctx.check('contract-fired', ctx.monitors['contract:scale.altitude'] > before)
    if rng.random() < 0.3:      # the planet is re-sized through its fitting parameters
        fp = planet.fitting_parameters()
        pr2 = pr * float(rng.uniform(1.0, 1.5))
        fp['planet_radius'][3](pr2)
        L.redeclare(planet, planet_radius=pr2)
        ctx.observe('via-setter')
        if L.reference(T, lev, mu, planet)[4]:
            planet.calculate_scale_properties(T, lev, mu)
    if rng.random() < 0.4:
        # the planet is given in OTHER UNITS through the public set_planet_radius / set_planet_mass (unit strings the
        # package's own converter accepts); the declaration follows with IAU 2015 nominal values / CODATA G, written down
        # here and not taken from the package
        what = ['radius', 'mass'][rng.integers(0, 2)]
        if what == 'radius':
            unit, si = [('Rjup', L.R_JUP), ('Rearth', 6.3781e6), ('earthRad', 6.3781e6), ('km', 1e3), ('m', 1.0), ('Rsun', 6.957e8),
                        ('cm', 1e-2)][rng.integers(0, 7)]
            target = pr * float(rng.uniform(1.0, 1.4)) * L.R_JUP           # metres
            planet.set_planet_radius(target / si, unit)
            L.redeclare(planet, planet_radius=target / L.R_JUP)
            got_back = planet.get_planet_radius(unit)
        else:
            unit, si = [('Mjup', L.M_JUP), ('Mearth', 3.986004e14 / L.G_SI), ('earthMass', 3.986004e14 / L.G_SI), ('kg', 1.0),
                        ('Msun', 1.3271244e20 / L.G_SI), ('g', 1e-3)][rng.integers(0, 6)]
            target = pm * float(rng.uniform(1.0, 1.4)) * L.M_JUP           # kilograms
            planet.set_planet_mass(target / si, unit)
            L.redeclare(planet, planet_mass=target / L.M_JUP)
            got_back = planet.get_planet_mass(unit)
        ctx.observe('planet-given-in:' + unit)
        ctx.close('planet:value-reads-back-in-the-unit-it-was-given-in', got_back, target / si, 1e-12, unit=unit, what=what)
        ctx.close('planet:SI-value-of-what-was-given', planet.fullRadius if what == 'radius' else planet.fullMass, target, 2e-5,
                  unit=unit, what=what)
        if L.reference(T, lev, mu, planet)[4]:
            planet.calculate_scale_properties(T, lev, mu)       # judged by the contract from the (re-)declared planet
    ctx.sig('scale', n, round(pm, 6), round(pr, 6), kind, float(lev[0]), float(lev[-1]))
    ctx.sample({'planet': [pm, pr], 'nlayers': n, 'levels': kind, 'units': units, 'z_top': float(z[-1]),
                'g_surface_top': [float(g[0]), float(g[-1])]})


def observe_spec(ctx, spec):
    if spec.get('T_integer'):
        ctx.observe('T:integer-valued-layers')
    ctx.observe('pressure:' + spec['pkind'], 'nlayers:%d' % spec['n'], 'T:' + spec['tkind'])
    ctx.feature(kind='model', nlayers=spec['n'], pressure=spec['pkind'], T=spec['tkind'], planet=spec['planet'],
                fills=spec['fills'], heavy=spec['heavy'], active=spec['active'], reverse=spec.get('reverse'))


def wl_model(ctx, rng):
    """A full model: the contracts judge initialize_profiles; everything exposed and stored is collected."""
    spec, m = draw_bound_model(ctx, rng, allow_unordered=True)
    observe_spec(ctx, spec)
    if spec.get('unordered'):
        ctx.observe('pressure:array-with-unordered-derived-levels')
        before = ctx.monitors['contract:model.exposed-one-per-layer']
        m.initialize_profiles()
        ctx.check('contract-fired', ctx.monitors['contract:model.exposed-one-per-layer'] > before)
    else:
        before = ctx.monitors['contract:model.altitude']
        m.initialize_profiles()
        ctx.check('contract-fired', ctx.monitors['contract:model.altitude'] > before)
    d = collect(ctx, m, hdf5=rng.random() < 0.4)
    n = spec['n']
    bad = {k: list(v.shape) for k, v in d.items() if v.shape[-1] != (n + 1 if k == 'exposed:zb' else n)}
    ctx.check('everything-one-per-layer', not bad, bad=bad, n=n)
    # parameters are moved in a late digit (a sampler near convergence, a finite-difference step) and the profiles
    # are initialised again: the structure must follow every change, however small
    if not spec.get('unordered'):
        for _ in range(int(rng.integers(1, 3))):
            names = ['planet_mass', 'planet_radius'] + (['T'] if spec['tkind'] == 'isothermal' else [])
            nm = names[int(rng.integers(0, len(names)))]
            new = float(m[nm]) * (1.0 + float(rng.choice([-1, 1])) * float(10 ** rng.uniform(-9, -5.3)))
            m[nm] = new
            if nm.startswith('planet_'):
                L.redeclare(m.planet, **{nm: new})
            before = ctx.monitors['contract:model.altitude']
            m.initialize_profiles()
            ctx.check('contract-fired', ctx.monitors['contract:model.altitude'] > before)
            ctx.observe('moved-in-a-late-digit:' + nm)
        d = collect(ctx, m)
    # the spectrum is computed (either path-length method): what the model exposes afterwards is judged again -- the
    # radiative transfer may not have written into the vertical structure
    if not spec.get('unordered') and n >= 2:
        from taurex.contributions import AbsorptionContribution
        m.add_contribution(AbsorptionContribution())
        m.build()
        m.model()
        L._h['judge_model'](m)
        d2 = collect(ctx, m)
        same = all(np.array_equal(d2[k], d[k]) for k in d if k.startswith('exposed:') and k in d2)
        ctx.check('exposed-profiles-unchanged-by-evaluating-the-spectrum', same,
                  changed=[k for k in d if k.startswith('exposed:') and k in d2 and not np.array_equal(d2[k], d[k])],
                  new_method=spec['new_method'])
        ctx.observe('model:evaluated-then-rejudged', 'path-method:' + ('new' if spec['new_method'] else 'old'))
    ctx.sig('model', spec['pkind'], spec['tkind'], n, round(spec['planet'][0], 6), round(spec['planet'][1], 6), spec['pmax'])
    ctx.sample({'pressure': spec['pkind'], 'T': spec['tkind'], 'nlayers': n, 'planet': spec['planet'],
                'z_top_over_Rp': float(d['exposed:zb'][-1] / m.planet.fullRadius), 'H_minmax': [float(d['exposed:H'].min()),
                                                                                              float(d['exposed:H'].max())],
                'mu_amu_minmax': [float(d['exposed:mu'].min() / AMU), float(d['exposed:mu'].max() / AMU)]})


def wl_shared(ctx, rng):
    """Several models of the same layer count share one Planet object (a script comparing atmospheres of one planet):
    after each further model was built and run, every earlier model's exposed profiles are judged again against the
    recursion for ITS OWN temperature, levels and molecular weight."""
    spec, m = draw_bound_model(ctx, rng, pkinds=('simple',), nmin=2)
    observe_spec(ctx, spec)
    m.initialize_profiles()
    models = [m]
    judge = L._h['judge_model']
    for k in range(int(rng.integers(1, 3))):
        for _ in range(40):
            s2 = gen_spec(rng, pkinds=('simple',), nmin=2)
            other_n = bool(ctx.case['index'] % 2)       # every other case: the models sharing the planet differ in layer count
            if not other_n:
                s2['n'] = spec['n']
            s2['planet'] = spec['planet']
            if s2['tkind'] == 'layers':
                s2['T'] = smooth_T(rng, s2['n'])
            s2['heavy_x'] = (list(s2['heavy_x']) * s2['n'])[:s2['n']]
            from taurex.exceptions import InvalidModelException
            try:
                m2 = build(ctx, s2, planet=m.planet)
                m2.build()
            except InvalidModelException:
                continue
            if is_bound(m2):
                break
        else:
            ctx.event('domain-skip:no-second-bound-model')
            return
        before = ctx.monitors['contract:model.altitude']
        m2.initialize_profiles()
        if rng.random() < 0.5:
            m2.model()
        models.append(m2)
        if other_n and m2.nLayers != m.nLayers:
            ctx.observe('shared-planet:models-of-different-layer-counts')
            for mj in models[:-1]:
                mj.initialize_profiles()            # the earlier (smaller or larger) model goes on after the newer one ran
        for j, mj in enumerate(models[:-1]):
            judge(mj)
            ctx.observe('shared-planet:earlier-model-rejudged')
        ctx.check('contract-fired', ctx.monitors['contract:model.altitude'] > before + len(models) - 1)
    ctx.sig('shared', spec['n'], len(models), round(spec['planet'][0], 6), round(spec['planet'][1], 6), spec['pmax'])


def wl_align(ctx, rng):
    """Perturb one layer and look at which index of every exposed/stored array moves."""
    what = ['temperature', 'abundance', 'pressure'][rng.integers(0, 3)]
    kw = dict(tkinds=('layers',))
    if what == 'pressure':
        kw['pkinds'] = ('array', 'file')
    spec, m = draw_bound_model(ctx, rng, **kw)
    observe_spec(ctx, spec)
    n = spec['n']
    base = collect(ctx, m, hdf5=rng.random() < 0.3)
    r = rng.random()
    j = 0 if r < 0.2 else (n - 1 if r < 0.4 else int(rng.integers(0, n)))
    ctx.observe('perturb:' + what)
    if j == n - 1:
        ctx.observe('perturb:top-layer')
    if j == 0:
        ctx.observe('perturb:bottom-layer')
    spec2 = dict(spec)
    if what == 'temperature':
        spec2['T'] = list(spec['T'])
        spec2['T'][j] *= 1.03
    elif what == 'abundance':
        spec2['heavy_x'] = list(spec['heavy_x'])
        spec2['heavy_x'][j] = spec['heavy_x'][j] * 1.2 + 1e-3
    else:
        spec2['parray'] = list(spec['parray'])
        lo = spec['parray'][j + 1] if j + 1 < n else spec['parray'][j] * 0.5
        spec2['parray'][j] = float(np.sqrt(spec['parray'][j] * np.sqrt(spec['parray'][j] * lo)))     # a quarter of the way down
    m2 = build(ctx, spec2)
    m2.build()
    if not is_bound(m2):
        ctx.event('domain-skip:perturbed-atmosphere-not-bound')
        return
    pert = collect(ctx, m2, hdf5=False)
    mon = 'aligned:' + what
    nxt = [j + 1] if j + 1 < n else []
    for name, a in base.items():
        b = pert.get(name)
        if b is None:
            continue
        mv = moved(a, b)
        q = quantity(name)
        w = dict(array=name, layer=j, n=n, moved=mv if mv is None else mv[:6])
        if mv is None:
            ctx.check(mon, False, reason='shape changed', **w)
            continue
        if what == 'temperature':
            exact = {'T': [j], 'density': [j], 'P': [], 'mu': [], 'active': [], 'inactive': []}
            first = {'H': [j], 'dz': [j], 'z': nxt, 'g': nxt, 'zb': [j + 1]}
        elif what == 'abundance':
            act = [j] if spec['heavy'] in spec['active'] else []
            exact = {'T': [], 'density': [], 'P': [], 'mu': [j], 'active': act, 'inactive': [j]}
            first = {'H': [j], 'dz': [j], 'z': nxt, 'g': nxt, 'zb': [j + 1]}
        else:
            exact = {'P': [j], 'density': [j], 'T': [], 'mu': [], 'active': [], 'inactive': []}
            first = {}
        if q in exact:
            ctx.check(mon, mv == exact[q], expect=exact[q], **w)
        elif q in first:
            ctx.check(mon, mv[:1] == first[q], expect_first=first[q], **w)
    ctx.sig('align', what, j, n, spec['pkind'], round(spec['planet'][0], 6), spec['pmax'])


WORKLOADS = {'grid': wl_grid, 'scale': wl_scale, 'model': wl_model, 'align': wl_align, 'shared': wl_shared}

LEVEL_TEXT = ('Exploration by runtime monitoring: icontract postconditions attached from the harness to the pressure grids, to '
              'Planet.calculate_scale_properties, to SimpleForwardModel.initialize_profiles and to the profile dictionaries judge every '
              'call the workloads make against an independent bottom-up hydrostatic recursion and the stated relations; profiles are '
              'also stored through store_profiles (recording group and real HDF5 files read back) and alignment of every exposed/stored '
              'array is decided by perturbing one layer and observing which index moves. Held = held on the recorded executions.')
LEVEL_NOTE = ('Trusted: vmon/refmodel.hydrostatic (plain loop over the statement), CODATA constants from scipy, IAU nominal Jupiter '
              'mass/radius; temperature and molecular weight per layer are taken as inputs.')
TECHNIQUE = 'icontract postconditions on grids / scale properties / model profiles + hydrostatic reference recursion + one-layer perturbation alignment of exposed and stored arrays'
