"""C14 -- opacity / CIA / k-table files of every supported format load to the same physical table; a molecule
requested from a cache is loaded once and served as the same object; interpolation-mode changes take effect.

Monitors
  * sys.addaudithook ('open' events below the shard's scratch directory), tap on h5py.File.__init__, taps on every
    loader's _load_* method (class, file, in_memory flag, object) and on OpacityCache / CIACache / KTableCache
    __getitem__, clear_cache, set_interpolation, set_memory_mode  ->  one event log per case.
  * format workloads: one physical table is written into every container (vmon/lib_c14.py), each container is put in
    its own directory and loaded through discovery + the cache; grids, orientation, molecule identity and
    cache[mol].opacity(T, P, wn) / cia(T, wn) at nodes, interior and outside points are compared with the physical
    table (nodes, SI units) and across formats (everywhere).
  * history workloads: random sequences of requests / clear_cache / set_interpolation / set_memory_mode / path
    changes; an offline checker walks the event log with a reference model of the cache ("first request after a
    (re)configuration: exactly one full-data load of that molecule's file from the configured path and a new object;
    afterwards the same object and no file activity") and decides the interpolation mode of every served object
    by querying it where the two modes differ.
"""
import os
import shutil
import sys

import numpy as np

from vmon import lib_c14 as L
from vmon import taps, world

PROPERTY = 'C14'
RULE = ('random physical tables (2-6 pressures over 0.05-2.5 dex steps, 2-7 temperatures, 3-24 wavenumbers, values '
        'over 14 decades; CIA: 1-3 disjoint wavenumber ranges each tabulated at its own subset of 2-6 temperatures; '
        'k-tables with 1-8 quadrature points) written as every supported container with random isotopologue / '
        'suffixed file names, declared pressure units and Exo-Transmit row orders; histories of 6-16 cache operations. '
        'A case is non-trivial when at least two containers (or three requests) were served; distinct = distinct '
        '(kind, shape, names, unit, first table value) tuples')
ASSUMPTIONS = [
    'Exo-Transmit pressures are written in bar (the unit the reader assumes; the repository documents none) and '
    'cross-sections in m2, wavelengths in metres',
    'the HDF5 cross-section reader takes the molecule from the mol_name dataset, which the workload writes as the '
    'plain (already sanitised) name; file names carry the isotopologue prefixes and suffixes',
    'HDF5 discovery opens every file header on each discover(); "loaded once" is decided on full-data loads '
    '(loader calls that read the table into memory) and on object identity, raw open counts are only reported',
    'a directory holding the same molecule in two cross-section / k-table formats is observed, not judged; for CIA the '
    'class docstring promises priority to .db, so .db + .cia for one pair is judged',
    'HITRAN files keep one wavenumber grid per (start, end) range and disjoint ranges, as the distributed files do',
]
_Q = {'xsec': 6, 'cia': 8, 'ktab': 6, 'hist_xsec': 5, 'hist_cia': 5, 'hist_ktab': 5}
_T = {'xsec': 70, 'cia': 100, 'ktab': 70, 'hist_xsec': 45, 'hist_cia': 45, 'hist_ktab': 45}
BUDGET = {
    'quick': [dict(name='audit', env={}, shards=8, cases=_Q)],
    'thorough': [dict(name='audit', env={}, shards=16, cases=_T)],
}

M_X_NODE = 'xsec:nodes==table[SI]'
M_X_FMT = 'xsec:formats-agree'
M_X_GRID = 'xsec:grids-and-orientation'
M_X_NAME = 'xsec:served-under-sanitised-name'
M_X_UNIT = 'xsec:hdf5-declared-unit-honoured'
M_X_SUB = 'request-of-native-points==rows-of-native-result'
M_C_NODE = 'cia:nodes==table[SI]'
M_C_FMT = 'cia:formats-agree'
M_C_GRID = 'cia:grids-and-orientation'
M_C_NAME = 'cia:served-under-pair-name'
M_K_NODE = 'ktab:nodes==table[SI]'
M_K_FMT = 'ktab:formats-agree'
M_K_GRID = 'ktab:grids-weights-orientation'
M_K_NAME = 'ktab:served-under-sanitised-name'
M_H_ONCE = 'history:loaded-once-then-same-object'
M_H_PATH = 'history:loaded-from-configured-path'
M_H_VAL = 'history:served-object-holds-configured-table'
M_H_INTERP = 'xsec:interpolation-mode-takes-effect'
M_HK_INTERP = 'ktab:interpolation-mode-takes-effect'
M_CIA_FIRST = 'cia:first-request-served'
REQUIRED = dict(
    monitors=[M_X_SUB, M_X_NODE, M_X_FMT, M_X_GRID, M_X_NAME, M_X_UNIT, M_C_NODE, M_C_FMT, M_C_GRID, M_C_NAME, M_K_NODE, M_K_FMT,
              M_K_GRID, M_K_NAME, M_H_ONCE, M_H_PATH, M_H_VAL, M_H_INTERP, M_HK_INTERP, M_CIA_FIRST],
    classes=['xsec:pickle', 'xsec:hdf5', 'xsec:exotransmit', 'unit:Pa', 'unit:bar', 'unit:mbar', 'unit:Ba',
             'unit:cds-only', 'cia:pickle', 'cia:hitran', 'hitran:per-temperature-ranges', 'hitran:negative-floored', 'exotransmit:a-wavelength-listed-twice', 'hitran:whole-block-negative-below-an-interpolated-temperature', 'hitran:two-ranges-a-hair-apart', 'history:hundreds-of-temperatures-then-earlier-ones-again',
             'hitran:ranges-share-a-wavenumber', 'query:work-array-refilled-in-place',
             'ktab:pickle', 'ktab:hdf5', 'name:isotopologue', 'name:suffix', 'query:node', 'query:interior',
             'query:outside', 'query:wngrid', 'interp:linear', 'interp:exp', 'hist:xsec', 'hist:cia', 'hist:ktab',
             'op:clear_cache', 'op:set_interpolation', 'op:set_memory_mode', 'op:set_path', 'hist:repeat>=3',
             'cia:db+cia-same-pair', 'audit:open-seen', 'audit:h5open-seen'])
# Tolerances (derived).  All readers share the interpolation code; differences between containers can only come from
# the stored numbers: pressures go through file_unit -> Pa conversions (<= 2 ulp, moving an interpolation weight by
# 2*eps*0.43/dlogP <= 4e-15 for dlogP >= 0.05), Exo-Transmit wavelengths 0.01/(0.01/wn) (<= 2 ulp; on an off-grid
# wavenumber query 2*eps*wn/dwn <= 2e-13 of a neighbour difference), values through *1e4 /1e4 and *1e10 *1e-10
# (<= 2 ulp) and the bilinear formula evaluated as x11 - (...) (eps of the largest bracketing corner).  So:
RTOL = 1e-12          # relative to the value
CORNER = 1e-12        # + relative to the largest table entry that can take part in the interpolation
EXO_ABS = 1e-59       # + Exo-Transmit reader adds 1e-60 m2 to every entry
XSEC_UNITS_NATIVE = ['Pa', 'bar', 'mbar', 'Ba', 'kPa', 'hPa', 'Torr']
UNITS_CDS_ONLY = ['atm', 'mmHg']

_log = []                                  # event log of the current case
_audit = {'on': False, 'root': None, 'installed': False}
_keep = []                                 # strong references (ids stay unique within a case)


def classify(f):
    feat = f.get('features') or {}
    mon = f.get('monitor')
    if mon == M_X_UNIT and feat.get('unit_parses_natively') is False and feat.get('unit_parses_as_cds') is True \
            and feat.get('exception') == 'ValueError':
        return 'C14/hdf5-cds-unit-fallback'
    if mon == M_X_NAME and feat.get('format') == 'exotransmit' and feat.get('file_name_is_plain') is False \
            and feat.get('discovered_under_sanitised_name') is True and feat.get('exception') == 'Exception':
        return 'C14/exotransmit-name-not-sanitised'
    if mon == M_CIA_FIRST and feat.get('db_and_cia_for_pair') is True and feat.get('exception') == 'Exception' \
            and 'already exists' in str(feat.get('message')):
        return 'C14/cia-both-formats-first-request-raises'
    if mon in (M_C_NODE, M_C_FMT) and feat.get('format') == 'hitran' and feat.get('hitran_ramp_region') is True:
        return 'C14/hitran-fill-range-grows'
    if mon == M_HK_INTERP and feat.get('mode_changed_since_load') is True and feat.get('same_object_as_before') is True \
            and feat.get('matches_mode_at_load') is True:
        return 'C14/ktable-cache-keeps-interpolation'
    return None


# ------------------------------------------------------------------ monitors
def _audit_hook(event, args):
    if event == 'open' and _audit['on']:
        try:
            p = args[0]
            if isinstance(p, bytes):
                p = p.decode()
            if isinstance(p, str) and p.startswith(_audit['root']):
                _log.append({'ev': 'open', 'file': p})
        except Exception:
            pass


def setup(ctx):
    import h5py
    from taurex.opacity import PickleOpacity, HDF5Opacity, ExoTransmitOpacity
    from taurex.opacity.ktables import PickleKTable, HDF5KTable
    from taurex.cia import PickleCIA, HitranCIA
    from taurex.cache import OpacityCache, CIACache
    from taurex.cache.ktablecache import KTableCache
    _audit['root'] = ctx.scratch
    if not _audit['installed']:
        sys.addaudithook(_audit_hook)
        _audit['installed'] = True

    def h5_before(self, a, kw):
        name = a[0] if a else kw.get('name')
        mode = a[1] if len(a) > 1 else kw.get('mode', 'r')
        if _audit['on'] and isinstance(name, str) and name.startswith(_audit['root']) and mode == 'r':
            _log.append({'ev': 'h5open', 'file': name})
    taps.tap(h5py.File, '__init__', h5_before, None)

    def loader(kind, klass, meth):
        def before(self, a, kw):
            fn = a[0] if a else kw.get('filename')
            full = bool(getattr(self, 'in_memory', True))
            _log.append({'ev': 'load', 'kind': kind, 'class': klass.__name__, 'file': fn, 'full': full, 'obj': self})
        taps.tap(klass, meth, before, None)
    loader('xsec', PickleOpacity, '_load_pickle_file')
    loader('xsec', HDF5Opacity, '_load_hdf_file')
    loader('xsec', ExoTransmitOpacity, '_load_exo_transmit')
    loader('ktab', PickleKTable, '_load_pickle_file')
    loader('ktab', HDF5KTable, '_load_pickle_file')
    loader('cia', PickleCIA, '_load_pickle_file')
    loader('cia', HitranCIA, 'load_hitran_file')

    def cache(kind, klass):
        def gi_before(self, a, kw):
            _log.append({'ev': 'req-begin', 'cache': kind, 'key': a[0]})

        def gi_after(self, a, kw, res, exc, token):
            _log.append({'ev': 'req-end', 'cache': kind, 'key': a[0], 'obj': res,
                         'exc': None if exc is None else type(exc).__name__,
                         'msg': None if exc is None else str(exc)[:200]})
        taps.tap(klass, '__getitem__', gi_before, gi_after)

        def op(name):
            if name in klass.__dict__:
                taps.tap(klass, name, lambda self, a, kw: _log.append({'ev': 'op', 'cache': kind, 'op': name,
                                                                        'arg': a[0] if a else None}), None)
        for name in ('clear_cache', 'set_interpolation', 'set_memory_mode', 'set_opacity_path', 'set_ktable_path',
                     'set_cia_path'):
            op(name)
    cache('xsec', OpacityCache)
    cache('cia', CIACache)
    cache('ktab', KTableCache)


def teardown(ctx):
    _audit['on'] = False
    taps.untap_all()


def begin(ctx):
    """Start of a case: empty caches (the guide's rule), empty log, audit on, fresh directory."""
    world.reset_caches()
    del _log[:]
    del _keep[:]
    _audit['on'] = True
    root = os.path.join(ctx.scratch, 'c%d' % ctx.cases)
    shutil.rmtree(root, ignore_errors=True)
    os.makedirs(root)
    return root


def end(ctx, root):
    _audit['on'] = False
    if any(e['ev'] == 'open' for e in _log):
        ctx.observe('audit:open-seen')
    if any(e['ev'] == 'h5open' for e in _log):
        ctx.observe('audit:h5open-seen')
    ctx.event('audit:open', sum(1 for e in _log if e['ev'] == 'open'))
    ctx.event('audit:h5open', sum(1 for e in _log if e['ev'] == 'h5open'))
    ctx.event('tap:load', sum(1 for e in _log if e['ev'] == 'load'))
    world.reset_caches()
    del _log[:]
    del _keep[:]
    import gc
    gc.collect()                        # discovery leaves HDF5 handles to the collector
    shutil.rmtree(root, ignore_errors=True)


def unit_parsing(unit):
    """How astropy itself reads the declared unit string (input classification, not an oracle)."""
    import astropy.units as u
    try:
        u.Unit(unit).to(u.Pa)
        native = True
    except Exception:
        native = False
    try:
        u.Unit(unit, format='cds').to(u.Pa)
        cds = True
    except Exception:
        cds = False
    return native, cds


def draw_name(rng, plain=False):
    stem, mol = L.ISOTOPOLOGUES[rng.integers(0, len(L.ISOTOPOLOGUES))]
    if plain:
        return mol, mol
    suffix = L.SUFFIXES[rng.integers(0, len(L.SUFFIXES))]
    return stem + suffix, mol


def alt_name(rng, mol):
    """Another file-name stem that stands for the same molecule."""
    stems = [s for s, m in L.ISOTOPOLOGUES if m == mol]
    return stems[rng.integers(0, len(stems))] + L.SUFFIXES[rng.integers(0, len(L.SUFFIXES))]


def observe_name(ctx, stem, mol):
    if not stem.startswith(mol):
        ctx.observe('name:isotopologue')
    if '_' in stem:
        ctx.observe('name:suffix')
    if stem == mol:
        ctx.observe('name:plain')
    ctx.check('reference-sanitiser-consistent', L.reference_sanitise(stem) == mol, stem=stem, mol=mol)


def tp_queries(rng, T, P):
    """[(class, T, P)]: every node, interior points, points outside on every side (never within 1e-3 of a node)."""
    q = [('node', float(t), float(p)) for t in T for p in P]
    lp = np.log10(P)
    for _ in range(5):
        j = int(rng.integers(0, len(T) - 1))
        i = int(rng.integers(0, len(P) - 1))
        q.append(('interior', float(T[j] + rng.uniform(0.05, 0.95) * (T[j + 1] - T[j])),
                  float(10 ** (lp[i] + rng.uniform(0.05, 0.95) * (lp[i + 1] - lp[i])))))
    # just above an interior node (a fraction of a kelvin): the bracket must still be the cell ABOVE the node
    for j in range(1, len(T) - 1):
        i = int(rng.integers(0, len(P) - 1))
        q.append(('interior', float(T[j]) + float(rng.uniform(0.05, 0.9)) * min(1.0, 0.5 * float(T[j + 1] - T[j])),
                  float(10 ** (lp[i] + rng.uniform(0.05, 0.95) * (lp[i + 1] - lp[i])))))
    tin = lambda: float(rng.uniform(T[0] * 1.01, T[-1] * 0.99)) if T[-1] * 0.99 > T[0] * 1.01 else float(T.mean())
    pin = lambda: float(10 ** rng.uniform(lp[0] + 0.01, lp[-1] - 0.01))
    tlo, thi = float(T[0] * rng.uniform(0.3, 0.95)), float(T[-1] * rng.uniform(1.05, 2.0))
    plo, phi = float(P[0] * 10 ** -rng.uniform(0.1, 3)), float(P[-1] * 10 ** rng.uniform(0.1, 3))
    for t, p in ((tlo, pin()), (thi, pin()), (tin(), plo), (tin(), phi), (tlo, plo), (thi, phi), (tlo, phi), (thi, plo)):
        q.append(('outside', t, p))
    return q


def wn_queries(rng, wn):
    """None (native grid), an exact sub-range of the native grid, an off-grid grid reaching beyond both ends."""
    a = int(rng.integers(0, len(wn) - 1))
    b = int(rng.integers(a + 1, len(wn)))
    off = np.sort(rng.uniform(wn[0] * 0.9, wn[-1] * 1.1, int(rng.integers(2, 9))))
    out = [('native', None), ('subrange', np.array(wn[a:b + 1])), ('offgrid', off)]
    m = b + 1 - a
    if len(wn) - m >= 1:
        # another window of the SAME length elsewhere on the native grid (the caller's work array gets it next)
        a2 = int(rng.integers(0, len(wn) - m + 1))
        if a2 != a:
            out.append(('subrange-b', np.array(wn[a2:a2 + m])))
    return out


def ask(ctx, op, t, p, wg, work):
    """op.opacity(t, p, wg) the way a caller with ONE work array per length does it: the array object of the previous
    request of that length, refilled in place with the points of this request."""
    if wg is None:
        return np.array(op.opacity(t, p, None), dtype=float)
    buf = work.get(len(wg))
    if buf is None:
        buf = work[len(wg)] = np.array(wg, dtype=float, copy=True)
    else:
        buf[...] = wg
        ctx.observe('query:work-array-refilled-in-place')
    return np.array(op.opacity(t, p, buf), dtype=float)


def judge_subranges(ctx, monitor, res, wn, wq, **wit):
    """A request made of native points returns exactly the rows of the native result for the same (T, P)."""
    for (cls, t, p, wcls), (got, _) in res.items():
        if not wcls.startswith('subrange') or (cls, t, p, 'native') not in res:
            continue
        wg = [g for c_, g in wq if c_ == wcls][0]
        idx = np.searchsorted(wn, wg)
        if np.any(idx >= len(wn)) or not np.array_equal(wn[np.minimum(idx, len(wn) - 1)], wg):
            ctx.event('subrange-not-of-exactly-native-points')       # e.g. Exo-Transmit text: the axis is re-read from decimals
            continue
        full = res[(cls, t, p, 'native')][0]
        ctx.check(monitor, got.shape[0] == len(idx) and bool(np.array_equal(got, full[idx], equal_nan=True)), T=t, P=p,
                  request=wcls, **wit)


# ------------------------------------------------------------ xsec formats
def wl_xsec(ctx, rng):
    from taurex.cache import OpacityCache
    root = begin(ctx)
    try:
        nP, nT, nwn = int(rng.integers(2, 7)), int(rng.integers(2, 8)), int(rng.integers(3, 25))
        wn = L.wn_grid(rng, nwn)
        T, P = L.tp_grids(rng, nP, nT)
        x = L.xsec_table(rng, nP, nT, nwn)
        mode = ['linear', 'exp'][rng.integers(0, 2)]
        ctx.observe('interp:' + mode)
        containers = []
        # pickle
        stem, mol = draw_name(rng)
        d = L.makedirs(root, 'pickle')
        L.write_xsec_pickle(os.path.join(d, stem + ['.pickle', '.R15000.TauREx.pickle', '.R100.pickle'][rng.integers(0, 3)]),
                            wn, T, P, x)
        containers.append(dict(fmt='pickle', dir=d, stem=stem, unit='bar', plain=True))
        observe_name(ctx, stem, mol)
        # hdf5 (file name varies, mol_name holds the plain name)
        stem_h = draw_name(rng)[0] if rng.random() < 0.5 else stem      # free: the reader identifies by mol_name
        unit = (XSEC_UNITS_NATIVE + ['Pa', 'bar', 'mbar', 'Ba'])[rng.integers(0, len(XSEC_UNITS_NATIVE) + 4)]
        if rng.random() < 0.18:
            unit = UNITS_CDS_ONLY[rng.integers(0, 2)]
        d = L.makedirs(root, 'hdf5')
        L.write_xsec_hdf5(os.path.join(d, stem_h + ['.h5', '.hdf5'][rng.integers(0, 2)]), mol, wn, T, P, x, unit,
                          name_kind=['str', 'bytes-array', 'bytes'][rng.integers(0, 3)], with_doi=bool(rng.random() < 0.3))
        containers.append(dict(fmt='hdf5', dir=d, stem=stem_h, unit=unit, plain=True))
        # exo-transmit
        plain = bool(rng.random() < 0.75)
        stem_e = mol if plain else (stem if stem != mol else mol + '_x')     # still the same molecule
        if not plain:
            observe_name(ctx, stem_e, mol)
        d = L.makedirs(root, 'exotransmit')
        order = ['wavelength-ascending', 'wavenumber-ascending', 'shuffled'][rng.integers(0, 3)]
        L.write_xsec_exotransmit(os.path.join(d, 'opac' + stem_e + '.dat'), wn, T, P, x, order=order, rng=rng)
        containers.append(dict(fmt='exotransmit', dir=d, stem=stem_e, unit='bar', plain=plain, order=order))

        if ctx.case['index'] % 3 == 1 and nwn >= 4:
            # an Exo-Transmit text table stitched from two spectral segments that both hold the seam point: one wavelength is
            # listed twice, each record with its own numbers.  Only the LOADING is judged (every record of the file is in the
            # loaded table, on an ascending axis; which of the two seam records comes first is not stated): the unchanged
            # package cannot serve every sub-range of an axis with a repeated point
            j = int(rng.integers(1, nwn - 1))
            wn2 = np.insert(wn, j, wn[j])
            x2 = np.insert(x, j, x[..., j] * float(rng.uniform(1.2, 3.0)), axis=-1)
            d2 = L.makedirs(root, 'exotransmit-seam')
            L.write_xsec_exotransmit(os.path.join(d2, 'opac' + mol + '.dat'), wn2, T, P, x2,
                                     order=['wavelength-ascending', 'wavenumber-ascending'][rng.integers(0, 2)], rng=rng)
            world.reset_caches()
            OpacityCache().set_opacity_path(d2)
            op2 = OpacityCache()[mol]
            ctx.observe('exotransmit:a-wavelength-listed-twice')
            ok2 = ctx.check('xsec:every-record-of-a-stitched-file-is-loaded', len(op2.wavenumberGrid) == nwn + 1
                            and tuple(np.shape(op2.xsecGrid)) == (nP, nT, nwn + 1), n_loaded=len(op2.wavenumberGrid), n_in_file=nwn + 1,
                            shape=list(np.shape(op2.xsecGrid)))
            if ok2:
                ctx.close('xsec:every-record-of-a-stitched-file-is-loaded', op2.wavenumberGrid, wn2, 4e-16, axis='wn')
                g2, w2 = np.array(op2.xsecGrid, dtype=float), np.array(x2, dtype=float)           # (the stored grid is in cm2)
                tie = np.where(wn2 == wn[j])[0]
                g2[..., tie], w2[..., tie] = np.sort(g2[..., tie], axis=-1), np.sort(w2[..., tie], axis=-1)
                ctx.close('xsec:every-record-of-a-stitched-file-is-loaded', g2, w2, 1e-12, atol=EXO_ABS * 1e4, what='table[cm2]')
        tq = tp_queries(rng, T, P)
        wq = wn_queries(rng, wn)
        x_si = x * 1e-4
        results = {}
        for c in containers:
            fmt = c['fmt']
            world.reset_caches()
            OpacityCache().set_opacity_path(c['dir'])
            OpacityCache().set_interpolation(mode)
            base = dict(format=fmt, unit=c['unit'], stem=c['stem'], molecule=mol, interpolation=mode,
                        file_name_is_plain=bool(c['plain']))
            native, cds = unit_parsing(c['unit'])
            if fmt == 'hdf5':
                ctx.observe('unit:' + c['unit'] if native else 'unit:cds-only')
            # ---- discovery + request
            try:
                found = set(OpacityCache().find_list_of_molecules())
            except ValueError as e:
                ctx.feature(exception=type(e).__name__, message=str(e)[:160], unit_parses_natively=native,
                            unit_parses_as_cds=cds, **base)
                if fmt == 'hdf5':
                    ctx.check(M_X_UNIT, False, unit=c['unit'], stage='discovery', message=str(e)[:160])
                    continue
                raise
            try:
                op = OpacityCache()[mol]
            except Exception as e:
                if type(e) is not Exception or 'could not be loaded' not in str(e):
                    raise
                ctx.feature(exception=type(e).__name__, message=str(e)[:160],
                            discovered_under_sanitised_name=bool(mol in found), **base)
                ctx.check(M_X_NAME, False, stem=c['stem'], molecule=mol, discovered=sorted(found), format=fmt)
                continue
            ctx.feature(exception=None, discovered_under_sanitised_name=bool(mol in found), **base)
            ctx.check(M_X_NAME, mol in found and op.moleculeName == mol, stem=c['stem'], molecule=mol,
                      discovered=sorted(found), served_name=op.moleculeName, format=fmt)
            if fmt == 'hdf5':
                ctx.check(M_X_UNIT, True)
            ctx.observe('xsec:' + fmt)
            # ---- grids and orientation
            ok = ctx.check(M_X_GRID, tuple(np.shape(op.xsecGrid)) == (nP, nT, nwn) and len(op.wavenumberGrid) == nwn
                           and len(op.temperatureGrid) == nT and len(op.pressureGrid) == nP,
                           shape=list(np.shape(op.xsecGrid)), want=[nP, nT, nwn], format=fmt)
            if not ok:
                continue
            ctx.close(M_X_GRID, op.temperatureGrid, T, 0.0, axis='T', format=fmt)
            ctx.close(M_X_GRID, op.pressureGrid, P, 4e-16, axis='P[Pa]', format=fmt, unit=c['unit'])
            ctx.close(M_X_GRID, op.wavenumberGrid, wn, 4e-16 if fmt == 'exotransmit' else 0.0, axis='wn', format=fmt)
            # ---- values
            res = {}
            work = {}
            for cls, t, p in tq:
                corner = L.bracket_corner_max(T, P, x_si, t, p)
                for wcls, wg in wq:
                    if cls == 'node' and wcls != 'native':
                        continue
                    got = ask(ctx, op, t, p, wg, work)
                    cmax = corner if wcls == 'native' else np.full(len(wg), float(corner.max()))
                    res[(cls, t, p, wcls)] = (got, cmax)
                    if cls == 'node':
                        i, j = int(np.argmin(np.abs(P - p))), int(np.argmin(np.abs(T - t)))
                        _close(ctx, M_X_NODE, got, x_si[i, j], cmax, exo=(fmt == 'exotransmit'), format=fmt,
                               unit=c['unit'], node=[i, j])
            judge_subranges(ctx, M_X_SUB, res, np.asarray(op.wavenumberGrid, dtype=float), wq, format=fmt)
            results[fmt] = res
        ref = results.get('pickle')
        if ref is not None:
            for fmt, res in results.items():
                if fmt == 'pickle':
                    continue
                ctx.feature(format=fmt, against='pickle')
                for key, (got, cmax) in res.items():
                    ctx.observe('query:' + key[0])
                    if key[3] != 'native':
                        ctx.observe('query:wngrid')
                    _close(ctx, M_X_FMT, got, ref[key][0], cmax, exo=(fmt == 'exotransmit'), format=fmt, query=list(key[:3]),
                           wn=key[3])
        observed_only_xsec(ctx, rng, root, mol, wn, T, P, x)
        if len(results) >= 2:
            ctx.sig('xsec', nP, nT, nwn, stem, stem_h, unit, float(x[0, 0, 0]))
        ctx.sample({'kind': 'xsec', 'shape': [nP, nT, nwn], 'pickle': stem, 'hdf5': [stem_h, unit],
                    'exotransmit': [stem_e, order], 'molecule': mol, 'interpolation': mode,
                    'formats_served': sorted(results)})
    finally:
        end(ctx, root)


def observed_only_xsec(ctx, rng, root, mol, wn, T, P, x):
    """Classes that are recorded, not judged (see ASSUMPTIONS): an isotopologue string in the HDF5 mol_name dataset,
    and one directory holding the same molecule in all three containers."""
    from taurex.cache import OpacityCache
    iso = [s_ for s_, m in L.ISOTOPOLOGUES if m == mol and s_ != mol]
    if iso and rng.random() < 0.3:
        d = L.makedirs(root, 'hdf5-iso-molname')
        L.write_xsec_hdf5(os.path.join(d, mol + '.h5'), iso[0], wn, T, P, x, 'bar')
        world.reset_caches()
        OpacityCache().set_opacity_path(d)
        try:
            found = sorted(OpacityCache().find_list_of_molecules())
            OpacityCache()[mol]
            ctx.observe('observed-only:hdf5-mol_name-isotopologue:served-under-sanitised-name')
        except Exception as e:
            if type(e) is not Exception:
                raise
            ctx.observe('observed-only:hdf5-mol_name-isotopologue:listed-as-%s-not-served-as-sanitised'
                        % ('raw' if found == [iso[0]] else 'other'))
    if rng.random() < 0.3:
        d = L.makedirs(root, 'all-three')
        L.write_xsec_pickle(os.path.join(d, mol + '.pickle'), wn, T, P, x)
        L.write_xsec_hdf5(os.path.join(d, mol + '.h5'), mol, wn, T, P, x, 'bar')
        L.write_xsec_exotransmit(os.path.join(d, 'opac' + mol + '.dat'), wn, T, P, x)
        world.reset_caches()
        OpacityCache().set_opacity_path(d)
        mark = len(_log)
        op = OpacityCache()[mol]
        full = [e for e in _log[mark:] if e['ev'] == 'load' and e['full']]
        ctx.observe('observed-only:dup-formats:xsec:full-loads=%d:served=%s' % (len(full), type(op).__name__))


def observed_only_ktab(ctx, rng, root, mol, wn, T, P, k, w):
    from taurex.cache.ktablecache import KTableCache
    if rng.random() < 0.3:
        d = L.makedirs(root, 'both')
        L.write_ktable_pickle(os.path.join(d, mol + '.pickle'), mol, wn, T, P, k, w)
        L.write_ktable_hdf5(os.path.join(d, mol + '.h5'), wn, T, P, k, w, 'bar')
        world.reset_caches()
        KTableCache().set_ktable_path(d)
        mark = len(_log)
        op = KTableCache()[mol]
        full = [e for e in _log[mark:] if e['ev'] == 'load' and e['full']]
        ctx.observe('observed-only:dup-formats:ktab:full-loads=%d:served=%s' % (len(full), type(op).__name__))


def _close(ctx, monitor, got, want, cornermax, exo=False, **w):
    """|got - want| <= RTOL*|want| + CORNER*cornermax (+ EXO_ABS), elementwise, through the runner's close()."""
    got, want = np.asarray(got, dtype=float), np.asarray(want, dtype=float)
    if got.shape != want.shape:
        return ctx.close(monitor, got, want, RTOL, **w)
    allow = CORNER * np.broadcast_to(np.asarray(cornermax, dtype=float).reshape(
        np.shape(cornermax) + (1,) * (got.ndim - np.ndim(cornermax))), got.shape) + (EXO_ABS if exo else 0.0)
    resid = got - want
    rel = RTOL * np.abs(want)
    total = allow + rel
    with np.errstate(divide='ignore', invalid='ignore'):
        scaled = np.where(rel > 0, resid * rel / np.where(total > 0, total, 1.0),
                          np.where(np.abs(resid) <= allow, 0.0, resid))       # want == 0: inside the allowance or not
    return ctx.close(monitor, want + scaled, want, RTOL, worst_abs_diff=float(np.max(np.abs(resid))) if resid.size else 0.0,
                     **w)


# -------------------------------------------------------------- CIA formats
def draw_cia(rng, negatives, whole_block=False, near_ranges=False):
    blocks, exp = L.cia_physical_table(rng, interior_gap=whole_block, near_ranges=near_ranges)
    neg = {}
    if whole_block:
        # a deliberate class: EVERY entry of one block is negative (the whole block is floored to zero), and the block
        # is the lower neighbour of a temperature its range lacks - the row the reader interpolates there is half the
        # upper neighbour's, not zero
        own = sorted(t for gi, wn, t, sig in blocks if gi == exp['gapped'])
        missing = [t for t in exp['T'] if own[0] < t < own[-1] and float(t) not in own][0]
        below = max(t for t in own if t < missing)
        for bi, (gi, wn, t, sig) in enumerate(blocks):
            if gi == exp['gapped'] and t == below:
                for k in range(len(wn)):
                    neg[(bi, k)] = float(sig[k])
    if negatives:
        # entries the HITRAN text carries as negative numbers are zero in the physical table; the rows the reader
        # interpolates are derived from the floored values, so rebuild the expectation from floored blocks
        for bi, (gi, wn, t, sig) in enumerate(blocks):
            for k in range(len(wn)):
                if rng.random() < 0.15:
                    neg[(bi, k)] = float(sig[k])          # written as -|value|: a realistic magnitude
    if neg:
        blocks, exp = _refloor(blocks, exp, neg)
    return blocks, exp, neg


def _refloor(blocks, exp, neg):
    blocks = [(gi, wn, t, np.array(sig, dtype=float)) for gi, wn, t, sig in blocks]
    for bi, k in neg:
        blocks[bi][3][k] = 0.0
    temps = exp['T']
    groups = {}
    for gi, wn, t, sig in blocks:
        groups.setdefault(gi, {'wn': wn, 'rows': {}})['rows'][float(t)] = sig
    x = np.zeros_like(exp['x'])
    col = 0
    for gi in sorted(groups):
        g = groups[gi]
        n = len(g['wn'])
        own = np.array(sorted(g['rows']))
        for ti, t in enumerate(temps):
            t = float(t)
            if t in g['rows']:
                row = g['rows'][t]
            elif t < own.min() or t > own.max():
                row = np.zeros(n)
            else:
                j = int(np.searchsorted(own, t))
                t0, t1 = float(own[j - 1]), float(own[j])
                row = g['rows'][t0] + (g['rows'][t1] - g['rows'][t0]) * (t - t0) / (t1 - t0)
            x[ti, col:col + n] = row
        col += n
    return blocks, dict(exp, x=x[:, exp['order']])


def ramp_columns(exp, t):
    """Columns of the unified CIA table, at query temperature t, that belong to a wavenumber range whose own lowest
    temperature has TWO OR MORE temperatures of the file below it, with t strictly between the file's lowest
    temperature and that range's lowest: the necessary condition of C14/hitran-fill-range-grows."""
    T = exp['T']
    mask = np.zeros(len(exp['wn']), dtype=bool)
    for gi, (c0, c1, omin, omax) in enumerate(exp['groups']):
        if int(np.sum(T < omin)) >= 2 and T[0] < t < omin:
            mask[exp['col_group'] == gi] = True
    return mask


def cia_compare(ctx, monitor, exp, t, got, want, cmax, native, **w):
    """Judge one CIA result; elements inside the ramp region are judged in a separate, flagged evaluation."""
    mask = ramp_columns(exp, t)
    if not native:
        mask = np.full(len(got), bool(mask.any()))
    got, want, cmax = np.asarray(got, dtype=float), np.asarray(want, dtype=float), np.asarray(cmax, dtype=float)
    if native and exp.get('shared_wavenumber') and got.shape == want.shape == exp['wn'].shape:
        # two ranges share a wavenumber: both records are in the table; which of the two comes first is not stated
        # (it follows the block order of the file), so the records of a shared wavenumber are compared as a set
        got, want = got.copy(), want.copy()
        wn = exp['wn']
        for v in np.unique(wn[np.r_[False, wn[1:] == wn[:-1]]]):
            idx = np.where(wn == v)[0]
            got[idx], want[idx] = np.sort(got[idx]), np.sort(want[idx])
    if got.shape != want.shape:
        ctx.feature(hitran_ramp_region=False)
        return ctx.close(monitor, got, want, RTOL, **w)
    if (~mask).any():
        ctx.feature(hitran_ramp_region=False)
        _close(ctx, monitor, got[~mask], want[~mask], cmax[~mask], **w)
    if mask.any():
        ctx.observe('hitran:two-temperatures-below-a-range')
        ctx.feature(hitran_ramp_region=True)
        _close(ctx, monitor, got[mask], want[mask], cmax[mask], **w)
        ctx.feature(hitran_ramp_region=False)


def wl_cia(ctx, rng):
    from taurex.cache import CIACache
    root = begin(ctx)
    try:
        negatives = bool(rng.random() < 0.35)
        whole_block = ctx.case['index'] % 4 == 2
        near = ctx.case['index'] % 4 == 1
        blocks, exp, neg = draw_cia(rng, negatives, whole_block, near_ranges=near)
        if whole_block:
            ctx.observe('hitran:whole-block-negative-below-an-interpolated-temperature')
        if near:
            ctx.observe('hitran:two-ranges-a-hair-apart')
        if rng.random() < 0.5:
            order = rng.permutation(len(blocks))         # block order in the file is free
            remap = {int(o): n for n, o in enumerate(order)}
            neg = {(remap[bi], k): v for (bi, k), v in neg.items()}
            blocks = [blocks[int(o)] for o in order]
            ctx.observe('hitran:blocks-shuffled')
        pair = L.CIA_PAIRS[rng.integers(0, len(L.CIA_PAIRS))]
        suffix = ['', '_2011', '_eq', '_norm_2018'][rng.integers(0, 4)]
        if suffix:
            ctx.observe('name:suffix')
        if exp['partial']:
            ctx.observe('hitran:per-temperature-ranges')
        if neg:
            ctx.observe('hitran:negative-floored')
        ctx.observe('hitran:ranges=%d' % exp['ngroups'])
        ddb, dh = L.makedirs(root, 'db'), L.makedirs(root, 'hitran')
        L.write_cia_pickle(os.path.join(ddb, pair + suffix + '.db'), exp['wn'], exp['T'], exp['x'])
        L.write_cia_hitran(os.path.join(dh, pair + suffix + '.cia'), pair, blocks, negatives=neg)
        T, wn, x = exp['T'], exp['wn'], exp['x']
        colmax = np.max(np.abs(x), axis=0)
        qs = [('node', float(t)) for t in T]
        for _ in range(4):
            j = int(rng.integers(0, len(T) - 1))
            qs.append(('interior', float(T[j] + rng.uniform(0.05, 0.95) * (T[j + 1] - T[j]))))
        for j in range(1, len(T) - 1):       # a fraction of a kelvin above an interior node
            qs.append(('interior', float(T[j]) + float(rng.uniform(0.05, 0.9)) * min(1.0, 0.5 * float(T[j + 1] - T[j]))))
        qs += [('outside', float(T[0] * rng.uniform(0.2, 0.95))), ('outside', float(T[-1] * rng.uniform(1.05, 3.0)))]
        if ctx.case['index'] % 4 == 3:
            # a long history on one loaded table (it serves every layer of every evaluation of a retrieval): hundreds of
            # distinct temperatures, then temperatures it has served long before
            first = list(qs)
            nt = int(rng.integers(150, 300)) if ctx.tier == 'quick' else int(rng.integers(400, 2000))
            qs += [('interior', float(rng.uniform(T[0], T[-1]))) for _ in range(nt)]
            qs += [first[int(k)] for k in rng.integers(0, len(first), 6)]
            qs += [qs[int(k)] for k in rng.integers(0, len(qs), 14)]          # (from anywhere in the history)
            ctx.observe('history:hundreds-of-temperatures-then-earlier-ones-again')
        offgrid = np.sort(rng.uniform(wn[0] * 0.8, wn[-1] * 1.2, int(rng.integers(2, 12))))
        if exp.get('shared_wavenumber'):
            ctx.observe('hitran:ranges-share-a-wavenumber')
            # interpolating next to a doubled wavenumber depends on which of its two records comes first: not stated
            dup = np.unique(wn[np.r_[False, wn[1:] == wn[:-1]]])
            u = np.unique(wn)
            keep = np.ones(len(offgrid), dtype=bool)
            for v in dup:
                k = int(np.searchsorted(u, v))
                a = u[k - 1] if k > 0 else -np.inf
                b = u[k + 1] if k + 1 < len(u) else np.inf
                keep &= ~((offgrid > a) & (offgrid < b))
            offgrid = offgrid[keep]
            if len(offgrid) < 2:
                offgrid = np.array([wn[0] * 0.7, wn[0] * 0.75])
        results = {}
        for fmt, d in (('pickle', ddb), ('hitran', dh)):
            world.reset_caches()
            CIACache().set_cia_path(d)
            ctx.feature(format=fmt, pair=pair, suffix=suffix, db_and_cia_for_pair=False)
            try:
                obj = CIACache()[pair]
            except Exception as e:
                if type(e) is not Exception:
                    raise
                ctx.check(M_C_NAME, False, format=fmt, pair=pair, message=str(e)[:160])
                continue
            ctx.check(M_C_NAME, obj.pairName == pair and obj.pairOne == pair.split('-')[0]
                      and obj.pairTwo == pair.split('-')[1], served=obj.pairName, pair=pair, format=fmt)
            ctx.observe('cia:' + fmt)
            ok = ctx.check(M_C_GRID, len(obj.wavenumberGrid) == len(wn) and len(obj.temperatureGrid) == len(T),
                           nwn=len(obj.wavenumberGrid), nT=len(obj.temperatureGrid), want=[len(T), len(wn)], format=fmt)
            if not ok:
                continue
            ctx.close(M_C_GRID, obj.wavenumberGrid, wn, 0.0, axis='wn', format=fmt)
            ctx.close(M_C_GRID, obj.temperatureGrid, T, 0.0, axis='T', format=fmt)
            res = {}
            for cls, t in qs:
                got = np.array(obj.cia(t), dtype=float)
                res[(cls, t, 'native')] = (got, colmax)
                if cls == 'node':
                    cia_compare(ctx, M_C_NODE, exp, t, got, x[int(np.argmin(np.abs(T - t)))], 0.1 * colmax, True,
                                format=fmt, T=t)
                else:
                    got2 = np.array(obj.cia(t, offgrid), dtype=float)
                    res[(cls, t, 'offgrid')] = (got2, np.full(len(offgrid), float(colmax.max())))
            results[fmt] = res
        if len(results) == 2:
            ctx.feature(format='hitran', against='pickle')
            for key, (got, cm) in results['hitran'].items():
                ctx.observe('query:' + key[0])
                if key[2] != 'native':
                    ctx.observe('query:wngrid')
                cia_compare(ctx, M_C_FMT, exp, key[1], got, results['pickle'][key][0], 0.1 * cm, key[2] == 'native',
                            query=list(key))
            ctx.sig('cia', pair, suffix, len(T), len(wn), exp['ngroups'], float(x[0, 0]))
        ctx.sample({'kind': 'cia', 'pair': pair, 'suffix': suffix, 'T': len(T), 'wn': len(wn), 'ranges': exp['ngroups'],
                    'partial_temperature_coverage': bool(exp['partial']), 'negatives': len(neg)})
    finally:
        end(ctx, root)


# ---------------------------------------------------------- k-table formats
def draw_ktable(rng):
    nP, nT, nwn, ng = int(rng.integers(2, 6)), int(rng.integers(2, 7)), int(rng.integers(3, 16)), \
        int([1, 2, 3, 4, 8][rng.integers(0, 5)])
    wn = L.wn_grid(rng, nwn)
    T, P = L.tp_grids(rng, nP, nT)
    k = L.xsec_table(rng, nP, nT, nwn)[..., None] * 10 ** (np.sort(rng.uniform(-1.5, 1.5, ng))
                                                           + rng.normal(0, 0.1, (nP, nT, nwn, ng)))
    w = rng.dirichlet(np.ones(ng)) if ng > 1 else np.array([1.0])
    return wn, T, P, k, w


def wl_ktab(ctx, rng):
    from taurex.cache import OpacityCache
    from taurex.cache.ktablecache import KTableCache
    root = begin(ctx)
    try:
        wn, T, P, k, w = draw_ktable(rng)
        nP, nT, nwn, ng = k.shape
        mode = ['linear', 'exp'][rng.integers(0, 2)]
        ctx.observe('interp:' + mode)
        stem, mol = draw_name(rng)
        observe_name(ctx, stem, mol)
        stem_h = alt_name(rng, mol)
        observe_name(ctx, stem_h, mol)
        allu = XSEC_UNITS_NATIVE + UNITS_CDS_ONLY
        unit = allu[rng.integers(0, len(allu))]
        dp, dh = L.makedirs(root, 'pickle'), L.makedirs(root, 'hdf5')
        L.write_ktable_pickle(os.path.join(dp, stem + ['.pickle', '.R100.ktable.pickle'][rng.integers(0, 2)]), mol, wn,
                              T, P, k, w)
        L.write_ktable_hdf5(os.path.join(dh, stem_h + ['.h5', '.hdf5'][rng.integers(0, 2)]), wn, T, P, k, w, unit)
        tq = tp_queries(rng, T, P)
        wq = wn_queries(rng, wn)
        k_si = k * 1e-4
        results = {}
        for fmt, d, st, un in (('pickle', dp, stem, 'bar'), ('hdf5', dh, stem_h, unit)):
            world.reset_caches()
            OpacityCache().set_interpolation(mode)       # the global interpolation setting, read by k-table discovery
            KTableCache().set_ktable_path(d)
            ctx.feature(format='ktab-' + fmt, unit=un, stem=st, molecule=mol, interpolation=mode)
            if fmt == 'hdf5':
                ctx.observe('ktab-unit:' + un)
            found = set(KTableCache().find_list_of_molecules())
            try:
                op = KTableCache()[mol]
            except Exception as e:
                if type(e) is not Exception or 'could not be loaded' not in str(e):
                    raise
                ctx.check(M_K_NAME, False, stem=st, molecule=mol, discovered=sorted(found), format=fmt)
                continue
            ctx.check(M_K_NAME, mol in found and op.moleculeName == mol, stem=st, molecule=mol,
                      discovered=sorted(found), served_name=op.moleculeName, format=fmt)
            ctx.observe('ktab:' + fmt)
            ok = ctx.check(M_K_GRID, tuple(np.shape(op.xsecGrid)) == (nP, nT, nwn, ng) and len(op.weights) == ng,
                           shape=list(np.shape(op.xsecGrid)), want=[nP, nT, nwn, ng], format=fmt)
            if not ok:
                continue
            ctx.close(M_K_GRID, op.temperatureGrid, T, 0.0, axis='T', format=fmt)
            ctx.close(M_K_GRID, op.pressureGrid, P, 4e-16, axis='P[Pa]', format=fmt, unit=un)
            ctx.close(M_K_GRID, op.wavenumberGrid, wn, 0.0, axis='wn', format=fmt)
            ctx.close(M_K_GRID, op.weights, w, 0.0, axis='weights', format=fmt)
            res = {}
            work = {}
            for cls, t, p in tq:
                corner = L.bracket_corner_max(T, P, k_si, t, p)            # [nwn, ng]
                for wcls, wg in wq:
                    if cls == 'node' and wcls != 'native':
                        continue
                    got = ask(ctx, op, t, p, wg, work)
                    cmax = corner if wcls == 'native' else np.full((len(wg), ng), float(corner.max()))
                    res[(cls, t, p, wcls)] = (got, cmax)
                    if cls == 'node':
                        i, j = int(np.argmin(np.abs(P - p))), int(np.argmin(np.abs(T - t)))
                        _close(ctx, M_K_NODE, got, k_si[i, j], cmax, format=fmt, unit=un, node=[i, j])
            judge_subranges(ctx, M_X_SUB, res, np.asarray(op.wavenumberGrid, dtype=float), wq, format='ktab-' + fmt)
            results[fmt] = res
        observed_only_ktab(ctx, rng, root, mol, wn, T, P, k, w)
        if len(results) == 2:
            ctx.feature(format='ktab-hdf5', against='ktab-pickle')
            for key, (got, cmax) in results['hdf5'].items():
                ctx.observe('query:' + key[0])
                _close(ctx, M_K_FMT, got, results['pickle'][key][0], cmax, query=list(key[:3]), wn=key[3], unit=unit)
            ctx.sig('ktab', nP, nT, nwn, ng, stem, stem_h, unit, float(k[0, 0, 0, 0]))
        ctx.sample({'kind': 'ktab', 'shape': [nP, nT, nwn, ng], 'pickle': stem, 'hdf5': [stem_h, unit],
                    'molecule': mol, 'interpolation': mode})
    finally:
        end(ctx, root)


# ------------------------------------------------------------------ histories
def probe_refs(T, P, table, t, p):
    """Reference values at an interior point for the two documented modes: 'linear' = bilinear in (T, log10 P);
    'exp' = linear in log10 P at the two bracketing temperatures, then a*exp(Tmax*(Tmin-T)/(T*(Tmax-Tmin))*ln(a/b))
    between them (the order the reader documents: "linear interpolation across P and e interpolation across T")."""
    lp, q = np.log10(P), float(np.log10(p))
    j = int(np.searchsorted(T, t))
    i = int(np.searchsorted(lp, q))
    s = (q - lp[i - 1]) / (lp[i] - lp[i - 1])
    a = table[i - 1, j - 1] + (table[i, j - 1] - table[i - 1, j - 1]) * s      # at Tmin
    b = table[i - 1, j] + (table[i, j] - table[i - 1, j]) * s                  # at Tmax
    Tmin, Tmax = float(T[j - 1]), float(T[j])
    lin = a + (b - a) * (t - Tmin) / (Tmax - Tmin)
    with np.errstate(all='ignore'):
        ex = a * np.exp(Tmax * (Tmin - t) / (t * (Tmax - Tmin)) * np.log(a / b))
    return np.asarray(lin, dtype=float), np.asarray(ex, dtype=float)


def mode_probe(T, P, table, rng):
    """An interior (T, P) point and the two reference values there; table in SI."""
    j = int(rng.integers(0, len(T) - 1))
    i = int(rng.integers(0, len(P) - 1))
    t = float(T[j] + rng.uniform(0.3, 0.7) * (T[j + 1] - T[j]))
    lp = np.log10(P)
    p = float(10 ** (lp[i] + rng.uniform(0.2, 0.8) * (lp[i + 1] - lp[i])))
    lin, ex = probe_refs(T, P, table, t, p)
    return t, p, lin, ex


def decide_mode(got, lin, ex):
    """Which reference the served object reproduces (to 1e-9 of the larger reference): 'linear', 'exp', 'both', None."""
    scale = np.maximum(np.abs(lin), np.abs(ex))
    is_lin = bool(np.all(np.abs(got - lin) <= 1e-9 * scale + 1e-58))
    is_ex = bool(np.all(np.abs(got - ex) <= 1e-9 * scale + 1e-58))
    if is_lin and is_ex:
        return 'both'
    return 'linear' if is_lin else ('exp' if is_ex else None)


def segments(log):
    """Split the event log into requests: [(req-begin index, req-end event, events inside)]."""
    out, cur = [], None
    for e in log:
        if e['ev'] == 'req-begin':
            cur = []
        elif e['ev'] == 'req-end':
            out.append((e, cur or []))
            cur = None
        elif cur is not None:
            cur.append(e)
    return out


def check_request(ctx, kind, key, served, expect_file, inside, end_ev, judged=True):
    """One request against the reference model.  served: dict key -> object already served since the last
    (re)configuration.  Returns the served object (or None)."""
    obj = end_ev['obj']
    full = [e for e in inside if e['ev'] == 'load' and e['full'] and e['kind'] == kind]
    opens = [e for e in inside if e['ev'] in ('open', 'h5open')]
    if obj is not None:
        _keep.append(obj)
    if not judged:
        return obj
    if key in served:
        ctx.check(M_H_ONCE, obj is served[key] and len(full) == 0 and len(opens) == 0, key=key, stage='repeat',
                  same_object=obj is served[key], full_loads=len(full), opens=len(opens))
    else:
        files = [e['file'] for e in full]
        ctx.check(M_H_ONCE, obj is not None and len(full) == 1 and all(obj is not o for o in _keep[:-1]), key=key,
                  stage='first', full_loads=len(full), files=[os.path.basename(f) for f in files],
                  new_object=all(obj is not o for o in _keep[:-1]))
        ctx.check(M_H_PATH, files == [expect_file] and (not full or full[0]['obj'] is obj), key=key,
                  loaded=[f for f in files], expected=expect_file)
    return obj


def wl_hist_xsec(ctx, rng):
    from taurex.cache import OpacityCache, GlobalCache
    root = begin(ctx)
    try:
        ctx.observe('hist:xsec')
        nm = int(rng.integers(1, 4))
        names = []
        while len(names) < nm:
            stem, mol = draw_name(rng)
            if mol not in [m for _, m in names]:
                names.append((stem, mol))
        dirs = {'A': L.makedirs(root, 'A'), 'B': L.makedirs(root, 'B')}
        tables, files = {}, {}
        for stem, mol in names:
            nP, nT, nwn = int(rng.integers(2, 5)), int(rng.integers(2, 5)), int(rng.integers(3, 10))
            wn = L.wn_grid(rng, nwn)
            T, P = L.tp_grids(rng, nP, nT)
            fmt = ['pickle', 'hdf5', 'exotransmit'][rng.integers(0, 3)]
            for dk, scale in (('A', 1.0), ('B', float(rng.uniform(2.0, 50.0)))):
                x = L.xsec_table(np.random.default_rng(int(rng.integers(0, 2 ** 31))), nP, nT, nwn) * scale
                if fmt == 'pickle':
                    fn = os.path.join(dirs[dk], stem + '.R100.pickle')
                    L.write_xsec_pickle(fn, wn, T, P, x)
                elif fmt == 'hdf5':
                    fn = os.path.join(dirs[dk], stem + '.h5')
                    L.write_xsec_hdf5(fn, mol, wn, T, P, x, XSEC_UNITS_NATIVE[rng.integers(0, 4)])
                else:
                    fn = os.path.join(dirs[dk], 'opac' + mol + '.dat')
                    L.write_xsec_exotransmit(fn, wn, T, P, x)
                tables[(dk, mol)] = (T, P, x * 1e-4)
                files[(dk, mol)] = fn
            ctx.observe('hist-xsec:' + fmt)
        probes = {}
        for (dk, mol), (T, P, xs) in tables.items():
            probes[(dk, mol)] = mode_probe(T, P, xs, rng) if dk == 'A' else None
        for (dk, mol) in list(probes):
            if dk == 'B':       # same (T,P) point, directory B's numbers
                t, p = probes[('A', mol)][:2]
                T, P, xs = tables[(dk, mol)]
                probes[(dk, mol)] = (t, p) + probe_refs(T, P, xs, t, p)
        # ---- the history
        OpacityCache().set_opacity_path(dirs['A'])
        state = {'dir': 'A', 'mode': 'linear', 'served': {}, 'since': 0}
        mols = [m for _, m in names]
        nops = int(rng.integers(6, 17))
        ops = []
        while len(ops) < nops:
            r = rng.random()
            if r < 0.55:
                ops.append(('req', mols[rng.integers(0, len(mols))]))
            elif r < 0.65:
                m = mols[rng.integers(0, len(mols))]
                ops.extend([('req', m)] * int(rng.integers(3, 5)))
            elif r < 0.75:
                ops.append(('clear_cache', None))
            elif r < 0.88:
                ops.append(('set_interpolation', ['linear', 'exp'][rng.integers(0, 2)]))
            elif r < 0.94:
                ops.append(('set_memory_mode', bool(rng.integers(0, 2))))
            else:
                ops.append(('set_path', ['A', 'B'][rng.integers(0, 2)]))
        run_len, last = 0, None
        nreq = 0
        for op, arg in ops:
            mark = len(_log)
            if op == 'req':
                obj = OpacityCache()[arg]
                nreq += 1
                (end_ev, inside), = segments(_log[mark:])
                check_request(ctx, 'xsec', arg, state['served'], files[(state['dir'], arg)], inside, end_ev)
                state['served'][arg] = obj
                run_len = run_len + 1 if last == arg else 1
                last = arg
                if run_len >= 3:
                    ctx.observe('hist:repeat>=3')
                # what does the served object hold / how does it interpolate?
                t, p, lin, ex = probes[(state['dir'], arg)]
                got = np.array(obj.opacity(t, p), dtype=float)
                informative = bool(np.any(np.abs(lin - ex) > 1e-6 * np.maximum(np.abs(lin), np.abs(ex))))
                decided = decide_mode(got, lin, ex)
                ctx.feature(history=[o for o, _ in ops], key=arg, configured_mode=state['mode'], decided=decided,
                            directory=state['dir'])
                ctx.check(M_H_VAL, decided is not None, key=arg, directory=state['dir'], got=got[:4], lin=lin[:4], ex=ex[:4])
                if informative and decided is not None:
                    ctx.observe('interp:' + state['mode'])
                    ctx.check(M_H_INTERP, decided == state['mode'], key=arg, configured=state['mode'], behaves=decided)
                else:
                    ctx.event('domain-skip:modes-indistinguishable')
                if getattr(obj, 'in_memory', None) is not None:
                    ctx.observe('hdf5:in_memory=%s|configured=%s' % (obj.in_memory, GlobalCache()['xsec_in_memory']))
            else:
                ctx.observe('op:' + op)
                last, run_len = None, 0
                if op == 'clear_cache':
                    OpacityCache().clear_cache()
                elif op == 'set_interpolation':
                    OpacityCache().set_interpolation(arg)
                    state['mode'] = arg
                elif op == 'set_memory_mode':
                    OpacityCache().set_memory_mode(arg)
                elif op == 'set_path':
                    OpacityCache().set_opacity_path(dirs[arg])
                    OpacityCache().clear_cache()
                    state['dir'] = arg
                state['served'] = {}
        if nreq >= 3:
            ctx.sig('hist-xsec', tuple(ops), tuple(mols))
        ctx.sample({'kind': 'hist-xsec', 'molecules': mols, 'ops': [o if a is None else '%s(%s)' % (o, a) for o, a in ops]})
    finally:
        end(ctx, root)


def wl_hist_cia(ctx, rng):
    from taurex.cache import CIACache
    root = begin(ctx)
    try:
        ctx.observe('hist:cia')
        d = L.makedirs(root, 'cia')
        npairs = int(rng.integers(1, 4))
        pairs = [str(p) for p in rng.choice(L.CIA_PAIRS, npairs, replace=False)]
        both = pairs[rng.integers(0, npairs)] if rng.random() < 0.4 else None
        files, exps = {}, {}
        for pair in pairs:
            blocks, exp, neg = draw_cia(rng, False)
            exps[pair] = exp
            fmts = ['db', 'cia'] if pair == both else [['db', 'cia'][rng.integers(0, 2)]]
            for f in fmts:
                fn = os.path.join(d, pair + ['', '_2011'][rng.integers(0, 2)] + '.' + f)
                if f == 'db':
                    L.write_cia_pickle(fn, exp['wn'], exp['T'], exp['x'])
                else:
                    L.write_cia_hitran(fn, pair, blocks)
                files.setdefault(pair, {})[f] = fn
        CIACache().set_cia_path(d)
        served = {}
        ops = []
        while len(ops) < int(rng.integers(4, 12)):
            p = pairs[rng.integers(0, npairs)]
            ops.extend([p] * int(rng.choice([1, 1, 3, 4])))
        run_len, last, nreq = 0, None, 0
        broken = set()
        for pair in ops:
            mark = len(_log)
            is_both = pair == both
            if is_both:
                ctx.observe('cia:db+cia-same-pair')
            try:
                obj = CIACache()[pair]
                exc = None
            except Exception as e:
                if type(e) is not Exception:
                    raise
                obj, exc = None, e
            nreq += 1
            (end_ev, inside), = segments(_log[mark:])
            first = pair not in served and pair not in broken
            if first:
                ctx.feature(pair=pair, db_and_cia_for_pair=bool(is_both), exception=None if exc is None else 'Exception',
                            message=None if exc is None else str(exc)[:120], files=sorted(files[pair]))
                # the class docstring: .db and .cia are loaded automatically, priority given to .db
                want_cls = 'PickleCIA' if 'db' in files[pair] else 'HitranCIA'
                ok = ctx.check(M_CIA_FIRST, exc is None and type(obj).__name__ == want_cls, pair=pair,
                               served=type(obj).__name__ if obj is not None else None, want=want_cls,
                               raised=None if exc is None else str(exc)[:120])
                if not ok:
                    broken.add(pair)
                    continue
            if pair in broken:
                ctx.event('after-failed-first-request')
                continue
            expect = files[pair]['db'] if 'db' in files[pair] else files[pair]['cia']
            check_request(ctx, 'cia', pair, served, expect, inside, end_ev)
            served[pair] = obj
            run_len = run_len + 1 if last == pair else 1
            last = pair
            if run_len >= 3:
                ctx.observe('hist:repeat>=3')
            exp = exps[pair]
            j = int([0, len(exp['T']) - 1][rng.integers(0, 2)])      # end nodes: never inside a ramp region
            _close(ctx, M_H_VAL, obj.cia(float(exp['T'][j])), exp['x'][j], 0.1 * np.max(np.abs(exp['x']), axis=0), pair=pair)
        if nreq >= 3:
            ctx.sig('hist-cia', tuple(ops), both)
        ctx.sample({'kind': 'hist-cia', 'pairs': pairs, 'db_and_cia': both, 'requests': ops})
    finally:
        end(ctx, root)


def wl_hist_ktab(ctx, rng):
    from taurex.cache import OpacityCache
    from taurex.cache.ktablecache import KTableCache
    root = begin(ctx)
    try:
        ctx.observe('hist:ktab')
        d = L.makedirs(root, 'ktab')
        nm = int(rng.integers(1, 3))
        names = []
        while len(names) < nm:
            stem, mol = draw_name(rng)
            if mol not in [m for _, m in names]:
                names.append((stem, mol))
        tables, files, probes = {}, {}, {}
        for stem, mol in names:
            wn, T, P, k, w = draw_ktable(rng)
            fmt = ['pickle', 'hdf5'][rng.integers(0, 2)]
            if fmt == 'pickle':
                fn = os.path.join(d, stem + '.R100.pickle')
                L.write_ktable_pickle(fn, mol, wn, T, P, k, w)
            else:
                fn = os.path.join(d, stem + '.h5')
                L.write_ktable_hdf5(fn, wn, T, P, k, w, (XSEC_UNITS_NATIVE + UNITS_CDS_ONLY)[rng.integers(0, 9)])
            files[mol] = fn
            tables[mol] = (T, P, k * 1e-4)
            probes[mol] = mode_probe(T, P, k * 1e-4, rng)
            ctx.observe('hist-ktab:' + fmt)
        KTableCache().set_ktable_path(d)
        mols = [m for _, m in names]
        state = {'mode': 'linear', 'served': {}, 'maybe': set(), 'mode_at_load': {}, 'objs': {}}
        ops = []
        while len(ops) < int(rng.integers(6, 15)):
            r = rng.random()
            if r < 0.55:
                ops.append(('req', mols[rng.integers(0, len(mols))]))
            elif r < 0.65:
                ops.extend([('req', mols[rng.integers(0, len(mols))])] * int(rng.integers(3, 5)))
            elif r < 0.78:
                ops.append(('clear_cache', None))
            else:
                ops.append(('set_interpolation', ['linear', 'exp'][rng.integers(0, 2)]))
        run_len, last, nreq = 0, None, 0
        for op, arg in ops:
            mark = len(_log)
            if op == 'req':
                obj = KTableCache()[arg]
                nreq += 1
                (end_ev, inside), = segments(_log[mark:])
                prev = state['objs'].get(arg)
                if arg in state['served']:
                    check_request(ctx, 'ktab', arg, state['served'], files[arg], inside, end_ev)
                elif arg in state['maybe']:
                    # after a change of the global interpolation mode the statement fixes the BEHAVIOUR of what is
                    # served, not whether it is a reloaded object: same object without a load, or one fresh load
                    full = [e for e in inside if e['ev'] == 'load' and e['full'] and e['kind'] == 'ktab']
                    ctx.check(M_H_ONCE, (obj is prev and not full) or (obj is not prev and len(full) == 1), key=arg,
                              stage='after-mode-change', same_object=obj is prev, full_loads=len(full))
                    _keep.append(obj)
                else:
                    check_request(ctx, 'ktab', arg, state['served'], files[arg], inside, end_ev)
                if obj is not prev:
                    state['mode_at_load'][arg] = state['mode']
                state['served'][arg] = obj
                state['maybe'].discard(arg)
                state['objs'][arg] = obj
                run_len = run_len + 1 if last == arg else 1
                last = arg
                if run_len >= 3:
                    ctx.observe('hist:repeat>=3')
                t, p, lin, ex = probes[arg]
                got = np.array(obj.opacity(t, p), dtype=float)
                informative = bool(np.any(np.abs(lin - ex) > 1e-6 * np.maximum(np.abs(lin), np.abs(ex))))
                decided = decide_mode(got, lin, ex)
                ctx.feature(history=[o for o, _ in ops], key=arg, configured_mode=state['mode'], decided=decided,
                            mode_changed_since_load=bool(state['mode_at_load'][arg] != state['mode']),
                            same_object_as_before=bool(obj is prev),
                            matches_mode_at_load=bool(decided == state['mode_at_load'][arg]))
                ctx.check(M_H_VAL, decided is not None, key=arg, got=got.ravel()[:4], lin=lin.ravel()[:4], ex=ex.ravel()[:4])
                if informative and decided is not None:
                    ctx.observe('interp:' + state['mode'])
                    ctx.check(M_HK_INTERP, decided == state['mode'], key=arg, configured=state['mode'], behaves=decided,
                              mode_at_load=state['mode_at_load'][arg])
                else:
                    ctx.event('domain-skip:modes-indistinguishable')
            else:
                ctx.observe('op:' + op)
                last, run_len = None, 0
                if op == 'clear_cache':
                    KTableCache().clear_cache()
                    state['served'] = {}
                    state['maybe'] = set()
                else:
                    OpacityCache().set_interpolation(arg)      # the one public switch of the interpolation mode
                    # (re)setting the mode may or may not drop what was served (the cross-section cache always does)
                    state['maybe'] = set(state['served']) | state['maybe']
                    state['served'] = {}
                    state['mode'] = arg
        if nreq >= 3:
            ctx.sig('hist-ktab', tuple(ops), tuple(mols))
        ctx.sample({'kind': 'hist-ktab', 'molecules': mols, 'ops': [o if a is None else '%s(%s)' % (o, a) for o, a in ops]})
    finally:
        end(ctx, root)


WORKLOADS = {'xsec': wl_xsec, 'cia': wl_cia, 'ktab': wl_ktab, 'hist_xsec': wl_hist_xsec, 'hist_cia': wl_hist_cia,
             'hist_ktab': wl_hist_ktab}

LEVEL_TEXT = ('Exploration by runtime monitoring: one random physical table per case is written into every supported '
              'container (cross-sections: pickle, HDF5 with a declared pressure unit, Exo-Transmit text; CIA: pickle, '
              'HITRAN text with per-temperature wavenumber ranges and negative entries; k-tables: pickle, HDF5), found '
              'by discovery under isotopologue / suffixed file names and served by the real caches; grids, axis '
              'orientation, molecule identity and the values at nodes (against the table in SI units) and at interior '
              'and outside points (across containers) are compared to 1e-12.  Random histories of cache operations are '
              'recorded by an audit hook (open), a tap on h5py.File and taps on the loaders and caches; an offline '
              'checker with a reference model of the cache decides "loaded once, same object thereafter, from the '
              'configured path" and the interpolation mode of every served object is decided by querying it where the '
              'modes differ.  Held = held on the recorded executions.')
LEVEL_NOTE = ('Trusted: the writers in vmon/lib_c14.py (units as each reader documents them), probe_refs() for the '
              'mode probe.  The interpolation itself is shared by all containers and is C04\'s subject; Exo-Transmit\'s '
              'pressure unit (bar) is an assumption.')
TECHNIQUE = ('audit hook + taps on h5py.File, loader _load_* methods and cache methods (event log, offline reference-model '
             'checker) + cross-container comparison of the served tables')
