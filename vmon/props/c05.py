"""C05 -- spectral binning is an overlap-weighted mean of the native spectrum.

Monitors
  * tap on FluxBinner.__init__ (declared target centres/widths, recorded on the instance) and on
    FluxBinner.bindown: EVERY execution (direct, through bin_model, through a real forward model) is
    judged by an independent reference (refmodel.overlap_mean + a quadrature loop) computed from the
    arguments only -- never from the binner's private state.
  * tap on SimpleBinner.bindown (plain mean of the native points between target mid-points),
    NativeBinner.bindown (arguments returned unchanged); bin_model of every binner judged by value
    (equals bindown(model_output[0], model_output[1]) of a fresh binner of the same declaration).
  * workload-level metamorphic relations: constant -> constant, linearity, invariance under permutation
    of native rows (values, widths, errors permuted together) and of target rows (compared as a map
    centre -> value).

Tolerances (derived)
  explicit widths: the bins c -+ w/2 are formed with the same two floating-point operations by the code
  and by the reference, so weights agree to a few ulp: rtol 1e-12 on the value plus 1e-13*max|f|
  (cancellation for mixed-sign spectra).
  mid-point derived widths: (a+b)/2 and a+(b-a)/2 may differ by an ulp of the wavenumber, i.e. the edges
  move by d <= 4*eps*c_max, which changes a bin's value by at most d/sum(overlap)*span(f); the absolute
  tolerance of such a bin is 16*eps*c_max/sum(overlap)*max|f| (a few 1e-12 for R ~ 1e4, 1e-14 for R ~ 100).
"""
import numpy as np

from vmon import own
from vmon import contracts, taps, world
from vmon import refmodel as R

PROPERTY = 'C05'
RULE = ('native grids from a seeded generator: constant-R, linear, logarithmic (mid-point derived widths), '
        'explicit widths from ordered edges (contiguous, with gaps, constant-R c/R widths, scalar width); 2..300 '
        'points, 30..1e4 cm-1; target grids assembled from pieces: nested unions of native bins, wider, narrower '
        'than one native bin, mutually overlapping, with gaps, partly/wholly outside the native range, touching '
        'it in one point, mid-point derived and scalar widths; 1-D and 2-D spectra (1..6 rows), with/without '
        'errors, sorted and shuffled native and target rows; a case is non-trivial when at least one target bin '
        'with positive overlap was judged; distinct = distinct (native kind, n, target kinds, K, ndim, error) tuples')
ASSUMPTIONS = [
    'a native bin is [c - w/2, c + w/2] (the interface takes centres and full widths); "ordered" is checked as: '
    'lower edges and upper edges both strictly increasing.  Constant-R / logarithmic grids with mid-point '
    'derived or c/R widths are named by the quantifier although their c -+ w/2 bins overlap the neighbour by a '
    'second/third-order sliver; they are judged with exactly those bins (class native:sliver-overlap)',
    'target bins that overlap no native bin are generated but not judged (the statement is silent)',
    'SimpleBinner: target grid ascending (np.histogram requires it; order independence is stated for the '
    'overlap-weighted binner); cases with a native point within 1e-9 (relative) of a mid-point edge are out of '
    'domain because the statement does not say to which side an edge point belongs; empty bins are not judged',
    'a 1-D error array given with a 2-D spectrum may be returned as (K,) or broadcast to every row',
]
_Q = {'flux': 1500, 'flux2derr': 150, 'simple': 1000, 'native': 400}
_T = {'flux': 4000, 'flux2derr': 300, 'simple': 2500, 'native': 800}
BUDGET = {
    'quick': [dict(name='main', env={}, shards=8, cases=_Q),
              dict(name='model', env={'NUMBA_BOUNDSCHECK': '1'}, shards=1, cases={'model': 25})],
    'thorough': [dict(name='main', env={}, shards=16, cases=_T),
                 dict(name='model', env={'NUMBA_BOUNDSCHECK': '1'}, shards=4, cases={'model': 100})],
}
REQUIRED = dict(
    monitors=['flux:overlap-mean', 'flux:error-quadrature', 'flux:within-overlapping-minmax', 'flux:grid',
              'flux:constant-stays-constant', 'flux:linearity', 'flux:native-order-invariance',
              'flux:target-order-invariance', 'simple:plain-mean', 'native:unchanged', 'bin_model:equals-bindown-of-grid-and-spectrum',
              'caller-input-left-alone', 'earlier-result-stays-as-returned'],
    classes=['native:constR', 'native:linear', 'native:log', 'native:edges', 'native:edges-gaps', 'native:res-widths',
             'native:scalar-width', 'native-widths:derived', 'native-widths:nonuniform-array',
             'target:nested', 'target:wide', 'target:narrow', 'target:overlapping', 'target:gaps',
             'target:partly-outside', 'target:outside', 'target:derived', 'target:scalar',
             'bin:wider-than-native', 'bin:narrower-than-native', 'bin:partly-outside', 'bin:no-overlap',
             'bin:targets-overlap-each-other', 'bin:spans-native-gap',
             'ndim:1', 'ndim:2', 'error:yes', 'error:no', 'native-order:shuffled', 'target-order:shuffled',
             'call:2d-with-error', 'route:bin_model', 'route:forward-model', 'same-binner:narrower-widths',
             'same-binner:derived-widths', 'same-binner:other-grid-same-length', 'same-binner:first-again', 'same-binner:dozens-of-native-grids-earlier-ones-again', 'spectrum-dtype:integer', 'spectrum-dtype:single-precision', 'spectrum-dtype:big-endian',
             'same-binner:other-spacing-same-ends-new-binner', 'same-binner:same-arrays-refilled-in-place', 'target:integer-centres',
             'bin_model:again:same', 'bin_model:again:other-spacing', 'bin_model:again:shuffled', 'bin_model:again:other-spectrum'])
EPS = float(np.finfo(float).eps)
RTOL = 1e-12

_state = {'calls': [], 'last': None, 'ctx': None}

VALUE_MONITORS = ('flux:overlap-mean', 'flux:error-quadrature', 'flux:within-overlapping-minmax',
                  'flux:native-order-invariance', 'flux:constant-stays-constant', 'flux:linearity',
                  'flux:no-exception', 'flux:result-shape')


def classify(f):
    """Known mechanisms, recognised from the NECESSARY conditions of the failing bindown call (its flags are
    measured by the tap from the arguments): never from values."""
    w = f.get('witness') or {}
    call = w.get('call') or (f.get('features') or {}).get('last_call') or {}
    mon = f.get('monitor')
    if call.get('binner') != 'FluxBinner':
        return None
    if call.get('spectrum_ndim') == 2 and call.get('has_error'):
        if mon in ('flux:error-quadrature', 'flux:result-shape'):
            return 'C05/2d-with-error'
        if mon in ('flux:no-exception', 'no-unlicensed-exception') and \
                w.get('exception') in ('IndexError', 'ValueError') and 'bin_error[idx]' in (w.get('traceback') or ''):
            return 'C05/2d-with-error'
        return None
    if call.get('native_sorted') is False and call.get('native_widths') == 'nonuniform-array' \
            and mon in VALUE_MONITORS and mon != 'flux:no-exception':
        return 'C05/native-width-not-sorted'
    return None


# ------------------------------------------------------------ reference side
def midpoint_widths(c):
    """Full widths 'derived from neighbouring mid-points' of an ascending grid (>= 2 points)."""
    c = np.asarray(c, dtype=float)
    e = np.empty(len(c) + 1)
    e[1:-1] = 0.5 * (c[1:] + c[:-1])
    e[0] = c[0] - 0.5 * (c[1] - c[0])
    e[-1] = c[-1] + 0.5 * (c[-1] - c[-2])
    return np.abs(np.diff(e))


def as_bins(c, w):
    """Rows (c_i, w_i) in any order -> (order, ascending centres, widths attached to their centres, kind)."""
    c = np.asarray(c, dtype=float)
    order = np.argsort(c, kind='stable')
    cs = c[order]
    if w is None:
        return order, cs, (midpoint_widths(cs) if len(cs) >= 2 else None), 'derived'
    if np.ndim(w) == 0:
        return order, cs, np.full(len(cs), float(w)), 'scalar'
    w = np.asarray(w, dtype=float)
    if w.shape != c.shape:
        return order, cs, None, 'bad-shape'
    return order, cs, w[order], ('uniform-array' if np.all(w == w.flat[0]) else 'nonuniform-array')


def quadrature(nlo, nhi, err, tlo, thi):
    """sqrt(sum (ov_i e_i)^2) / sum ov_i per target bin; err[..., n]."""
    K = len(tlo)
    out = np.full(err.shape[:-1] + (K,), np.nan)
    for k in range(K):
        ov = np.minimum(nhi, thi[k]) - np.maximum(nlo, tlo[k])
        ov = np.where(ov > 0, ov, 0.0)
        s = ov.sum()
        if s > 0:
            out[..., k] = np.sqrt(((ov * err) ** 2).sum(axis=-1)) / s
    return out


def call_flags(binner, wngrid, spectrum, grid_width, error):
    wn = np.asarray(wngrid, dtype=float)
    if grid_width is None:
        wk = 'derived'
    elif np.ndim(grid_width) == 0:
        wk = 'scalar'
    else:
        g = np.asarray(grid_width, dtype=float)
        wk = 'uniform-array' if g.size and np.all(g == g.flat[0]) else 'nonuniform-array'
    return {'binner': binner, 'native_sorted': bool(np.all(np.diff(wn) > 0)), 'native_widths': wk,
            'spectrum_ndim': int(np.ndim(spectrum)), 'has_error': error is not None,
            'error_ndim': None if error is None else int(np.ndim(error)), 'n_native': int(wn.size)}


# -------------------------------------------------------------- flux oracle
def rt_of(*arrays):
    """Relative tolerance of a comparison: 1e-12, or single-precision rounding when a spectrum / error array was handed over
    in single precision (arithmetic on float32 input may legitimately be done in float32)."""
    for a in arrays:
        if a is not None and getattr(a, 'dtype', None) is not None and a.dtype.kind == 'f' and a.dtype.itemsize <= 4:
            return 1e-5
    return RTOL


def judge_flux(ctx, decl, call, res):
    """Decide one FluxBinner.bindown execution from its arguments and the declared target grid."""
    flags = call['flags']
    RT = rt_of(*call['raw'])
    spectrum, error = call['spectrum'], call['error']
    # ---- domain of the quantifier (counted, not judged, when outside)
    if spectrum.ndim not in (1, 2) or spectrum.shape[-1] != call['wngrid'].shape[0] or call['wngrid'].ndim != 1:
        ctx.event('domain-skip:flux-shape')
        return None
    if error is not None and (error.ndim not in (1, 2) or error.shape[-1] != spectrum.shape[-1]
                              or (error.ndim == 2 and error.shape != spectrum.shape)):
        ctx.event('domain-skip:flux-error-shape')
        return None
    order, nc, nw, nkind = as_bins(call['wngrid'], call['grid_width'])
    _, tc, tw, tkind = as_bins(decl['wngrid'], decl.get('wngrid_width'))
    if nw is None or tw is None:
        ctx.event('domain-skip:flux-single-point-grid-without-width')
        return None
    if not (np.all(np.isfinite(nc)) and np.all(np.isfinite(nw)) and np.all(nw > 0) and np.all(np.diff(nc) > 0)):
        ctx.event('domain-skip:native-centres-or-widths-degenerate')
        return None
    nlo, nhi = nc - nw / 2, nc + nw / 2
    if not (np.all(np.diff(nlo) > 0) and np.all(np.diff(nhi) > 0)):
        ctx.event('domain-skip:native-bins-unordered')
        return None
    if not (np.all(np.isfinite(tc)) and np.all(tw > 0) and np.all(np.diff(tc) > 0)):
        ctx.event('domain-skip:target-degenerate')
        return None
    if not (np.all(np.isfinite(spectrum)) and (error is None or np.all(np.isfinite(error)))):
        ctx.event('domain-skip:non-finite-spectrum')
        return None
    ctx.observe('native-widths:' + nkind, 'target-widths:' + tkind,
                'native:strictly-non-overlapping' if np.all(nhi[:-1] <= nlo[1:]) else 'native:sliver-overlap')
    tlo, thi = tc - tw / 2, tc + tw / 2
    f = spectrum[..., order]
    K = len(tc)
    # ---- the returned tuple: (grid, spectrum, error, widths)
    ok = ctx.check('flux:result-shape', isinstance(res, tuple) and len(res) == 4 and
                   np.shape(res[1]) == f.shape[:-1] + (K,), call=flags,
                   got_shape=list(np.shape(res[1])) if isinstance(res, tuple) and len(res) > 1 else None,
                   want_shape=list(f.shape[:-1] + (K,)))
    if not ok:
        return None
    cmax = float(max(np.max(np.abs(nhi)), np.max(np.abs(thi))))
    derived = 'derived' in (nkind, tkind)
    ctx.close('flux:grid', res[0], tc, 0.0, call=flags, what='centres ascending')
    ctx.close('flux:grid', res[3], tw, RTOL, atol=(8 * EPS * cmax if tkind == 'derived' else 0.0), call=flags,
              what='widths attached to their centres')
    # ---- values
    want, _, tot = R.overlap_mean(nlo, nhi, f, tlo, thi)
    judged = tot > 0
    fmax = float(np.max(np.abs(f))) if f.size else 0.0
    atol = np.full(K, 1e-13 * fmax)
    if derived:
        with np.errstate(divide='ignore'):
            atol = atol + np.where(judged, 16 * EPS * cmax / np.where(judged, tot, 1.0), 0.0) * fmax
    got = np.asarray(res[1], dtype=float)
    # observed geometry classes of the judged bins
    L, H = nlo[0], nhi[-1]
    for k in range(K):
        if not judged[k]:
            ctx.observe('bin:no-overlap')
            v = got[..., k]
            known = (not flags['native_sorted'] and nkind == 'nonuniform-array') or \
                (flags['spectrum_ndim'] == 2 and flags['has_error'])
            ctx.event('unjudged-bin-value:' + ('nan' if np.any(np.isnan(v)) else 'zero' if np.all(v == 0) else
                                               'other(call-with-known-mechanism)' if known else 'other'))
            continue
        ovm = (np.minimum(nhi, thi[k]) - np.maximum(nlo, tlo[k])) > 0
        idx = np.nonzero(ovm)[0]
        if len(idx) > 1:
            ctx.observe('bin:wider-than-native')
            if np.any(nhi[idx[:-1]] < nlo[idx[1:]]):
                ctx.observe('bin:spans-native-gap')
        elif tw[k] < nw[idx[0]]:
            ctx.observe('bin:narrower-than-native')
        if tlo[k] < L or thi[k] > H:
            ctx.observe('bin:partly-outside')
    if K > 1 and np.any(thi[:-1] > tlo[1:]):
        ctx.observe('bin:targets-overlap-each-other')
    if not np.any(judged):
        ctx.event('flux-call-without-judged-bin')
    else:
        ctx.close('flux:overlap-mean', got[..., judged], want[..., judged], RT, atol=atol[judged], call=flags,
                  native_kind=nkind, target_kind=tkind, n_native=len(nc), K=K)
        # between the smallest and largest overlapping native value
        lo_b = np.empty(want.shape)
        hi_b = np.empty(want.shape)
        for k in np.nonzero(judged)[0]:
            ovm = (np.minimum(nhi, thi[k]) - np.maximum(nlo, tlo[k])) > 0
            lo_b[..., k] = f[..., ovm].min(axis=-1)
            hi_b[..., k] = f[..., ovm].max(axis=-1)
        slack = atol + RT * fmax
        g, a, b = got[..., judged], lo_b[..., judged], hi_b[..., judged]
        inside = (g >= a - slack[judged]) & (g <= b + slack[judged])
        ctx.check('flux:within-overlapping-minmax', np.all(inside), call=flags,
                  worst_below=float(np.max(a - g)), worst_above=float(np.max(g - b)))
    # ---- uncertainties in quadrature with the same weights
    if error is not None:
        e = error[..., order]
        want_e = quadrature(nlo, nhi, e, tlo, thi)
        emax = float(np.max(np.abs(e))) if e.size else 0.0
        eatol = atol / (fmax if fmax > 0 else 1.0) * emax
        got_e = res[2]
        if got_e is None or not np.any(judged):
            if got_e is None:
                ctx.check('flux:error-quadrature', False, call=flags, problem='error given but None returned')
        else:
            got_e = np.asarray(got_e, dtype=float)
            if got_e.shape == want_e.shape:
                ctx.close('flux:error-quadrature', got_e[..., judged], want_e[..., judged], RT, atol=eatol[judged],
                          call=flags)
            elif e.ndim == 1 and got_e.shape == f.shape[:-1] + (K,):
                ctx.observe('error:broadcast-over-rows')
                ctx.close('flux:error-quadrature', got_e[..., judged],
                          np.broadcast_to(want_e, got_e.shape)[..., judged], RT, atol=eatol[judged], call=flags)
            else:
                ctx.check('flux:error-quadrature', False, call=flags, problem='shape', got_shape=list(got_e.shape),
                          want_shape=list(want_e.shape))
    return {'judged': judged, 'tc': tc, 'tw': tw, 'atol': atol, 'fmax': fmax, 'flags': flags}


def judge_simple(ctx, decl, call, res):
    flags = call['flags']
    spectrum = call['spectrum']
    t = np.asarray(decl['wngrid'], dtype=float)
    wn = call['wngrid']
    if t.ndim != 1 or len(t) < 2 or not np.all(np.diff(t) > 0):
        ctx.event('domain-skip:simple-target-not-ascending')
        return None
    if spectrum.ndim not in (1, 2) or spectrum.shape[-1] != wn.shape[0]:
        ctx.event('domain-skip:simple-shape')
        return None
    edges = np.empty(len(t) + 1)
    edges[1:-1] = 0.5 * (t[1:] + t[:-1])
    edges[0] = t[0] - 0.5 * (t[1] - t[0])
    edges[-1] = t[-1] + 0.5 * (t[-1] - t[-2])
    dist = np.min(np.abs(wn[:, None] - edges[None, :]), axis=1) if wn.size else np.array([])
    if wn.size and np.min(dist) <= 1e-9 * np.max(np.abs(edges)):
        ctx.event('domain-skip:simple-native-point-on-edge')
        return None
    K = len(t)
    want = np.full(spectrum.shape[:-1] + (K,), np.nan)
    counts = np.zeros(K, dtype=int)
    for k in range(K):
        m = (wn > edges[k]) & (wn < edges[k + 1])
        counts[k] = int(m.sum())
        if counts[k]:
            want[..., k] = spectrum[..., m].sum(axis=-1) / counts[k]
    judged = counts > 0
    ok = ctx.check('simple:result-shape', isinstance(res, tuple) and len(res) == 4 and
                   np.shape(res[1]) == want.shape, call=flags, got_shape=list(np.shape(res[1])),
                   want_shape=list(want.shape))
    if not ok:
        return None
    ctx.close('simple:grid', res[0], t, 0.0, call=flags)
    dw = decl.get('wngrid_width')
    ctx.close('simple:grid', res[3], dw if dw is not None else midpoint_widths(t), RTOL,
              atol=8 * EPS * float(np.max(np.abs(edges))), call=flags)
    ctx.event('simple:empty-bins', int(np.sum(~judged)))
    if np.any(judged):
        got = np.asarray(res[1], dtype=float)
        fmax = float(np.max(np.abs(spectrum)))
        # np.histogram(weights=) differences a cumulative sum over ALL native points, so the rounding error of a
        # bin sum is bounded by n_total*eps*sum|f| (standard bound of a running sum), not by the bin's own terms;
        # the mean divides by the bin count
        n_tot = spectrum.shape[-1]
        atol_k = 2.0 * n_tot * EPS * float(np.max(np.sum(np.abs(spectrum), axis=-1))) / np.maximum(counts, 1)
        ctx.close('simple:plain-mean', got[..., judged], want[..., judged], RTOL,
                  atol=atol_k[judged] + 4 * EPS * fmax, call=flags, K=K)
    return {'judged': judged}


# --------------------------------------------------------------------- taps
def _snap(a, kw):
    names = ['wngrid', 'spectrum', 'grid_width', 'error']
    d = dict(zip(names, a))
    d.update(kw)
    out = {}
    for n in names:
        v = d.get(n)
        out[n] = None if v is None else (np.array(v, dtype=float, copy=True) if np.ndim(v) else float(v))
    out['raw'] = tuple(d.get(n) for n in names)
    return out


def setup(ctx):
    from taurex.binning import FluxBinner, SimpleBinner, NativeBinner, Binner
    _state['ctx'] = ctx
    problems = R.self_test()
    if problems:
        ctx.check('refmodel-selftest', False, problems=problems)
    contracts.tap_init(FluxBinner)
    contracts.tap_init(SimpleBinner)

    def before(kind):
        def _b(self, a, kw):
            call = _snap(a, kw)
            call['flags'] = call_flags(kind, call['wngrid'], call['spectrum'], call['grid_width'], call['error'])
            ctx.feature(last_call=call['flags'])
            ctx.event('tap:%s.bindown' % kind)
            return call
        return _b

    def after_flux(self, a, kw, res, exc, call):
        rec = {'self': self, 'raw': call['raw'], 'res': res, 'n_args': len(a) + len(kw)}
        _state['calls'].append(rec)
        del _state['calls'][:-4]
        decl = getattr(self, '_vmon_decl', (None, {}))[1]
        if 'wngrid' not in decl:
            ctx.event('contract-skip:flux-no-declaration')
            return
        if exc is not None:
            if isinstance(exc, Exception):
                import traceback
                ctx.check('flux:no-exception', False, call=call['flags'], exception=type(exc).__name__,
                          message=str(exc)[:300],
                          traceback=''.join(traceback.format_exception(type(exc), exc, exc.__traceback__))[-1500:])
                try:
                    exc._vmon_recorded = True
                except Exception:
                    pass
            return
        ctx.check('flux:no-exception', True)
        _state['last'] = judge_flux(ctx, decl, call, res)

    def after_simple(self, a, kw, res, exc, call):
        _state['calls'].append({'self': self, 'raw': call['raw'], 'res': res, 'n_args': len(a) + len(kw)})
        del _state['calls'][:-4]
        decl = getattr(self, '_vmon_decl', (None, {}))[1]
        if exc is not None or 'wngrid' not in decl:
            return
        _state['last'] = judge_simple(ctx, decl, call, res)

    def after_native(self, a, kw, res, exc, call):
        _state['calls'].append({'self': self, 'raw': call['raw'], 'res': res, 'n_args': len(a) + len(kw)})
        del _state['calls'][:-4]
        if exc is not None:
            return
        raw = call['raw']
        ok = isinstance(res, tuple) and len(res) == 4
        if ok and res[0] is raw[0] and res[1] is raw[1]:
            ctx.observe('nativebinner:same-objects-returned')
        # content unchanged w.r.t. the snapshot taken BEFORE the call (a copy is fine, in-place edits are not)

        def eq(x, snap):
            if snap is None or x is None:
                return snap is None and x is None
            return np.array_equal(np.asarray(x, dtype=float), np.asarray(snap, dtype=float))
        unchanged = ok and eq(res[0], call['wngrid']) and eq(res[1], call['spectrum'])
        # width and error are handed back too (the code's order is (error, width), the docstring's (width, error))
        rest = ok and ((eq(res[2], call['error']) and eq(res[3], call['grid_width'])) or
                       (eq(res[3], call['error']) and eq(res[2], call['grid_width'])))
        ctx.check('native:unchanged', unchanged and rest, call=call['flags'],
                  content=bool(unchanged), width_and_error_returned=bool(rest))

    taps.tap(FluxBinner, 'bindown', before('FluxBinner'), after_flux)
    taps.tap(SimpleBinner, 'bindown', before('SimpleBinner'), after_simple)
    taps.tap(NativeBinner, 'bindown', before('NativeBinner'), after_native)



def route_bin_model(ctx, B, out):
    """``binner.bin_model(model_output)`` -- the route the ``taurex`` program, the optimizer and the instruments use --
    has to give what ``bindown(model_output[0], model_output[1])`` of a FRESH binner of the same declaration gives
    (and that execution is judged against the reference by the bindown tap).  Nothing is assumed about how
    ``bin_model`` gets there."""
    res = guarded(B.bin_model, out)
    if res is None:
        return None
    ctx.observe('route:bin_model')
    name, d = getattr(B, '_vmon_decl', (None, None))
    fresh = type(B)(**d) if d is not None and '_unbound' not in d else type(B)()
    want = guarded(fresh.bindown, out[0], out[1])
    if want is None:
        return res

    def same(x, y):
        if x is None or y is None:
            return x is None and y is None
        x, y = np.asarray(x, dtype=float), np.asarray(y, dtype=float)
        return x.shape == y.shape and bool(np.allclose(x, y, rtol=1e-12, atol=0, equal_nan=True))
    ok = isinstance(res, tuple) and len(res) == len(want) and all(same(a, b) for a, b in zip(res, want))
    dev = None
    if not ok and isinstance(res, tuple) and len(res) > 1 and np.shape(res[1]) == np.shape(want[1]):
        with np.errstate(all='ignore'):
            dev = float(np.nanmax(np.abs(np.asarray(res[1], dtype=float) / np.asarray(want[1], dtype=float) - 1)))
    ctx.check('bin_model:equals-bindown-of-grid-and-spectrum', ok, binner=type(B).__name__, max_rel_dev=dev,
              native_points=int(np.size(out[0])))
    return res


def teardown(ctx):
    taps.untap_all()


def guarded(fn, *a, **kw):
    """Run a bindown; an exception the tap already recorded as a failure ends the case quietly."""
    try:
        return fn(*a, **kw)
    except Exception as e:
        if getattr(e, '_vmon_recorded', False):
            return None
        raise


# --------------------------------------------------------------- generators
def gen_native(rng, kind=None, n=None):
    kind = kind or ['constR', 'linear', 'log', 'edges', 'edges-gaps', 'res-widths', 'scalar-width'][rng.integers(0, 7)]
    n = int(n or rng.choice([2, 3, 4, 5, 8, 13, 30, 60, 120, 300]))
    c0 = float(10 ** rng.uniform(1.5, 3.7))
    w = None
    if kind == 'constR':
        res = float(10 ** rng.uniform(0.7, 3.7))
        c = c0 * (1 + 1 / res) ** np.arange(n)
    elif kind == 'linear':
        c = np.linspace(c0, c0 * (1 + rng.uniform(0.02, 3.0)), n)
    elif kind == 'log':
        span = min(rng.uniform(0.02, 1.5), (n - 1) * 0.35)
        c = np.logspace(np.log10(c0), np.log10(c0) + span, n)
    elif kind == 'edges':
        e = c0 + np.cumsum(rng.uniform(0.2, 3.0, n + 1) * c0 * 10 ** rng.uniform(-3.5, -1))
        c, w = 0.5 * (e[1:] + e[:-1]), np.diff(e)
    elif kind == 'edges-gaps':
        unit = c0 * 10 ** rng.uniform(-3.5, -1)
        wid = rng.uniform(0.2, 3.0, n) * unit
        gap = np.where(rng.random(n) < 0.5, 0.0, rng.uniform(0.0, 4.0, n) * unit)
        gap[-1] = 3 * unit if n > 2 else gap[-1]
        lo = c0 + np.cumsum(np.concatenate([[0.0], (wid + gap)[:-1]]))
        c, w = lo + wid / 2, wid
    elif kind == 'res-widths':
        res = float(10 ** rng.uniform(0.7, 3.7))
        c = c0 * (1 + 1 / res) ** np.arange(n)
        w = c / res
    else:  # scalar-width: linear grid, one number for every bin
        c = np.linspace(c0, c0 * (1 + rng.uniform(0.02, 3.0)), n)
        w = float(c[1] - c[0]) * float(rng.choice([1.0, 0.5, 0.9]))
    return np.asarray(c, dtype=float), w, kind


def gen_spectrum(rng, c, ndim):
    n = len(c)
    rows = 1 if ndim == 1 else int(rng.integers(1, 7))
    x = (c - c[0]) / max(c[-1] - c[0], 1e-300)
    out = []
    for _ in range(rows):
        k = rng.integers(0, 4)
        amp = 10 ** rng.uniform(-4, 2)
        if k == 0:
            f = amp * (1 + 0.3 * np.sin(rng.uniform(1, 30) * x + rng.uniform(0, 6)) + 0.05 * rng.normal(size=n))
        elif k == 1:
            f = amp * 10 ** rng.uniform(-1.5, 1.5, n)
        elif k == 2:
            f = amp * rng.normal(size=n)                    # mixed sign
        else:
            f = amp * (1 + x * rng.uniform(-0.9, 5))
        out.append(f)
    return out[0] if ndim == 1 else np.array(out)


def gen_target(rng, nlo, nhi, nw, whole=None):
    """-> centres, widths (array | None | float), list of piece kinds."""
    L, H = float(nlo[0]), float(nhi[-1])
    span = H - L
    n = len(nlo)
    whole = whole if whole is not None else (['derived', 'scalar'][rng.integers(0, 2)] if rng.random() < 0.25 else None)
    if whole == 'derived':
        K = int(rng.integers(2, 25))
        a, b = L - rng.uniform(-0.3, 0.3) * span, H + rng.uniform(-0.3, 0.3) * span
        if rng.random() < 0.5 and a > 0:
            c = np.logspace(np.log10(a), np.log10(b), K)
        else:
            c = np.linspace(a, b, K)
        return c, None, ['derived']
    if whole == 'scalar':
        K = int(rng.integers(1, 25))
        c = np.sort(rng.uniform(L - 0.1 * span, H + 0.1 * span, K))
        if rng.random() < 0.35 and span > 4 * K and abs(L) < 1e12 and abs(H) < 1e12:
            # whole-number centres handed over as an INTEGER array (np.arange(...)), one fractional width for all bins
            c = np.unique(np.round(c).astype(np.int64))
            return c, float(max(span / len(c) * rng.uniform(0.1, 2.5), 0.3)) + 0.5, ['scalar', 'integer-centres']
        return c, float(span / K * rng.uniform(0.1, 2.5)), ['scalar']
    kinds = [str(k) for k in rng.choice(['nested', 'wide', 'narrow', 'overlapping', 'gaps', 'partly-outside', 'outside'],
                                        int(rng.integers(1, 4)), replace=False)]
    cs, ws = [], []
    for kind in kinds:
        if kind == 'nested':
            # unions of consecutive native bins: target edges coincide with native edges
            k = int(rng.integers(1, min(n, 8) + 1))
            cut = np.sort(rng.choice(np.arange(n + 1), min(k + 1, n + 1), replace=False))
            for i, j in zip(cut[:-1], cut[1:]):
                lo, hi = nlo[i], nhi[j - 1]
                cs.append(0.5 * (lo + hi)); ws.append(hi - lo)
        elif kind == 'wide':
            k = int(rng.integers(1, 10))
            e = np.sort(rng.uniform(L, H, k + 1))
            cs += list(0.5 * (e[1:] + e[:-1])); ws += list(np.diff(e))
        elif kind == 'narrow':
            for _ in range(int(rng.integers(1, 6))):
                i = int(rng.integers(0, n))
                frac = 10 ** rng.uniform(-3, -0.05)
                wd = frac * nw[i]
                if rng.random() < 0.6:      # wholly inside native bin i
                    cc = rng.uniform(nlo[i] + wd / 2, nhi[i] - wd / 2)
                else:                        # straddles an edge of bin i
                    cc = [nlo[i], nhi[i]][rng.integers(0, 2)] + rng.uniform(-0.4, 0.4) * wd
                cs.append(cc); ws.append(wd)
        elif kind == 'overlapping':
            k = int(rng.integers(2, 10))
            c = np.sort(rng.uniform(L, H, k))
            sp = np.maximum(np.median(np.diff(c)), 1e-6 * span)
            cs += list(c); ws += list(sp * rng.uniform(1.2, 4.0, k))
        elif kind == 'gaps':
            k = int(rng.integers(2, 10))
            e = np.sort(rng.uniform(L, H, k + 1))
            fr = rng.uniform(0.1, 0.8, k)
            cs += list(0.5 * (e[1:] + e[:-1])); ws += list(np.diff(e) * fr)
        elif kind == 'partly-outside':
            wd = span * rng.uniform(0.05, 0.6)
            if rng.random() < 0.5:
                cs.append(L + rng.uniform(-0.45, 0.45) * wd)
            else:
                cs.append(H + rng.uniform(-0.45, 0.45) * wd)
            ws.append(wd)
        else:   # outside: wholly below / above, or touching the range in exactly one point
            wd = span * rng.uniform(0.05, 0.5)
            m = rng.integers(0, 4)
            if m == 0:
                cs.append(L - wd * rng.uniform(0.6, 3))
            elif m == 1:
                cs.append(H + wd * rng.uniform(0.6, 3))
            elif m == 2:
                cs.append(L - wd / 2)
            else:
                cs.append(H + wd / 2)
            ws.append(wd)
    c, w = np.array(cs, dtype=float), np.array(ws, dtype=float)
    keep = w > 1e-9 * span
    c, w = c[keep], w[keep]
    c, first = np.unique(c, return_index=True)
    w = w[first]
    if len(c) == 0:
        return np.array([0.5 * (L + H)]), np.array([span]), ['wide']
    return c, w, kinds


def observe_inputs(ctx, nk, kinds, ndim, has_err):
    ctx.observe('native:' + nk, 'ndim:%d' % ndim, 'error:yes' if has_err else 'error:no')
    for k in kinds:
        ctx.observe('target:' + k)


# ----------------------------------------------------------------- workloads
def wl_flux(ctx, rng):
    from taurex.binning import FluxBinner
    c, w, nk = gen_native(rng)
    n = len(c)
    _, _, nw, _ = as_bins(c, w)
    nlo, nhi = c - nw / 2, c + nw / 2
    ndim = 1 if rng.random() < 0.6 else 2
    f = gen_spectrum(rng, c, ndim)
    has_err = ndim == 1 and rng.random() < 0.6
    e = np.abs(gen_spectrum(rng, c, 1)) * 0.1 + 1e-8 if has_err else None
    if rng.random() < 0.15:
        # the spectrum (and its errors) in another representation: integer counts, single precision, big-endian (as read
        # from a file); the binned value is the overlap-weighted mean of those numbers all the same
        dt = ['int64', 'int32', '>i4', 'float32', '>f8', '>f4'][rng.integers(0, 6)]
        sc = 1.0 if 'f' in dt else 1e4 / max(float(np.max(np.abs(f))), 1e-300)
        f = np.round(f * sc).astype(dt) if 'i' in dt else np.asarray(f).astype(dt)
        if has_err:
            # integer errors up to 1e5 (int32 squares overflow above 46340 -- the repaired C05/integer-error-array finding)
            esc = 1.0 if 'f' in dt else float(10 ** rng.uniform(3, 5)) / max(float(np.max(np.abs(e))), 1e-300)
            e = np.maximum(np.round(e * esc), 1).astype(dt) if 'i' in dt else np.asarray(e).astype(dt)
        ctx.observe('spectrum-dtype:' + ('integer' if 'i' in dt else ('single-precision' if '4' in dt else 'big-endian')))
    tc, tw, kinds = gen_target(rng, nlo, nhi, nw)
    K = len(tc)
    observe_inputs(ctx, nk, kinds, ndim, has_err)
    ctx.feature(native=nk, n=n, target=kinds, K=K, ndim=ndim, error=has_err)
    arr_w = w is not None and np.ndim(w) == 1
    arr_tw = tw is not None and np.ndim(tw) == 1

    # target rows in declared order (sometimes shuffled already)
    q0 = rng.permutation(K) if rng.random() < 0.5 else np.arange(K)
    B = FluxBinner(wngrid=tc[q0], wngrid_width=(tw[q0] if arr_tw else tw))
    r0 = guarded(B.bindown, c, f, grid_width=w, error=e)
    j0 = _state['last']
    if r0 is None or j0 is None:
        return
    judged = j0['judged']
    if np.any(judged):
        ctx.sig(nk, n, tuple(kinds), K, ndim, has_err)
        ctx.sample({'native': nk, 'n': n, 'target_pieces': kinds, 'K': K, 'ndim': ndim, 'error': has_err,
                    'judged_bins': int(judged.sum()), 'first_bins': np.asarray(r0[1])[..., :3]})
    v0 = np.asarray(r0[1], dtype=float)
    RTW = rt_of(f, e)
    atol = j0['atol']

    # (a) native rows permuted together
    p = rng.permutation(n)
    if n > 1 and not np.all(np.diff(c[p]) > 0):
        ctx.observe('native-order:shuffled')
    r1 = guarded(B.bindown, c[p], f[..., p], grid_width=(w[p] if arr_w else w), error=(e[p] if has_err else None))
    fl = dict(ctx.features.get('last_call', {}))
    if r1 is not None:
        ctx.close('flux:native-order-invariance', np.asarray(r1[1], dtype=float)[..., judged], v0[..., judged], RTW,
                  atol=atol[judged], call=fl)
        if has_err and r1[2] is not None and r0[2] is not None:
            ctx.close('flux:native-order-invariance', np.asarray(r1[2], dtype=float)[judged],
                      np.asarray(r0[2], dtype=float)[judged], RTW, atol=1e-13 * float(np.max(e)), call=fl,
                      what='errors')
    # (b) target rows permuted together: compared as a map centre -> (width, value)
    q = rng.permutation(K)
    if K > 1 and not np.all(np.diff(tc[q]) > 0):
        ctx.observe('target-order:shuffled')
    B2 = FluxBinner(wngrid=tc[q], wngrid_width=(tw[q] if arr_tw else tw))
    r2 = guarded(B2.bindown, c, f, grid_width=w, error=e)
    if r2 is not None:
        m0 = {float(a): i for i, a in enumerate(r0[0])}
        ok_keys = sorted(m0) == sorted(float(a) for a in r2[0]) and len(m0) == K
        ctx.check('flux:target-order-invariance', ok_keys, what='same centres', call=dict(ctx.features['last_call']))
        if ok_keys:
            idx = np.array([m0[float(a)] for a in r2[0]])
            ctx.close('flux:target-order-invariance', np.asarray(r2[1], dtype=float)[..., judged[idx]],
                      v0[..., idx][..., judged[idx]], RTW, atol=atol[idx][judged[idx]],
                      call=dict(ctx.features['last_call']))
            ctx.close('flux:target-order-invariance', r2[3], np.asarray(r0[3])[idx], 0.0, what='widths')
    # (c) a constant spectrum stays constant
    const = float(rng.choice([-1.0, 1.0]) * 10 ** rng.uniform(-6, 3))
    r3 = guarded(B.bindown, c, np.full(f.shape, const), grid_width=w)
    if r3 is not None and np.any(judged):
        ctx.close('flux:constant-stays-constant', np.asarray(r3[1], dtype=float)[..., judged],
                  np.full(v0[..., judged].shape, const), 1e-13, call=dict(ctx.features['last_call']))
    # (d) linear in the spectrum
    g = gen_spectrum(rng, c, ndim)
    if ndim == 2:
        g = np.resize(g, f.shape) if g.shape != f.shape else g
    a_, b_ = rng.normal(size=2) * 10 ** rng.uniform(-2, 2, 2)
    r4 = guarded(B.bindown, c, g, grid_width=w)
    r5 = guarded(B.bindown, c, a_ * f + b_ * g, grid_width=w)
    if r4 is not None and r5 is not None and np.any(judged):
        scale = abs(a_) * float(np.max(np.abs(f))) + abs(b_) * float(np.max(np.abs(g)))
        rel = atol / (j0['fmax'] if j0['fmax'] > 0 else 1.0)
        ctx.close('flux:linearity', np.asarray(r5[1], dtype=float)[..., judged],
                  (a_ * v0 + b_ * np.asarray(r4[1], dtype=float))[..., judged], RTW,
                  atol=(4 * rel[judged] + 1e-13) * scale, call=dict(ctx.features['last_call']))


    # (e) the SAME binner object on the same native centres with other native widths, then on another native grid of
    #     the same length, then the first call again: every execution is judged by the tap, so weights kept from an
    #     earlier call (a cache keyed on the centres, on the length, ...) show as overlap-mean failures
    steps = []
    for _ in range(int(rng.integers(1, 4))):
        kind = ['narrower-widths', 'derived-widths', 'other-grid-same-length', 'first-again',
                'other-spacing-same-ends-new-binner', 'same-arrays-refilled-in-place'][rng.integers(0, 6)]
        if kind == 'same-arrays-refilled-in-place':
            # the caller's OWN work arrays (grid, spectrum, widths) are handed over, refilled in place with another
            # native grid of the same length (shifted and rescaled widths; or the same rows in another order) and
            # another spectrum, and handed over again -- the same objects, other content
            led = own.Ledger(ctx, 'flux-work-arrays')
            cw, fw, ww = c.copy(), np.array(f, dtype=float, copy=True), nw.copy()
            for rep in range(2):
                led.lend(cw, 'native grid'), led.lend(fw, 'spectrum'), led.lend(ww, 'native widths')
                r_ = guarded(B.bindown, cw, fw, grid_width=ww)
                led.settle('bindown on the caller\'s work arrays')
                if r_ is not None:
                    for a_, l_ in zip(r_, ('grid', 'values', 'errors', 'widths')):
                        led.keep(a_, 'bindown result %d: %s' % (rep, l_))
                if rng.random() < 0.5:
                    shift = float(rng.uniform(-0.4, 0.4)) * float(np.min(nw))
                    led.refill(cw, c + shift), led.refill(ww, nw * float(rng.uniform(0.5, 1.0)))
                    g_ = gen_spectrum(rng, c, 1)                     # another spectrum on the shifted grid (every row)
                    led.refill(fw, np.broadcast_to(g_, fw.shape) * (1.0 + 0.1 * np.arange(fw.shape[0])[:, None] if fw.ndim == 2 else 1.0))
                else:
                    pp = rng.permutation(n)
                    led.refill(cw, c[pp]), led.refill(ww, nw[pp]), led.refill(fw, np.array(f, dtype=float)[..., pp] * 1.5)
            led.settle('later calls on the same binner')
            steps.append(kind)
            continue
        if kind == 'other-spacing-same-ends-new-binner':
            # ANOTHER binner object, a native grid with the same number of points and the same end points but the
            # other spacing (linear <-> geometric), widths derived: nothing remembered from the first grid -- by this
            # or by any other binner object -- may be used
            if n < 3 or c[0] <= 0:
                continue
            c2 = np.geomspace(c[0], c[-1], n) if nk in ('linear', 'scalar-width', 'edges', 'edges-gaps') else np.linspace(c[0], c[-1], n)
            c2[0], c2[-1] = c[0], c[-1]
            guarded(B.bindown, c, f, grid_width=None, error=e) if nk in ('linear', 'log', 'constR') else None
            B3 = FluxBinner(wngrid=tc[q0], wngrid_width=(tw[q0] if arr_tw else tw))
            guarded(B3.bindown, c2, f, grid_width=None, error=e)
            guarded(B.bindown, c2, f, grid_width=None, error=e)
            steps.append(kind)
            continue
        if kind == 'narrower-widths':
            w2 = nw * rng.uniform(0.3, 1.0, n)          # nested in the original bins: still ordered and disjoint
            guarded(B.bindown, c, f, grid_width=w2, error=e)
        elif kind == 'derived-widths':
            if nk in ('edges-gaps',):
                continue                                  # mid-point bins of a gappy grid are another (legal) native grid
            guarded(B.bindown, c, f, grid_width=None, error=e)
        elif kind == 'other-grid-same-length':
            shift = float(rng.uniform(-0.4, 0.4)) * float(np.min(nw))
            scale_w = float(rng.uniform(0.5, 1.0))
            guarded(B.bindown, c + shift, f, grid_width=nw * scale_w, error=e)
        else:
            guarded(B.bindown, c, f, grid_width=w, error=e)
        steps.append(kind)
    for k in steps:
        ctx.observe('same-binner:' + k)
    if ctx.case['index'] % 60 == 9:
        # (f) a long history on the SAME binner object (one binner for a whole campaign of targets): dozens of different
        #     native grids, earlier ones coming back in between and at the end; the tap judges every execution
        grids = []
        ng = int(rng.integers(25, 45)) if ctx.tier == 'quick' else int(rng.integers(60, 200))
        for j in range(ng):
            c_, w_, _ = gen_native(rng)
            grids.append((c_, gen_spectrum(rng, c_, 1), w_))
            guarded(B.bindown, c_, grids[-1][1], grid_width=w_)
            if j % 3 == 2:
                c0_, f0_, w0_ = grids[int(rng.integers(0, max(j // 2, 1)))]
                guarded(B.bindown, c0_, f0_, grid_width=w0_)
        for j in rng.integers(0, ng, 9):                    # (from anywhere in the history)
            c0_, f0_, w0_ = grids[int(j)]
            guarded(B.bindown, c0_, f0_, grid_width=w0_)
        ctx.observe('same-binner:dozens-of-native-grids-earlier-ones-again')


def wl_flux2derr(ctx, rng):
    """2-D spectrum together with an error array (1-D shared or 2-D per row); sorted native rows."""
    from taurex.binning import FluxBinner
    c, w, nk = gen_native(rng, n=int(rng.choice([3, 5, 8, 13, 30])))
    _, _, nw, _ = as_bins(c, w)
    nlo, nhi = c - nw / 2, c + nw / 2
    f = gen_spectrum(rng, c, 2)
    e1 = np.abs(gen_spectrum(rng, c, 1)) * 0.1 + 1e-8
    e = e1 if rng.random() < 0.5 else np.abs(f) * 0.1 + 1e-8
    tc, tw, kinds = gen_target(rng, nlo, nhi, nw)
    observe_inputs(ctx, nk, kinds, 2, True)
    ctx.observe('call:2d-with-error', 'error-ndim:%d' % e.ndim)
    ctx.feature(native=nk, n=len(c), target=kinds, K=len(tc), ndim=2, error=True, rows=int(f.shape[0]))
    B = FluxBinner(wngrid=tc, wngrid_width=tw)
    r = guarded(B.bindown, c, f, grid_width=w, error=e)
    if r is not None and _state['last'] is not None and np.any(_state['last']['judged']):
        ctx.sig('2derr', nk, len(c), tuple(kinds), len(tc), f.shape[0], e.ndim)


def wl_simple(ctx, rng):
    from taurex.binning import SimpleBinner
    c, w, nk = gen_native(rng, kind=['constR', 'linear', 'log', 'edges'][rng.integers(0, 4)])
    n = len(c)
    ndim = 1 if rng.random() < 0.5 else 2
    f = gen_spectrum(rng, c, ndim)
    K = int(rng.integers(2, 20))
    L, H = c[0], c[-1]
    span = max(H - L, 1e-6 * L)
    tk = rng.integers(0, 3)
    if tk == 0:
        t = np.linspace(L + rng.uniform(-0.2, 0.2) * span, H + rng.uniform(-0.2, 0.2) * span, K)
    elif tk == 1:
        a = max(L - 0.1 * span, 1.0)
        t = np.logspace(np.log10(a), np.log10(H + 0.1 * span), K)
    else:
        t = np.sort(rng.uniform(L - 0.1 * span, H + 0.1 * span, K))
        t = np.unique(t)
    if len(t) < 2 or not np.all(np.diff(t) > 0):
        ctx.event('generator-redraw:simple-target')
        return
    ctx.observe('simple:native:' + nk, 'simple:ndim:%d' % ndim, 'simple:target:%d' % tk)
    ctx.feature(native=nk, n=n, K=len(t), ndim=ndim)
    tw = None if rng.random() < 0.5 else midpoint_widths(t) * rng.uniform(0.5, 1.0)
    B = SimpleBinner(wngrid=t, wngrid_width=tw)
    shuffle = rng.random() < 0.5
    p = rng.permutation(n) if shuffle else np.arange(n)
    if shuffle:
        ctx.observe('simple:native-shuffled')
    _state['last'] = None
    B.bindown(c[p], f[..., p])
    j = _state['last']
    if j is not None and np.any(j['judged']):
        ctx.sig('simple', nk, n, len(t), ndim, bool(shuffle), int(tk))


def wl_native(ctx, rng):
    """NativeBinner hands its arguments back; bin_model of every binner gives what bindown(wn, spectrum) gives."""
    from taurex.binning import FluxBinner, SimpleBinner, NativeBinner
    c, w, nk = gen_native(rng)
    n = len(c)
    ndim = 1 if rng.random() < 0.5 else 2
    f = gen_spectrum(rng, c, ndim)
    p = rng.permutation(n) if rng.random() < 0.5 else np.arange(n)
    wn, ff = c[p], f[..., p]
    gw = None if w is None else (w[p] if np.ndim(w) == 1 else w)
    err = np.abs(gen_spectrum(rng, c, 1))[p] if rng.random() < 0.5 else None
    nb = NativeBinner()
    m = rng.integers(0, 3)
    if m == 0:
        nb.bindown(wn, ff)
    elif m == 1:
        nb.bindown(wn, ff, grid_width=gw, error=err)
    else:
        nb.bindown(wn, ff, gw, err)
    ctx.observe('nativebinner:call-form-%d' % m)
    # bin_model: (wngrid, spectrum, tau, extra)
    tau = rng.random((3, n))
    out = (wn, ff, tau, None)
    route_bin_model(ctx, nb, out)
    derivable = n >= 2
    _, _, nw, _ = as_bins(c, None) if derivable else (None, None, None, None)
    if derivable:
        nlo, nhi = c - nw / 2, c + nw / 2
        tc, tw, kinds = gen_target(rng, nlo, nhi, nw)
        fb = FluxBinner(wngrid=tc, wngrid_width=tw)
        route_bin_model(ctx, fb, out)
        if len(tc) >= 2:
            route_bin_model(ctx, SimpleBinner(wngrid=tc), out)
        # the SAME binner goes on with further model outputs (a sampler calls bin_model once per sample): the same
        # grid again, another spectrum on it, and a grid with the same count and end points but the other spacing
        for _ in range(int(rng.integers(1, 4))):
            how = ['same', 'other-spectrum', 'other-spacing', 'shuffled'][rng.integers(0, 4)]
            if how == 'same':
                o2 = out
            elif how == 'other-spectrum':
                o2 = (wn, gen_spectrum(rng, c, ndim)[..., p], tau, None)
            elif how == 'shuffled':
                q = rng.permutation(n)
                o2 = (wn[q], ff[..., q], tau, None)
            else:
                if n < 3 or c[0] <= 0:
                    continue
                c2 = np.geomspace(c[0], c[-1], n) if nk in ('linear', 'scalar-width', 'edges', 'edges-gaps') else np.linspace(c[0], c[-1], n)
                c2[0], c2[-1] = c[0], c[-1]
                o2 = (c2, f, tau, None)
            route_bin_model(ctx, fb, o2)
            ctx.observe('bin_model:again:' + how)
    ctx.sig('native', nk, n, ndim, int(m), err is not None)


def wl_model(ctx, rng):
    """Binner.bin_model(model.model()) on a real forward model (native grid = the opacity grid)."""
    from taurex.binning import FluxBinner, SimpleBinner, NativeBinner
    from taurex.exceptions import InvalidModelException
    for _ in range(30):
        spec = world.random_world_spec(rng, nlayers=int(rng.choice([2, 3, 5])), nwn=int(rng.integers(8, 40)),
                                       n_active=1, tkind='isothermal')
        if world.is_bound(spec):
            break
    else:
        raise RuntimeError('generator could not draw a bound atmosphere')
    world.reset_caches()
    world.install_opacities(spec)
    model = world.build_model(spec, 'transmission')
    world.add_contributions(model, spec)
    try:
        model.build()
        out = model.model()
    except InvalidModelException as e:
        ctx.license(type(e).__name__)
        return
    wn = np.asarray(out[0], dtype=float)
    ctx.observe('route:forward-model')
    K = int(rng.integers(2, 8))
    t = np.linspace(wn[0], wn[-1], K + 2)[1:-1] if rng.random() < 0.5 else \
        np.logspace(np.log10(wn[0]), np.log10(wn[-1]), K + 2)[1:-1]
    _state['last'] = None
    route_bin_model(ctx, FluxBinner(wngrid=t[rng.permutation(K)]), out)
    j = _state['last']
    route_bin_model(ctx, SimpleBinner(wngrid=t), out)
    route_bin_model(ctx, NativeBinner(), out)
    if j is not None and np.any(j['judged']):
        ctx.sig('model', len(wn), K, spec['magnitude'], round(spec['planet_radius'], 5))
    else:
        ctx.event('model-case-native-grid-out-of-domain')


WORKLOADS = {'flux': wl_flux, 'flux2derr': wl_flux2derr, 'simple': wl_simple, 'native': wl_native, 'model': wl_model}

LEVEL_TEXT = ('Exploration by runtime monitoring: every FluxBinner.bindown execution (direct, via bin_model, via a real '
              'forward model) is tapped and decided from its arguments and the constructor arguments recorded by an '
              '__init__ tap against an independent overlap-weighted-mean / quadrature reference (1e-12), together with '
              'the consequences named in the statement (min/max of overlapping natives, constant, linearity, invariance '
              'under permutation of native and of target rows); SimpleBinner executions are decided against the plain '
              'mean between target mid-points, NativeBinner against identity, bin_model against its delegation. Inputs '
              'outside the quantifier (unordered native bins, edge points for the histogram binner) are counted, not '
              'judged. Held = held on the recorded executions.'
              ' Results the caller keeps and work arrays it re-uses are followed by an ownership ledger (vmon/own.py).')
LEVEL_NOTE = ('Trusted: refmodel.overlap_mean (self-tested each run) and the reading that a native bin is [c-w/2, c+w/2]. '
              'Two mechanisms of the unchanged tree are recognised as known findings from the flags of the failing call '
              '(shuffled native rows with non-uniform explicit widths; 2-D spectrum with an error array).')
TECHNIQUE = 'call taps on the real binners (constructor + bindown + bin_model) + independent overlap-mean reference and metamorphic relations over seeded grids'
