"""C04 -- opacity interpolation in (T, P) is sound everywhere.

Monitors
  * icontract postconditions (named conditions, error=) on InterpolatingOpacity.compute_opacity, Opacity.opacity
    and KTable.opacity, attached to the real classes.  Every execution is decided from the object's PUBLIC
    tabulated data (temperatureGrid, pressureGrid, xsecGrid), the documented mode and the arguments, against an
    independent clamped reference written here (refmodel.interp_TP is not used: its 'exp' arm interpolates
    exp-in-T first and then linearly in P, which is not the documented form a*exp(...ln(a/b)) with a, b linear in
    log P).
  * sys.monitoring LINE events restricted to the code objects of InterpolatingOpacity.interp_bilinear_grid and
    interp_temp_only: which `return` statement (nine regions, both _interp_mode arms) each call reached.  The
    reached returns are OBSERVED (classes `return:...`); every return statement present in the source must have
    been reached or the run is inconclusive (finalize).
  * direct workloads: in-memory cross-section tables xsec[P,T,wn], in-memory k-tables xsec[P,T,wn,g]
    (KTable mixed with InterpolatingOpacity), pickle files loaded by PickleOpacity / PickleKTable, restricted
    wavenumber sub-ranges, tables with exact zeros.

Tolerances (derived)
  bounds / nodes: eps_b = 1e-12 * (largest table value over the cells adjacent to the query) -- the kernels
  evaluate x11 - s*(x11-x21) - ..., whose rounding error is a few ulp of the LARGEST node of the cell they chose,
  and at a grid node either adjacent cell is a legitimate choice.  `never negative` is judged as >= -eps_b;
  negative results inside that band are counted (event negative-within-rounding).
  formulas: 1e-10 relative + eps_b; in 'exp' mode the relative part also carries the conditioning of
  a = x11 + v (x21 - x11): 4*((1-s) d_a/a + s d_b/b) with d = 4 ulp of the larger node.
"""
import ast
import inspect
import os
import sys
import textwrap

import icontract
import numpy as np

from vmon import own
from vmon import contracts, world

PROPERTY = 'C04'
RULE = ('tables from a seeded generator: 2..5 pressures x 2..7 temperatures x 1..10 wavenumbers (x 1..6 quadrature '
        'points for k-tables), magnitudes tiny 1e-40..1e-30 / mid / large 1e-6..1 / steep (each entry log-uniform '
        '1e-40..1) / ones; queries per table: every node, every edge mid-point, random cell interiors, all eight '
        'outside regions at distances 1e-9..10 grid spans, exact equality with each grid extreme; both modes; routes '
        'compute_opacity, opacity(), opacity(wngrid=contiguous sub-range); a case is non-trivial when at least one '
        'execution was judged; distinct = distinct (layout, route, mode, shape, magnitude, table checksum) tuples')
ASSUMPTIONS = [
    'strictly positive temperatures and pressures; grids strictly ascending with >= 2 nodes per axis (a one-node axis '
    'is outside "tables 2..5 x 2..6" and index 1 does not exist for it)',
    'exact zeros in a table used in exp mode are outside the documented formula (ln of a ratio): observed, not judged',
    'a restricted wngrid is a contiguous sub-range of the native grid (rows selected exactly); other grids are C13',
    'the region "below the minimum" is T < Tmin / P < Pmin strictly, "at or above the maximum" clamps (code reading; '
    'both give the same value on the boundary except for the documented zero below BOTH minima)',
]
_Q = {'xsec': 50, 'ktable': 20, 'files': 6, 'zeros': 8, 'long': 1}
_T = {'xsec': 200, 'ktable': 80, 'files': 20, 'zeros': 25, 'long': 6}
BUDGET = {
    'quick': [dict(name='boundscheck', env={'NUMBA_BOUNDSCHECK': '1'}, shards=8, cases=_Q)],
    'thorough': [dict(name='boundscheck', env={'NUMBA_BOUNDSCHECK': '1'}, shards=16, cases=_T),
                 dict(name='nojit', env={'NUMBA_DISABLE_JIT': '1'}, shards=4, cases={'xsec': 60, 'ktable': 25})],
}
REGIONS = ['%s/%s' % (a, b) for a in ('T<min', 'T-in', 'T>=max') for b in ('P<min', 'P-in', 'P>=max')]
REQUIRED = dict(
    monitors=['contract:compute_opacity:formula', 'contract:compute_opacity:within-bracketing-nodes',
              'contract:compute_opacity:nonnegative', 'contract:compute_opacity:node-reproduces-table',
              'contract:compute_opacity:outside-equals-clamped', 'contract:compute_opacity:zero-below-both-minima',
              'contract:opacity:formula', 'contract:opacity:within-bracketing-nodes', 'contract:opacity:nonnegative',
              'contract:ktable.opacity:formula', 'contract:ktable.opacity:within-bracketing-nodes',
              'restricted-equals-rows', 'one-return-per-call', 'earlier-result-stays-as-returned', 'caller-input-left-alone'],
    classes=['region:' + r for r in REGIONS] +
            ['linear:region:' + r for r in REGIONS] + ['exp:region:' + r for r in REGIONS] +
            ['ktable:region:' + r for r in REGIONS] +
            ['mode:linear', 'mode:exp', 'layout:xsec', 'layout:ktable', 'route:pickle-xsec', 'route:pickle-ktable',
             'wngrid:full', 'wngrid:restricted', 'query:at-node', 'query:T-edge-midpoint', 'query:P-edge-midpoint',
             'query:interior', 'query:exact-Tmin', 'query:exact-Tmax', 'query:exact-Pmin', 'query:exact-Pmax',
             'magnitude:tiny', 'magnitude:mid', 'magnitude:large', 'magnitude:steep', 'magnitude:ones',
             'exp-mode-zero-in-table', 'linear-mode-zero-in-table', 'live-switch:linear->exp', 'live-switch:exp->linear', 'history:thousand-requests-then-earlier-points-again', 'table:a-temperature-node-listed-twice',
             'live-switch:exp->exp', 'live-switch:linear->linear', 'table:single-P-node', 'table:single-T-node', 'wngrid:reused-work-array', 'route:hdf5'])
EPS = float(np.finfo(float).eps)
TOOL_ID = 3

_state = {'ctx': None, 'lines': [], 'returns': {}, 'installed': False, 'tag': None}


def classify(f):
    """Known mechanism, recognised from its necessary conditions (all measured by the contract from the table and
    the arguments): exp mode, a NaN in the result, the pressure within a few ulp of a pressure node q >= 1 (the
    code's weight in log P is 1) and a contrast >= 1e15 between that node and the pressure node below it."""
    w = f.get('witness') or {}
    if w.get('mode') == 'exp' and w.get('nan_in_result') and w.get('on_pressure_node_above_first') \
            and (w.get('p_contrast') or 0) >= 1e15 and str(f.get('monitor', '')).startswith('contract:'):
        return 'C04/exp-nan-at-pressure-node-steep-contrast'
    # second mechanism: P exactly the first pressure node, T below the grid, and math.log10(P) one ulp below
    # numpy's log10 of the same number (compute_opacity uses the former, the grid the latter) -> the call is
    # dispatched to the 'below both minima' region and returns zeros
    if w.get('region') == 'T<min/P-in' and w.get('P_equals_Pmin') and w.get('math_log10_below_numpy_log10') \
            and w.get('result_all_zero') and str(f.get('monitor', '')).split(':')[-1] in (
                'within-bracketing-nodes', 'outside-equals-clamped', 'formula', 'node-reproduces-table'):
        return 'C04/log10-ulp-at-minimum-pressure'
    return None


# ------------------------------------------------------------ reference side
def bracket(grid, x):
    """-> (region, i, j, w): grid[i] <= x < grid[j] with weight w in [0,1); clamped outside ('<min' strict, '>=max')."""
    n = len(grid)
    if x < grid[0]:
        return '<min', 0, 0, 0.0
    if x >= grid[-1]:
        return '>=max', n - 1, n - 1, 0.0
    i = int(np.searchsorted(grid, x, side='right')) - 1
    return '-in', i, i + 1, None


def reference(Tg, Pg, rows, T, P, mode):
    """rows[P, T, M] (cm^2).  Returns dict(region, want (cm^2), lo, hi, big, on_node, clamped, rtol)."""
    rT, i, j, _ = bracket(Tg, T)
    rP, p, q, _ = bracket(Pg, P)
    lPg = np.log10(Pg)
    u = 0.0 if i == j else (T - Tg[i]) / (Tg[j] - Tg[i])
    v = 0.0 if p == q else (np.log10(P) - lPg[p]) / (lPg[q] - lPg[p])
    v = min(max(v, 0.0), 1.0)
    region = 'T%s/P%s' % (rT, rP)
    nT, nP = len(Tg), len(Pg)
    Tset = [i] if u == 0.0 else [i, j]
    Pset = [p] if v == 0.0 else [p, q]
    Text = list(range(max(i - 1, 0), min(j + 1, nT - 1) + 1))
    Pext = list(range(max(p - 1, 0), min(q + 1, nP - 1) + 1))
    nodes = rows[np.ix_(Pset, Tset)].reshape(-1, rows.shape[-1])
    big = np.abs(rows[np.ix_(Pext, Text)]).reshape(-1, rows.shape[-1]).max(axis=0)
    out = {'region': region, 'lo': nodes.min(axis=0), 'hi': nodes.max(axis=0), 'big': big,
           'on_node': bool(np.any(Tg == T) and np.any(Pg == P)),
           'clamped': rT != '-in' or rP != '-in', 'zero': rT == '<min' and rP == '<min',
           'rtol': 1e-10, 'cell': (p, q, i, j), 'uv': (u, v)}
    if out['zero']:
        out['want'] = np.zeros(rows.shape[-1])
        return out
    x11, x12, x21, x22 = rows[p, i], rows[p, j], rows[q, i], rows[q, j]
    if mode == 'linear':
        out['want'] = x11 * (1 - u) * (1 - v) + x12 * u * (1 - v) + x21 * (1 - u) * v + x22 * u * v
    else:
        a = x11 + (x21 - x11) * v          # linear in log P at the lower temperature node
        b = x12 + (x22 - x12) * v          # ... at the upper temperature node
        s = 0.0 if u == 0.0 else min(max(Tg[j] * (T - Tg[i]) / (T * (Tg[j] - Tg[i])), 0.0), 1.0)
        with np.errstate(divide='ignore', invalid='ignore'):
            out['want'] = a if u == 0.0 else a * np.exp(s * np.log(b / a))
            # conditioning of the pressure-linear part: its rounding error is a few ulp of the largest node the
            # kernel combined, and ON a pressure node either adjacent cell may have been used
            rel_a = 4 * EPS * np.abs(rows[Pext, i]).max(axis=0) / np.abs(a)
            rel_b = 4 * EPS * np.abs(rows[Pext, j]).max(axis=0) / np.abs(b)
        out['rtol'] = 1e-10 + 4 * ((1 - s) * rel_a + s * rel_b)
    return out


def judge(ctx, via, op, temperature, pressure, filt, result, flatten_g=None):
    """Decide one execution.  filt: None / slice / index array selecting native wavenumber rows."""
    try:
        Tg = np.asarray(op.temperatureGrid, dtype=float)
        Pg = np.asarray(op.pressureGrid, dtype=float)
        X = np.asarray(op.xsecGrid, dtype=float)
        mode = op._interp_mode
        decl = _state.get('declared')
        if decl is not None and decl[0] is op:
            # the mode the workload asked for through the public API decides, not the object's private field
            if mode != decl[1]:
                ctx.check('mode-is-the-declared-one', False, private=mode, declared=decl[1])
            mode = decl[1]
    except NotImplementedError:
        ctx.event('contract-skip:abstract-opacity')
        return None
    T, P = float(temperature), float(pressure)
    if mode not in ('linear', 'exp'):
        ctx.event('domain-skip:unknown-mode')
        return None
    if Tg.ndim != 1 or Pg.ndim != 1 or len(Tg) < 2 or len(Pg) < 2 or X.ndim not in (3, 4) or \
            X.shape[:2] != (len(Pg), len(Tg)) or not (np.all(np.diff(Tg) > 0) and np.all(np.diff(Pg) > 0)):
        ctx.event('domain-skip:table-shape-or-order')
        return None
    if not (np.isfinite(T) and np.isfinite(P) and T > 0 and P > 0 and Pg[0] > 0 and Tg[0] > 0):
        ctx.event('domain-skip:non-positive-T-or-P')
        return None
    if not np.all(np.isfinite(X)) or np.any(X < 0):
        ctx.event('domain-skip:table-values')
        return None
    layout = 'xsec' if X.ndim == 3 else 'ktable'
    if filt is None:
        filt = slice(None)
    rows = X[:, :, filt]
    rows = rows.reshape(rows.shape[0], rows.shape[1], -1)
    M = rows.shape[-1]
    got = np.asarray(result, dtype=float).ravel()
    mon = 'contract:%s:' % via
    ctx.observe('mode:' + mode, 'layout:' + layout)
    if not ctx.check(mon + 'shape', got.size == M, got=int(got.size), want=int(M), layout=layout):
        return None
    ref = reference(Tg, Pg, rows, T, P, mode)
    region = ref['region']
    ctx.observe('region:' + region, mode + ':region:' + region)
    if layout == 'ktable':
        ctx.observe('ktable:region:' + region)
    wit = dict(T=T, P=P, mode=mode, region=region, layout=layout, Tgrid=Tg, Pgrid=Pg, cell=ref['cell'], uv=ref['uv'],
               tag=_state.get('tag'))
    if region == 'T<min/P-in' and P == Pg[0]:
        import math
        wit['P_equals_Pmin'] = True
        wit['math_log10_below_numpy_log10'] = bool(math.log10(P) < np.log10(Pg)[0])
        wit['result_all_zero'] = bool(np.all(got == 0.0))
        ctx.observe('query:T<min,P==Pmin' + (',log10-ulp-mismatch' if wit['math_log10_below_numpy_log10'] else ''))
    if np.any(np.isnan(got)):
        # measured necessary conditions of the known exp-mode mechanism (see classify)
        lP = np.log10(Pg)
        qn = int(np.argmin(np.abs(lP - np.log10(P))))
        near = abs(lP[qn] - np.log10(P)) <= 8 * EPS * max(abs(lP[qn]), 1.0)
        wit['nan_in_result'] = True
        wit['on_pressure_node_above_first'] = bool(near and qn >= 1)
        if near and qn >= 1:
            with np.errstate(divide='ignore', invalid='ignore'):
                wit['p_contrast'] = float(np.nanmax(rows[qn - 1] / rows[qn]))
    if np.any(rows == 0):
        if mode == 'exp':
            ctx.observe('exp-mode-zero-in-table')
            ctx.event('exp-mode-zero:result-' + ('nan' if np.any(np.isnan(got)) else 'finite'))
            return ref
        ctx.observe('linear-mode-zero-in-table')
    eps_b = 1e-12 * ref['big'] / 1e4
    want = ref['want'] / 1e4
    if np.any(got < 0):
        ctx.event('negative-within-rounding' if np.all(got >= -eps_b) else 'negative-beyond-rounding')
    ctx.check(mon + 'nonnegative', np.all(got >= -eps_b) and not np.any(np.isnan(got)), worst=float(np.nanmin(got)),
              **wit)
    if ref['zero']:
        ctx.check(mon + 'zero-below-both-minima', np.all(got == 0.0), max=float(np.max(np.abs(got))), **wit)
        return ref
    lo, hi = ref['lo'] / 1e4, ref['hi'] / 1e4
    inside = (got >= lo - eps_b) & (got <= hi + eps_b)
    k = int(np.argmin(inside)) if not np.all(inside) else 0
    ctx.check(mon + 'within-bracketing-nodes', np.all(inside), got=float(got[k]), lo=float(lo[k]), hi=float(hi[k]),
              column=k, **wit)
    if ref['on_node']:
        ctx.close(mon + 'node-reproduces-table', got, lo, 1e-10, atol=eps_b, **wit)
    elif ref['clamped']:
        ctx.close(mon + 'outside-equals-clamped', got, want, ref['rtol'], atol=eps_b, **wit)
    ctx.close(mon + 'formula', got, want, ref['rtol'], atol=eps_b, **wit)
    return ref


# ------------------------------------------------------- line observation
def _returns_of(func):
    """{absolute line: name} of every `return` in func, named by the innermost enclosing if-test."""
    code = func.__code__
    tree = ast.parse(textwrap.dedent(inspect.getsource(func)))
    fdef = tree.body[0]
    out = {}

    def walk(stmts, test):
        for s in stmts:
            if isinstance(s, ast.Return):
                line = code.co_firstlineno + s.lineno - 1
                out[line] = '%s@%d[%s]' % (func.__name__, line, test)
            elif isinstance(s, ast.If):
                walk(s.body, ast.unparse(s.test))
                walk(s.orelse, 'else:' + ast.unparse(s.test))
            elif isinstance(s, (ast.For, ast.While, ast.With, ast.Try)):
                walk(getattr(s, 'body', []), test)
    walk(fdef.body, 'fallthrough')
    return code, out


def install_line_observer(ctx):
    from taurex.opacity.interpolateopacity import InterpolatingOpacity
    mon = sys.monitoring
    if mon.get_tool(TOOL_ID) is not None:
        mon.free_tool_id(TOOL_ID)
    mon.use_tool_id(TOOL_ID, 'vmon-c04')
    returns = {}
    codes = []
    for fn in (InterpolatingOpacity.interp_bilinear_grid, InterpolatingOpacity.interp_temp_only):
        fn = getattr(fn, '__wrapped__', fn)
        code, rets = _returns_of(fn)
        codes.append(code)
        for line, name in rets.items():
            returns[(code, line)] = name
    _state['returns'] = returns
    main_code = codes[0]

    def on_line(code, line):
        name = returns.get((code, line))
        if name is not None and (not _state['lines'] or _state['lines'][-1][1] != name):
            _state['lines'].append((code is main_code, name))
    mon.register_callback(TOOL_ID, mon.events.LINE, on_line)
    for code in codes:
        mon.set_local_events(TOOL_ID, code, mon.events.LINE)
    ctx.note('return_statements_in_source', sorted(returns.values()))


def remove_line_observer():
    mon = sys.monitoring
    if mon.get_tool(TOOL_ID) == 'vmon-c04':
        mon.register_callback(TOOL_ID, mon.events.LINE, None)
        mon.free_tool_id(TOOL_ID)


# ---------------------------------------------------------------- contracts
def native_subrange(op, wngrid):
    """index range of a contiguous sub-range of the native grid, or None."""
    if wngrid is None:
        return slice(None)
    native = np.asarray(op.wavenumberGrid, dtype=float)
    w = np.asarray(wngrid, dtype=float)
    if w.ndim != 1 or w.size == 0:
        return None
    i0 = int(np.searchsorted(native, w[0]))
    if i0 + w.size <= native.size and np.array_equal(native[i0:i0 + w.size], w):
        return slice(i0, i0 + w.size)
    return None


def install_contracts():
    if _state['installed']:
        return
    _state['installed'] = True
    from taurex.opacity.interpolateopacity import InterpolatingOpacity
    from taurex.opacity.opacity import Opacity
    from taurex.opacity.ktables.ktable import KTable

    def compute_opacity_is_clamped_interpolation(self, temperature, pressure, wngrid, result):
        c = _state['ctx']
        lines, _state['lines'] = _state['lines'], []
        main = [n for is_main, n in lines if is_main]
        for _, n in lines:
            c.observe('return:' + n)
        c.check('one-return-per-call', len(main) == 1, reached=main)
        ref = judge(c, 'compute_opacity', self, temperature, pressure, wngrid, result)
        if ref is not None and main:
            # which return the oracle's region was dispatched to (observed, not judged)
            c.observe('dispatch:%s -> %s' % (ref['region'], main[0].split('@', 1)[1]))
        return True

    def opacity_selects_rows_of_the_interpolated_table(self, temperature, pressure, wngrid, result):
        c = _state['ctx']
        if not isinstance(self, InterpolatingOpacity):
            c.event('contract-skip:not-an-interpolating-opacity')
            return True
        sl = native_subrange(self, wngrid)
        if sl is None:
            c.event('domain-skip:wngrid-not-a-native-sub-range')
            return True
        c.observe('wngrid:full' if wngrid is None else 'wngrid:restricted')
        judge(c, 'ktable.opacity' if isinstance(self, KTable) else 'opacity', self, temperature, pressure, sl, result)
        return True

    InterpolatingOpacity.compute_opacity = icontract.ensure(
        compute_opacity_is_clamped_interpolation, error=contracts.PostBroken)(InterpolatingOpacity.compute_opacity)
    Opacity.opacity = icontract.ensure(
        opacity_selects_rows_of_the_interpolated_table, error=contracts.PostBroken)(Opacity.opacity)
    KTable.opacity = icontract.ensure(
        opacity_selects_rows_of_the_interpolated_table, error=contracts.PostBroken)(KTable.opacity)


def setup(ctx):
    _state['ctx'] = ctx
    _state['lines'] = []
    install_line_observer(ctx)
    install_contracts()


def teardown(ctx):
    remove_line_observer()


def finalize(m, inconclusive):
    """Every return statement of the observed functions that exists in the source must have been reached."""
    want = m['notes'].get('return_statements_in_source')
    if not want:
        inconclusive.append('line observer recorded no return statements')
        return
    for name in want:
        if m['classes'].get('return:' + name, 0) == 0:
            inconclusive.append('return statement never reached: ' + name)


# --------------------------------------------------------------- generators
def gen_grids(rng, ctx=None):
    nP, nT = int(rng.integers(2, 6)), int(rng.integers(2, 8))
    if rng.random() < 0.12:
        # a table with a single node along an axis (pressure-independent / single-temperature tables)
        if rng.random() < 0.6:
            nP = 1
        if nP > 1 or rng.random() < 0.5:
            nT = 1
    T = np.sort(rng.uniform(60, 4000, nT))
    for k in range(1, nT):
        if T[k] - T[k - 1] < 5:
            T[k] = T[k - 1] + 5 + rng.uniform(0, 80)
    if rng.random() < 0.3:
        T = np.round(T)                                  # round numbers like real tables (100, 200, ...)
        T = np.unique(T)
        if len(T) < 2 and nT > 1:
            T = np.array([T[0], T[0] + 100.0])
        if rng.random() < 0.5:
            T = T.astype(np.int64)                       # a temperature axis built with np.arange(...): integer dtype
    lo = rng.uniform(-3, 2)
    lp = np.sort(np.linspace(lo, lo + rng.uniform(2, 9), nP) + rng.uniform(-0.3, 0.3, nP))
    for k in range(1, nP):
        if lp[k] - lp[k - 1] < 0.05:
            lp[k] = lp[k - 1] + 0.3
    P = 10 ** lp
    if rng.random() < 0.3:
        P = 10.0 ** np.round(lp)                          # exact decades
        P = np.unique(P)
        if len(P) < 2 and nP > 1:
            P = np.array([P[0], P[0] * 10])
    if ctx is not None:
        ctx.observe('table:single-P-node' if len(P) == 1 else 'table:P-nodes>=2',
                    'table:single-T-node' if len(T) == 1 else 'table:T-nodes>=2')
    return T, P


def gen_values(rng, shape, magnitude=None):
    magnitude = magnitude or ['tiny', 'mid', 'large', 'steep', 'ones'][rng.integers(0, 5)]
    if magnitude == 'tiny':
        x = 10 ** (rng.uniform(-40, -31) + rng.uniform(0, 1.0, shape))
    elif magnitude == 'mid':
        x = 10 ** (rng.uniform(-30, -16, shape[2:] if len(shape) > 2 else ())
                   + rng.normal(0, 0.7, shape))
    elif magnitude == 'large':
        x = 10 ** rng.uniform(-6, 0, shape)
    elif magnitude == 'steep':
        x = 10 ** rng.uniform(-40, 0, shape)
    else:
        x = np.ones(shape)
    return np.clip(x, 1e-40, 1.0), magnitude


def gen_queries(rng, Tg, Pg, budget=64):
    """[(T, P, tag)] covering nodes, edge mid-points, interiors, the eight outside regions and exact extremes."""
    qs = []
    lP = np.log10(Pg)
    sT, sP = Tg[-1] - Tg[0], lP[-1] - lP[0]
    if len(Tg) == 1:
        sT = 0.3 * float(Tg[0])          # a single node: "outside" is measured against the node itself
    if len(Pg) == 1:
        sP = 1.0
    for t in Tg:
        for p in Pg:
            qs.append((t, p, 'at-node'))
    for a, b in zip(Tg[:-1], Tg[1:]):
        qs.append((0.5 * (a + b), Pg[rng.integers(0, len(Pg))], 'T-edge-midpoint'))
    for a, b in zip(lP[:-1], lP[1:]):
        qs.append((Tg[rng.integers(0, len(Tg))], 10 ** (0.5 * (a + b)), 'P-edge-midpoint'))
    for _ in range(10):
        i, p = rng.integers(0, max(len(Tg) - 1, 1)), rng.integers(0, max(len(Pg) - 1, 1))
        f = [rng.random(), 10 ** rng.uniform(-9, -1), 1 - 10 ** rng.uniform(-9, -1)][rng.integers(0, 3)]
        g = [rng.random(), 10 ** rng.uniform(-9, -1), 1 - 10 ** rng.uniform(-9, -1)][rng.integers(0, 3)]
        tq = Tg[i] + f * (Tg[i + 1] - Tg[i]) if len(Tg) > 1 else Tg[0]
        pq = 10 ** (lP[p] + g * (lP[p + 1] - lP[p])) if len(Pg) > 1 else Pg[0]
        qs.append((tq, pq, 'interior'))

    def t_of(kind):
        d = 10 ** rng.uniform(-9, 1) * sT
        if kind == 'below':
            return Tg[0] - d if Tg[0] - d > 1.0 else Tg[0] / (1.0 + d / sT)
        if kind == 'above':
            return Tg[-1] + d
        return rng.uniform(Tg[0], Tg[-1])

    def p_of(kind):
        d = 10 ** rng.uniform(-9, 1) * sP
        if kind == 'below':
            return 10 ** (lP[0] - d)
        if kind == 'above':
            return 10 ** (lP[-1] + d)
        return 10 ** rng.uniform(lP[0], lP[-1])
    for kt in ('below', 'in', 'above'):
        for kp in ('below', 'in', 'above'):
            if kt == 'in' and kp == 'in':
                continue
            for _ in range(3):
                qs.append((t_of(kt), p_of(kp), 'outside'))
    for kp in ('below', 'in', 'above'):
        qs.append((Tg[0], p_of(kp), 'exact-Tmin'))
        qs.append((Tg[-1], p_of(kp), 'exact-Tmax'))
        # one ulp either side of the extremes
        qs.append((np.nextafter(Tg[0], 0), p_of(kp), 'ulp-below-Tmin'))
        qs.append((np.nextafter(Tg[-1], 0), p_of(kp), 'ulp-below-Tmax'))
    for kt in ('below', 'in', 'above'):
        qs.append((t_of(kt), Pg[0], 'exact-Pmin'))
        qs.append((t_of(kt), Pg[-1], 'exact-Pmax'))
    if len(qs) > budget:
        keep = rng.choice(len(qs), budget, replace=False)
        qs = [qs[k] for k in sorted(keep)]
    return [(float(t), float(p), tag) for t, p, tag in qs]


def fake_ktable_class():
    from taurex.opacity.ktables.ktable import KTable
    Fake = world.fake_opacity_class()

    class FakeKTable(KTable, Fake):
        """In-memory k-table: KTable mixed with InterpolatingOpacity exactly like PickleKTable."""

        def __init__(self, molecule, wn, T, P_pa, kcoeff, weights, interpolation_mode='linear'):
            Fake.__init__(self, molecule, wn, T, P_pa, kcoeff, interpolation_mode=interpolation_mode)
            self._weights = np.asarray(weights, dtype=float)

        @property
        def weights(self):
            return self._weights
    return FakeKTable


def run_queries(ctx, rng, op, queries, layout, mode):
    """Drive the real object; the contracts judge every call.  Also: restricted grid == rows of the full result."""
    wn = np.asarray(op.wavenumberGrid, dtype=float)
    n = len(wn)
    judged0 = sum(v for k, v in ctx.monitors.items() if k.endswith(':formula'))
    switch_at = set()
    _state['declared'] = (op, mode)
    led = own.Ledger(ctx, layout)          # results kept by the caller / work arrays it re-uses (see vmon/own.py)
    work = {}
    if rng.random() < 0.5:                       # the mode is changed on the LIVE object between evaluations
        switch_at = set(int(k) for k in rng.integers(1, max(len(queries), 2), size=int(rng.integers(1, 4))))
    for qi, (T, P, tag) in enumerate(queries):
        if qi in switch_at:
            new_mode = ['linear', 'exp'][rng.integers(0, 2)]
            if new_mode == 'exp' and np.any(np.asarray(op.xsecGrid) == 0):
                new_mode = 'linear'
            ctx.observe('live-switch:%s->%s' % (_state['declared'][1], new_mode))
            op.set_interpolation_mode([' %s ', '%s', '%s'][rng.integers(0, 3)] % new_mode)
            _state['declared'] = (op, new_mode)
        ctx.observe('query:' + tag)
        _state['tag'] = tag
        r_ = rng.random()
        # (float32 arguments are not driven: the code then computes log10 P in single precision, and the 1e-10 oracle
        # would judge single-precision rounding at region boundaries, which the statement does not speak about)
        if r_ < 0.12:
            T, P = np.array(T), np.array(P)              # 0-d arrays
            ctx.observe('argtype:0-d-array')
        elif r_ < 0.24 and float(T).is_integer():
            T = int(T)                                   # a whole-number temperature as a Python int
            ctx.observe('argtype:int-temperature')
        route = rng.integers(0, 4)
        if route == 0:
            op.compute_opacity(T, P)
            ctx.observe('route:compute_opacity')
        elif route == 1:
            op.opacity(T, P)
            ctx.observe('route:opacity()')
        else:
            i0 = int(rng.integers(0, n))
            i1 = int(rng.integers(i0 + 1, n + 1))
            sub = wn[i0:i1].copy()
            if (i1 - i0) in work and rng.random() < 0.7:
                # the caller's ONE work array of that length, refilled in place with another window
                sub = led.refill(work[i1 - i0], sub)
                ctx.observe('wngrid:reused-work-array')
            else:
                work[i1 - i0] = sub
            led.lend(sub, 'requested wngrid')
            full_raw = op.opacity(T, P)
            part_raw = op.opacity(T, P, sub)
            full, part = np.asarray(full_raw), np.asarray(part_raw)
            led.settle('opacity() query %d' % qi)
            led.keep(full_raw, 'opacity(T,P)[%d]' % qi)
            led.keep(part_raw, 'opacity(T,P,wngrid)[%d]' % qi)
            ctx.observe('route:opacity(wngrid)', 'subrange-len:%s' % ('1' if i1 - i0 == 1 else 'all' if i1 - i0 == n else 'some'))
            if layout == 'ktable':
                ok = part.shape == (i1 - i0, full.shape[1]) and np.array_equal(part, full[i0:i1], equal_nan=True)
            else:
                ok = part.shape == (i1 - i0,) and np.array_equal(part, full[i0:i1], equal_nan=True)
            ctx.check('restricted-equals-rows', ok, T=T, P=P, i0=i0, i1=i1, n=n, layout=layout,
                      part_shape=list(part.shape), full_shape=list(full.shape))
    led.settle('all queries')
    _state['tag'] = None
    _state['declared'] = None
    return sum(v for k, v in ctx.monitors.items() if k.endswith(':formula')) - judged0


# ----------------------------------------------------------------- workloads
def wl_xsec(ctx, rng, zeros=False):
    Fake = world.fake_opacity_class()
    T, P = gen_grids(rng, ctx)
    nwn = int(rng.integers(1, 11))
    wn = world.wn_grid(rng, max(nwn, 2))[:nwn] if nwn > 1 else np.array([float(rng.uniform(100, 5000))])
    x, mag = gen_values(rng, (len(P), len(T), nwn))
    mode = ['linear', 'exp'][rng.integers(0, 2)]
    if not zeros and len(T) >= 3 and ctx.case['index'] % 10 == 6:
        # a table stitched from a low-temperature and a high-temperature block: the seam temperature is listed twice (the same
        # cross-sections at both copies)
        j = int(rng.integers(1, len(T) - 1))
        T = np.insert(T, j, T[j])
        x = np.insert(x, j, x[:, j], axis=1)
        ctx.observe('table:a-temperature-node-listed-twice')
    if zeros:
        k = rng.integers(0, 3)
        if k == 0:
            x[rng.random(x.shape) < 0.3] = 0.0
        elif k == 1:
            x[:, 0, :] = 0.0                      # a cold row of zeros
        else:
            x[...] = 0.0
        x.flat[rng.integers(0, x.size)] = 0.0
        mag = 'with-zeros'
    ctx.observe('magnitude:' + mag)
    ctx.feature(layout='xsec', shape=list(x.shape), mode=mode, magnitude=mag)
    if rng.random() < 0.7:
        op = Fake('H2O', wn, T, P, x, interpolation_mode=mode)
    else:       # through the setter, which strips stray blanks of an input file value
        op = Fake('H2O', wn, T, P, x, interpolation_mode=['linear', 'exp'][rng.integers(0, 2)])
        op.set_interpolation_mode([' %s ', '%s', '%s\n'][rng.integers(0, 3)] % mode)
        ctx.observe('mode-set-via:set_interpolation_mode')
    n = run_queries(ctx, rng, op, gen_queries(rng, T, P), 'xsec', mode)
    if n or zeros:
        ctx.sig('xsec', mode, x.shape, mag, float(x.sum()))
        ctx.sample({'layout': 'xsec', 'mode': mode, 'shape': list(x.shape), 'magnitude': mag, 'T': T, 'P': P,
                    'judged_calls': int(n)})


def wl_long(ctx, rng):
    """A long history on ONE opacity object (the object lives in the cache for a whole retrieval): over a thousand
    distinct (T, P) requests, then requests for points it has served long before.  The contracts judge every call."""
    layout = ['xsec', 'ktable'][rng.integers(0, 2)]
    T, P = gen_grids(rng, ctx)
    mode = ['linear', 'exp'][rng.integers(0, 2)]
    if layout == 'xsec':
        Fake = world.fake_opacity_class()
        wn = world.wn_grid(rng, int(rng.integers(2, 6)))
        x, mag = gen_values(rng, (len(P), len(T), len(wn)))
        op = Fake('H2O', wn, T, P, x, interpolation_mode=mode)
    else:
        FakeK = fake_ktable_class()
        wn = world.wn_grid(rng, int(rng.integers(2, 5)))
        ng = int(rng.integers(1, 4))
        x, mag = gen_values(rng, (len(P), len(T), len(wn), ng))
        w = rng.random(ng) + 0.05
        w /= w.sum()
        op = FakeK('H2O', wn, T, P, x, w, interpolation_mode=mode)
    qs = gen_queries(rng, T, P)
    lP = np.log10(P)
    n_new = int(rng.integers(700, 1100)) if ctx.tier == 'quick' else int(rng.integers(2000, 6000))
    while len(qs) < n_new:
        tq = float(rng.uniform(0.8 * T[0], 1.2 * T[-1]))
        pq = float(10 ** rng.uniform(lP[0] - 0.5, lP[-1] + 0.5))
        qs.append((tq, pq, 'interior'))
    again = [qs[int(k)] for k in rng.integers(0, len(qs), int(rng.integers(150, 400)))]
    qs = qs + [(t, p_, 'asked-long-before') for t, p_, _ in again]
    ctx.observe('layout:' + layout, 'mode:' + mode, 'history:thousand-requests-then-earlier-points-again')
    ctx.feature(layout=layout, mode=mode, history=len(qs))
    n = run_queries(ctx, rng, op, qs, layout, mode)
    ctx.sig('long', layout, mode, x.shape, float(x.sum()))
    ctx.sample({'layout': layout, 'mode': mode, 'history': len(qs), 'judged_calls': int(n)})


def wl_zeros(ctx, rng):
    wl_xsec(ctx, rng, zeros=True)


def wl_ktable(ctx, rng):
    FakeK = fake_ktable_class()
    T, P = gen_grids(rng, ctx)
    nwn, ng = int(rng.integers(1, 8)), int(rng.integers(1, 7))
    wn = world.wn_grid(rng, max(nwn, 2))[:nwn] if nwn > 1 else np.array([float(rng.uniform(100, 5000))])
    x, mag = gen_values(rng, (len(P), len(T), nwn, ng))
    if rng.random() < 0.5:
        x = np.sort(x, axis=-1)                  # k-coefficients ascending in g, as in real tables
    w = rng.random(ng) + 0.05
    w /= w.sum()
    mode = ['linear', 'exp'][rng.integers(0, 2)]
    ctx.observe('magnitude:' + mag, 'ngauss:%d' % ng)
    ctx.feature(layout='ktable', shape=list(x.shape), mode=mode, magnitude=mag)
    op = FakeK('H2O', wn, T, P, x, w, interpolation_mode=mode)
    n = run_queries(ctx, rng, op, gen_queries(rng, T, P, budget=56), 'ktable', mode)
    if n:
        ctx.sig('ktable', mode, x.shape, mag, float(x.sum()))


def wl_files(ctx, rng):
    """The same tables through the real pickle loaders (PickleOpacity, PickleKTable)."""
    from taurex.opacity.pickleopacity import PickleOpacity
    from taurex.opacity.ktables.picklektable import PickleKTable
    T, P = gen_grids(rng, ctx)
    nwn = int(rng.integers(2, 9))
    wn = world.wn_grid(rng, nwn)
    mode = ['linear', 'exp'][rng.integers(0, 2)]
    d = world.scratch_dir(ctx, 'c04-%d' % ctx.cases)
    r_ = rng.random()
    if r_ < 0.3:
        x, mag = gen_values(rng, (len(P), len(T), nwn))
        path = os.path.join(d, 'H2O.pickle')
        world.write_pickle_xsec(path, wn, T, P, x)
        op = PickleOpacity(path, interpolation_mode=mode)
        ctx.observe('route:pickle-xsec')
        layout = 'xsec'
    elif r_ < 0.65:
        # the HDF5 containers: the pressure axis is stored in the unit the file declares (any unit string the package's
        # converter takes); what the loader hands out is pascal
        from vmon import lib_c14
        from taurex.opacity.hdf5opacity import HDF5Opacity
        from taurex.opacity.ktables.hdfktable import HDF5KTable
        unit = str(rng.choice(sorted(lib_c14.PA_PER_UNIT)))
        ctx.observe('route:hdf5', 'hdf5-pressure-unit:' + unit)
        if rng.random() < 0.5:
            x, mag = gen_values(rng, (len(P), len(T), nwn))
            path = os.path.join(d, 'H2O.h5')
            lib_c14.write_xsec_hdf5(path, 'H2O', wn, T, P, x, unit)
            op = HDF5Opacity(path, interpolation_mode=mode, in_memory=True)      # as the cache builds it
            layout = 'xsec'
        else:
            ng = int(rng.integers(1, 5))
            x, mag = gen_values(rng, (len(P), len(T), nwn, ng))
            path = os.path.join(d, 'H2O_R100.h5')
            lib_c14.write_ktable_hdf5(path, wn, T, P, x, np.full(ng, 1.0 / ng), unit)
            op = HDF5KTable(path, interpolation_mode=mode)
            layout = 'ktable'
    else:
        ng = int(rng.integers(1, 5))
        x, mag = gen_values(rng, (len(P), len(T), nwn, ng))
        w = np.full(ng, 1.0 / ng)
        path = os.path.join(d, 'H2O_R100.pickle')
        world.write_pickle_ktable(path, 'H2O', wn, T, P, x, w)
        op = PickleKTable(path, interpolation_mode=mode)
        ctx.observe('route:pickle-ktable')
        layout = 'ktable'
    ctx.observe('magnitude:' + mag)
    ctx.feature(layout=layout, shape=list(x.shape), mode=mode, magnitude=mag, route='pickle')
    ctx.check('loader-keeps-table', np.array_equal(np.asarray(op.xsecGrid), x) and
              np.array_equal(np.asarray(op.temperatureGrid), T), path=os.path.basename(path))
    # ... and the pressure axis in pascal, whatever unit the container stores it in
    ctx.close('loader-keeps-table', op.pressureGrid, P, 8 * EPS, axis='pressure [Pa]', path=os.path.basename(path))
    # the loaded pressure grid (bar*1e5) is what the queries and the oracle use
    n = run_queries(ctx, rng, op, gen_queries(rng, np.asarray(op.temperatureGrid, dtype=float),
                                              np.asarray(op.pressureGrid, dtype=float), budget=50), layout, mode)
    if n:
        ctx.sig('file', layout, mode, x.shape, mag, float(x.sum()))
    os.remove(path)


WORKLOADS = {'xsec': wl_xsec, 'ktable': wl_ktable, 'files': wl_files, 'zeros': wl_zeros, 'long': wl_long}

LEVEL_TEXT = ('Exploration by runtime monitoring: icontract postconditions on the real InterpolatingOpacity.compute_opacity, '
              'Opacity.opacity and KTable.opacity decide every execution from the object\'s public table against an '
              'independent clamped reference (non-negative, inside the bracketing nodes, node values reproduced, '
              'bilinear / documented exp form inside a cell, corner/edge clamping outside, zero below both minima, '
              '/1e4, restricted sub-range = rows); sys.monitoring LINE events on interp_bilinear_grid/interp_temp_only '
              'observe which return statement each call reached and all of them must have been reached. Tables, '
              'queries (all nine regions, nodes, edge mid-points, exact extremes, 1e-9..10 spans outside), both modes, '
              'cross-section and k-table layouts, in-memory and pickle-file routes come from a seeded generator; '
              'kernels run under NUMBA_BOUNDSCHECK=1 (thorough: also with the JIT disabled). Held = held on the '
              'recorded executions.'
              ' Results the caller keeps and work arrays it re-uses are followed by an ownership ledger (vmon/own.py).')
LEVEL_NOTE = ('Trusted: the reference interpolation written in vmon/props/c04.py from the statement and DESIGN.md; '
              'tolerance 1e-12 of the largest adjacent node for bounds (rounding of the kernels), 1e-10 relative for '
              'formulas. Exact zeros in exp mode are observed only.')
TECHNIQUE = 'icontract postconditions on compute_opacity/opacity + sys.monitoring line observation of the region dispatch + independent clamped-interpolation reference over seeded tables'
