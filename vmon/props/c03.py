"""C03 -- optical depth composes additively over contributions and species.

Monitors
  * generator tap on every contribution's prepare_each: each yielded (name, array) is deep-copied AT THE MOMENT
    IT IS YIELDED (the code reuses one buffer, a late copy would hide a stale-buffer bug);
  * tap on Contribution.prepare / AbsorptionContribution.prepare: sigma_xsec after the call;
  * C01's taps on path_integral / contribute (which contributions were integrated per layer -> early exit observed);
  * numba kernels under NUMBA_BOUNDSCHECK=1.
Oracle: sums/products/permutations/zero-abundance/proportionality relations of the statement.
"""
import itertools

import numpy as np

from vmon import faults
from vmon import taps, world
from vmon.props import c01 as base

PROPERTY = 'C03'
RULE = ('synthetic worlds as in C01 with 1-3 absorbing species, subsets of Absorption/CIA(1-2 pairs)/Rayleigh/FlatMie/'
        'LeeMie/SimpleClouds/HydrogenIon, transmission and emission models; distinct = distinct (workload, model, '
        'nlayers, magnitude, contributions, species, planet) tuples')
ASSUMPTIONS = [
    'the raw cross-sections (Opacity.opacity, CIA.cia, rayleigh_sigma_from_name) are taken from the real objects; '
    'their own correctness is C04/C14 - C03 judges the weighting and the composition',
    'expected mixing profiles come from a freshly built gas profile object per species (independent of the '
    'chemistry\'s active/inactive indexing), validity of the mixture itself is C10',
    'the product rule is asserted for the transmission model (third return value = per-layer transmittance)',
]
_Q = {'cia_sweep': 1, 'compose': 45, 'order': 16, 'abundance': 16, 'emission': 12, 'live': 20, 'cia_pairs': 20}
_T = {'cia_sweep': 3, 'compose': 700, 'order': 250, 'abundance': 250, 'emission': 200, 'live': 300, 'cia_pairs': 300}
BUDGET = {
    'quick': [dict(name='boundscheck', env={'NUMBA_BOUNDSCHECK': '1'}, shards=4, cases=_Q)],
    'thorough': [dict(name='boundscheck', env={'NUMBA_BOUNDSCHECK': '1'}, shards=16, cases=_T)],
}
REQUIRED = dict(monitors=['sigma-is-sum-of-components', 'component-is-xsec-times-mixratio', 'cia-component-is-xsec-times-x1x2',
                          'model-is-product-of-contributions', 'contribution-is-product-of-components',
                          'order-independent', 'zero-abundance-changes-nothing', 'component-proportional-to-abundance',
                          'contribution-list-restored', 'store-contributions-equal-model-contrib'],
                classes=['live:fault-before-evaluation', 'cia:he-zero', 'cia:trace-zero', 'cia:trace-zero-in-some-layers', 'contrib:CIA', 'contrib:Rayleigh', 'contrib:SimpleClouds', 'contrib:FlatMie', 'contrib:LeeMie',
                         'contrib:HydrogenIon', 'model:emission', 'early-exit-observed', 'species>=2', 'restricted-grid',
                         'live:starts-at-zero', 'history:one-model-a-thousand-temperatures-with-CIA', 'live:interpolation-mode-switched-between-evaluations', 'live:write-a-few-parts-per-billion-away', 'live:write-trace-abundance-below-1e-8', 'live:write-from-zero', 'live:write-to-zero', 'live:write-rescale', 'chemistry:makefree+file', 'live:background-without-scattering-data',
                         'live:contribution-yields-nothing-after-having-yielded', 'rayleigh:species-zero-in-some-layers-only'])
_rec = {'yields': {}, 'sigma': {}}
CUT = base.CUT


def classify(f):
    return None


def setup(ctx):
    from taurex.contributions import Contribution, AbsorptionContribution, CIAContribution, RayleighContribution, \
        SimpleCloudsContribution, FlatMieContribution, LeeMieContribution
    from taurex.contributions.hm import HydrogenIon
    base.setup(ctx)
    install_component_taps(ctx)


def install_component_taps(ctx):
    """The generator tap (copy of every yielded component at yield time) and the prepare tap (summed sigma).  Also used by
    C01's `components` workload, so that the cross-sections the transit integral is fed are judged there as well."""
    if _rec.get('installed'):
        return
    _rec['installed'] = True
    from taurex.contributions import Contribution, AbsorptionContribution, CIAContribution, RayleighContribution, \
        SimpleCloudsContribution, FlatMieContribution, LeeMieContribution
    from taurex.contributions.hm import HydrogenIon

    def wrap_gen(cls):
        orig = cls.__dict__['prepare_each']

        def prepare_each(self, model, wngrid):
            lst = _rec['yields'].setdefault(id(self), [])
            del lst[:]
            for name, arr in orig(self, model, wngrid):
                lst.append((name, np.array(arr, dtype=float, copy=True)))     # copy at yield time
                ctx.event('tap:yield')
                yield name, arr
        prepare_each._vmon_orig = orig
        cls.prepare_each = prepare_each
        taps._registry.append((cls, 'prepare_each', orig))
    for c in (AbsorptionContribution, CIAContribution, RayleighContribution, SimpleCloudsContribution,
              FlatMieContribution, LeeMieContribution, HydrogenIon):
        wrap_gen(c)

    def after_prepare(self, a, kw, res, exc, tok):
        if exc is None:
            _rec['sigma'][id(self)] = (np.array(self.sigma_xsec, dtype=float, copy=True),
                                       [(n, x.copy()) for n, x in _rec['yields'].get(id(self), [])])
            ctx.event('tap:prepare')
    taps.tap(Contribution, 'prepare', None, after_prepare)
    taps.tap(AbsorptionContribution, 'prepare', None, after_prepare)


def teardown(ctx):
    taps.untap_all()
    _rec['installed'] = False


# ---------------------------------------------------------------- generators
def make_case(rng, hion=None, n_active=None, kind='transmission', makefree=False):
    for _ in range(50):
        spec = world.random_world_spec(rng, n_active=n_active if n_active is not None else int(rng.integers(1, 4)),
                                       nlayers=int(rng.choice([2, 3, 5, 7, 13])), nwn=int(rng.integers(3, 25)))
        spec['contributions'] = base.pick_contribs(rng, spec)
        if kind != 'transmission':
            spec['contributions'] = [c for c in spec['contributions'] if (c if isinstance(c, str) else c['name']) != 'SimpleClouds']
        if hion if hion is not None else rng.random() < 0.3:
            spec['gases'].append({'kind': 'constant', 'mol': 'H', 'mix': float(10 ** rng.uniform(-8, -2))})
            spec['gases'].append({'kind': 'constant', 'mol': 'e-', 'mix': float(10 ** rng.uniform(-10, -3))})
            spec['contributions'].append('HydrogenIon')
        if rng.random() < 0.25 and len(spec['contributions']) > 1:
            spec['contributions'] = spec['contributions'][1:]      # a model without molecular absorption
        spec['new_method'] = bool(rng.random() < 0.5)
        spec['cia_magnitude'] = spec['magnitude']
        spec['cia_seed'] = int(rng.integers(0, 2 ** 31))
        spec['ngauss'] = 4
        if spec['gases'] and rng.random() < 0.15 and spec['nlayers'] >= 2:
            # one trace species present in some layers only: an abundance array with one value per layer, some of them
            # exactly zero (a species that condenses out above a level, a file profile with zeros)
            j = int(rng.integers(0, len(spec['gases'])))
            vals = 10 ** rng.uniform(-9, -2.5, spec['nlayers'])
            z = rng.random(spec['nlayers']) < 0.4
            if not z.any():
                z[int(rng.integers(0, spec['nlayers']))] = True
            if z.all():
                z[int(rng.integers(0, spec['nlayers']))] = False
            vals[z] = 0.0
            spec['gases'][j] = {'kind': 'array', 'mol': spec['gases'][j]['mol'], 'mix': [float(v) for v in vals]}
        if makefree if makefree is not None else rng.random() < 0.12:
            world.make_free_route(rng, spec)
        if world.is_bound(spec):
            return spec
    raise RuntimeError('generator could not draw a bound atmosphere')


def realise(spec, kind='transmission', order=None):
    world.reset_caches()
    ops = world.install_opacities(spec)
    pairs = []
    for c in spec['contributions']:
        if not isinstance(c, str) and c['name'] == 'CIA':
            pairs = c['cia_pairs']
    cias = {}
    if pairs:
        wn = next(iter(spec['tables'].values()))['wn']
        cias = world.install_cia(np.random.default_rng(spec['cia_seed']), pairs, wn, spec['cia_magnitude'])
    if kind == 'transmission':
        model = world.build_model(spec, kind, new_path_method=spec['new_method'])
    else:
        model = world.build_model(spec, kind, ngauss=spec['ngauss'])
    s2 = dict(spec)
    if order is not None:
        s2['contributions'] = [spec['contributions'][i] for i in order]
    contribs = world.add_contributions(model, s2)
    return model, contribs, ops, cias


def observe_case(ctx, spec, kind):
    ctx.observe('model:' + kind, 'magnitude:' + spec['magnitude'], 'nlayers:%d' % spec['nlayers'])
    for c in spec['contributions']:
        ctx.observe('contrib:' + (c if isinstance(c, str) else c['name']))
    if len(spec['tables']) >= 2:
        ctx.observe('species>=2')
    ctx.feature(summary=world.spec_summary(spec), kind=kind)


def expected_mix(spec, model):
    """Mixing profile of every trace gas from a freshly built profile object (no chemistry indexing involved)."""
    if spec.get('makefree'):
        return world.makefree_reference(spec, model.nLayers, model.temperatureProfile, model.pressureProfile,
                                        model.altitudeProfile)
    out = {}
    for g in spec['gases']:
        o = world.build_gas(g, spec['pmin'], spec['pmax'])
        o.initialize_profile(model.nLayers, model.temperatureProfile, model.pressureProfile, model.altitudeProfile)
        out[g['mol']] = np.array(o.mixProfile, dtype=float) * np.ones(model.nLayers)
    return out


def judge_components(ctx, model, contribs, ops, cias, spec, wn):
    """(a) sigma = sum of yielded components; (b) component = cross-section x mixing ratio."""
    from taurex.util.scattering import rayleigh_sigma_from_name
    n = model.nLayers
    T, P = np.array(model.temperatureProfile), np.array(model.pressureProfile)
    mix = expected_mix(spec, model)
    for c in contribs:
        rec = _rec['sigma'].get(id(c))
        if rec is None:
            ctx.check('prepare-was-tapped', False, contrib=c.name)
            continue
        sigma, comps = rec
        kls = type(c).__name__
        if comps:
            total = np.zeros_like(comps[0][1])
            for nm, arr in comps:
                total = total + arr
            ctx.close('sigma-is-sum-of-components', sigma, total, 1e-12, contrib=kls, ncomp=len(comps))
        else:
            ctx.check('sigma-is-sum-of-components', sigma is None or not np.any(sigma), contrib=kls, ncomp=0)
        # completeness: every species that is present (a mixing ratio above zero in some layer) and has opacity data
        # yields its component -- however small the abundance; a missing component cannot be judged by its value
        names = [nm for nm, _ in comps]
        if kls == 'AbsorptionContribution':
            need = [m for m in ops if m in mix and float(np.max(mix[m])) > 0.0]
            ctx.check('every-present-species-yields-a-component', all(m in names for m in need), contrib=kls,
                      missing=[m for m in need if m not in names],
                      abundances={m: float(np.max(mix[m])) for m in need if m not in names})
        elif kls == 'CIAContribution':
            need = [pr for pr in cias]
            ctx.check('every-present-species-yields-a-component', all(pr in names for pr in need), contrib=kls,
                      missing=[pr for pr in need if pr not in names])
        elif kls == 'RayleighContribution':
            # every species with scattering data that is present in SOME layer (it may be exactly zero in others)
            allg = list(model.chemistry.activeGases) + list(model.chemistry.inactiveGases)
            need = []
            for m in allg:
                x_ = mix[m] if m in mix else np.array(model.chemistry.get_gas_mix_profile(m))
                if rayleigh_sigma_from_name(m, wn) is not None and float(np.max(x_)) > 0.0:
                    need.append(m)
                    if float(np.min(x_)) == 0.0:
                        ctx.observe('rayleigh:species-zero-in-some-layers-only')
            ctx.check('every-present-species-yields-a-component', all(m in names for m in need), contrib=kls,
                      missing=[m for m in need if m not in names])
        for nm, arr in comps:
            if kls == 'AbsorptionContribution':
                op = ops[nm]
                want = np.array([op.opacity(T[l], P[l], wn) * mix[nm][l] for l in range(n)])
                ctx.close('component-is-xsec-times-mixratio', arr, want, 1e-12, contrib=kls, gas=nm)
            elif kls == 'CIAContribution':
                cia = cias[nm]
                a, b = nm.split('-')
                xa = mix[a] if a in mix else np.array(model.chemistry.get_gas_mix_profile(a))
                xb = mix[b] if b in mix else np.array(model.chemistry.get_gas_mix_profile(b))
                want = np.array([cia.cia(T[l], wn) * xa[l] * xb[l] for l in range(n)])
                ctx.close('cia-component-is-xsec-times-x1x2', arr, want, 1e-12, pair=nm)
            elif kls == 'RayleighContribution':
                x = mix[nm] if nm in mix else np.array(model.chemistry.get_gas_mix_profile(nm))
                sr = rayleigh_sigma_from_name(nm, wn)
                ctx.close('component-is-xsec-times-mixratio', arr, sr[None, :] * x[:, None], 1e-12, contrib=kls, gas=nm)


def product_rule(ctx, monitor, whole, parts, skipped_layers, what):
    """whole[l, wn] == prod(parts)[l, wn], compared in optical depth; layers where an early exit was observed in
    any of the runs are only required to be saturated (<= exp(-10)) on both sides."""
    n = whole.shape[0]
    with np.errstate(divide='ignore'):
        tw = -np.log(whole)
        tp = np.zeros_like(whole)
        for p in parts:
            tp = tp - np.log(p)
    for l in range(n):
        if l in skipped_layers:
            ctx.check(monitor + ':saturated-where-skipped', np.all(whole[l] <= CUT * (1 + 1e-9)) and
                      np.all(np.exp(-tp[l]) <= CUT * (1 + 1e-9)), layer=l, what=what,
                      whole_max=float(np.max(whole[l])))
            continue
        ok = np.isfinite(tp[l]) & (tp[l] < 600) & np.isfinite(tw[l]) & (tw[l] < 600)
        ctx.close(monitor, tw[l][ok], tp[l][ok], 1e-9, atol=4e-16 * (len(parts) + 1), layer=l, what=what)
        # where a side underflowed both must be (numerically) opaque
        bad = ~ok
        if np.any(bad):
            ctx.check(monitor, np.all(whole[l][bad] < 1e-200) and np.all(np.exp(-tp[l][bad]) < 1e-200), layer=l, what=what)


def skipped(snap):
    names = [c[0] for c in snap['contribs']]
    per = {}
    for layer, name, tmin in snap['calls']:
        per.setdefault(layer, []).append(name)
    return {l for l in range(snap['n']) if len(per.get(l, [])) < len(names)}


# ----------------------------------------------------------------- workloads
def wl_compose(ctx, rng):
    """(a)(b)(c)(f) on one transmission world."""
    spec = make_case(rng, makefree=None)
    observe_case(ctx, spec, 'transmission')
    ctx.observe('chemistry:makefree+file' if spec.get('makefree') else 'chemistry:free')
    model, contribs, ops, cias = realise(spec)
    snap = base.run_model(ctx, model)
    if snap is None:
        return
    wn = snap['wn']
    judge_components(ctx, model, contribs, ops, cias, spec, wn)
    # the recorded transmittance equals the sum over contributions of sigma x density (squared for CIA) x chord
    base.oracle(ctx, snap, spec)
    sk = skipped(snap)
    if sk:
        ctx.observe('early-exit-observed')
    whole = snap['ret_trans']
    before = list(model.contribution_list)
    # per contribution
    grid = None
    if rng.random() < 0.4 and len(wn) >= 4:
        i0 = int(rng.integers(0, len(wn) - 2))
        grid = wn[i0:int(rng.integers(i0 + 2, len(wn) + 1))]
        ctx.observe('restricted-grid')
    g1, cd = model.model_contrib(wngrid=grid)
    ctx.check('contribution-list-restored', model.contribution_list == before, after=[c.name for c in model.contribution_list])
    g2, fd = model.model_full_contrib(wngrid=grid)
    ctx.check('contribution-list-restored', model.contribution_list == before, after=[c.name for c in model.contribution_list])
    if grid is None:
        names = [c.name for c in contribs]
        # two contributions may share a name ('Mie'): model_contrib keys by name, judge only unique names
        if len(set(names)) == len(names):
            parts = [np.array(cd[nm][1], dtype=float) for nm in names]
            product_rule(ctx, 'model-is-product-of-contributions', whole, parts, sk, 'model vs contributions')
        else:
            ctx.event('domain-skip:duplicate-contribution-name')
        for c in contribs:
            if names.count(c.name) > 1:
                continue
            comps = fd[c.name]
            if not comps:
                continue
            parts = [np.array(t[2], dtype=float) for t in comps]
            product_rule(ctx, 'contribution-is-product-of-components', np.array(cd[c.name][1], dtype=float), parts,
                         set(), c.name + ' vs components')
    else:
        # restricted grid: the same relations hold on the restricted points (C13 decides equality with the full grid)
        ctx.check('restricted-grid-shapes', all(np.array(v[0]).shape == g1.shape for v in cd.values()) and
                  all(np.array(t[1]).shape == g2.shape for v in fd.values() for t in v), n=len(g1))
    # store_contributions reports exactly model_contrib / model_full_contrib
    from taurex.util.output import store_contributions
    from taurex.binning import NativeBinner
    from taurex import OutputSize
    g1, cd = model.model_contrib()
    g2, fd = model.model_full_contrib()
    out = store_contributions(NativeBinner(), model, output_size=OutputSize.heavy)
    ok = True
    for nm, (flux, tau, _) in cd.items():
        ok = ok and nm in out and np.array_equal(np.asarray(out[nm]['native_spectrum']), np.asarray(flux))
        for cname, cflux, ctau, _ in fd[nm]:
            ok = ok and cname in out[nm] and np.array_equal(np.asarray(out[nm][cname]['native_spectrum']), np.asarray(cflux))
    ctx.check('store-contributions-equal-model-contrib', ok, keys=list(out.keys()))
    ctx.check('contribution-list-restored', model.contribution_list == before)
    ctx.sig('compose', spec['nlayers'], spec['magnitude'], tuple(world.spec_summary(spec)['contributions']),
            tuple(sorted(spec['tables'])), round(spec['planet_mass'], 6))
    ctx.sample({'world': world.spec_summary(spec), 'contributions': [c.name for c in contribs],
                'components': {c.name: [t[0] for t in fd[c.name]] for c in contribs}, 'early_exit_layers': len(sk)})


def wl_order(ctx, rng):
    """(d) every order of add_contribution gives the same spectrum (to within the cut-off in skipped layers)."""
    spec = make_case(rng)
    if len(spec['contributions']) < 2:
        spec['contributions'] = spec['contributions'] + ['Rayleigh']
    observe_case(ctx, spec, 'transmission')
    k = len(spec['contributions'])
    perms = list(itertools.permutations(range(k)))
    if len(perms) > 24:
        idx = rng.choice(len(perms), 24, replace=False)
        perms = [perms[i] for i in idx]
    ref = None
    for pm in perms:
        model, contribs, ops, cias = realise(spec, order=pm)
        snap = base.run_model(ctx, model)
        if snap is None:
            return
        sk = skipped(snap)
        if sk:
            ctx.observe('early-exit-observed')
        if ref is None:
            ref = (snap, sk)
            continue
        rs, rsk = ref
        allow = 2.0 * sum((snap['Rp'] + snap['z'][l]) * snap['dz'][l] for l in (sk | rsk)) * CUT / snap['Rs'] ** 2
        ctx.close('order-independent', snap['depth'], rs['depth'], 1e-10, atol=allow, order=list(pm), skipped=len(sk | rsk))
        for l in range(snap['n']):
            if l in sk or l in rsk:
                ctx.check('order-independent:saturated-where-skipped', np.all(snap['ret_trans'][l] <= CUT * (1 + 1e-9)) and
                          np.all(rs['ret_trans'][l] <= CUT * (1 + 1e-9)), layer=l)
            else:
                ctx.close('order-independent', snap['ret_trans'][l], rs['ret_trans'][l], 1e-10, atol=1e-300, layer=l, order=list(pm))
    ctx.sig('order', spec['nlayers'], spec['magnitude'], tuple(world.spec_summary(spec)['contributions']), round(spec['planet_mass'], 6))


def wl_abundance(ctx, rng, kind='transmission'):
    """(e) a species at zero abundance changes nothing; a component's weighted opacity is proportional to abundance."""
    spec = make_case(rng, n_active=int(rng.integers(2, 4)), kind=kind, hion=False)
    # constant profiles small enough that the scaled mixture stays valid (sum of traces <= 1 is C10's domain)
    spec['gases'] = [{'kind': 'constant', 'mol': g['mol'], 'mix': float(10 ** rng.uniform(-9, -2))} for g in spec['gases']]
    observe_case(ctx, spec, kind)
    mols = sorted(spec['tables'])
    victim = mols[int(rng.integers(0, len(mols)))]

    def run(sp):
        model, contribs, ops, cias = realise(sp, kind)
        if kind == 'transmission':
            snap = base.run_model(ctx, model)
            if snap is None:
                return None
            spectrum = snap['depth']
        else:
            from taurex.exceptions import InvalidModelException
            try:
                model.build()
                spectrum = np.array(model.model()[1])
            except InvalidModelException as e:
                if model.temperature.__class__.__name__ != 'Guillot2010':
                    raise
                ctx.license(type(e).__name__)
                return None
        comp = {}
        for c in contribs:
            rec = _rec['sigma'].get(id(c))
            if rec is not None:
                comp[type(c).__name__] = dict(rec[1])
        return spectrum, comp
    # zero abundance versus absent
    s_zero = dict(spec, gases=[dict(g, mix=0.0) if g['mol'] == victim else g for g in spec['gases']])
    s_absent = dict(spec, gases=[g for g in spec['gases'] if g['mol'] != victim],
                    tables={m: t for m, t in spec['tables'].items() if m != victim})
    r0, ra = run(s_zero), run(s_absent)
    if r0 is None or ra is None:
        return
    # the native grid is the longest table's grid; all tables share one grid here, so the spectra are comparable
    ctx.close('zero-abundance-changes-nothing', r0[0], ra[0], 1e-12, victim=victim, kind=kind)
    # proportionality of the victim's component
    s = float(rng.choice([2.0, 10.0, 0.5, 1e-3]))
    r1 = run(spec)
    s_scaled = dict(spec, gases=[dict(g, mix=g['mix'] * s) if g['mol'] == victim else g for g in spec['gases']])
    r2 = run(s_scaled)
    if r1 is None or r2 is None:
        return
    for kls in ('AbsorptionContribution', 'RayleighContribution'):
        if kls in r1[1] and victim in r1[1][kls] and victim in r2[1].get(kls, {}):
            ctx.close('component-proportional-to-abundance', r2[1][kls][victim], s * r1[1][kls][victim], 1e-12,
                      contrib=kls, scale=s, victim=victim)
            for other in r1[1][kls]:
                if other != victim and other in r2[1][kls] and other in spec['tables']:
                    ctx.close('other-components-unchanged', r2[1][kls][other], r1[1][kls][other], 1e-12, contrib=kls)
    ctx.sig('abundance', kind, spec['nlayers'], spec['magnitude'], victim, round(spec['planet_mass'], 6))


def wl_live(ctx, rng):
    """One model object, as in a retrieval or a parameter sweep: abundances are written through the fitting parameters
    (model['N2'] = x; from exactly zero upwards, back to zero, rescaled) and the model is evaluated again WITHOUT a
    rebuild.  After every write the recorded components are judged by the statement's algebra and the whole evaluation
    (every contribution's summed opacity, the names and values of its components, per-layer transmittance, depth) is
    compared with a freshly built model of the same parameters."""
    noble = bool(ctx.case['index'] % 5 == 0)          # every fifth case on purpose (a class no longer left to chance)
    spec = make_case(rng, n_active=1 if noble else int(rng.integers(1, 4)), hion=False)
    if noble:
        # a background gas without Rayleigh (or CIA) data and ONE trace species: when that species is written to zero a
        # scattering contribution has NO component left to yield -- an empty selection on an object that had one before
        from taurex.util.scattering import rayleigh_sigma_from_name
        probe = np.array([1000.0])
        fills = [m for m in ('Ne', 'Ar', 'Kr') if rayleigh_sigma_from_name(m, probe) is None]
        act = [g for g in spec['gases'] if g['mol'] in spec['tables']]
        if fills and act and rayleigh_sigma_from_name(act[0]['mol'], probe) is not None:
            s2 = dict(spec, fill_gases=[fills[int(rng.integers(0, len(fills)))]], fill_ratio=[], gases=act[:1],
                      contributions=[c for c in spec['contributions'] if (c if isinstance(c, str) else c['name']) != 'CIA'])
            s2.pop('makefree', None)
            if world.is_bound(s2):
                spec = s2
                ctx.observe('live:background-without-scattering-data')
            else:
                noble = False
        else:
            noble = False
    spec['gases'] = [{'kind': 'constant', 'mol': g['mol'], 'mix': float(10 ** rng.uniform(-9, -2))} for g in spec['gases']]
    names = [c if isinstance(c, str) else c['name'] for c in spec['contributions']]
    if 'Rayleigh' not in names and (noble or rng.random() < 0.7):
        spec['contributions'] = list(spec['contributions']) + ['Rayleigh']
    if not spec['gases']:
        return
    victim = spec['gases'][int(rng.integers(0, len(spec['gases'])))]['mol']
    start_zero = bool(rng.random() < 0.6) and not noble      # (the noble-background worlds start with the species present ...)
    if start_zero:
        spec['gases'] = [dict(g, mix=0.0) if g['mol'] == victim else g for g in spec['gases']]
        ctx.observe('live:starts-at-zero')
    observe_case(ctx, spec, 'transmission')
    ctx.feature(victim=victim, start_zero=start_zero)
    model, contribs, ops, cias = realise(spec)
    spec0 = spec
    writes = []
    snap = base.run_model(ctx, model)
    if snap is None:
        return
    steps = []
    yielded_before = {type(c).__name__: bool(_rec['sigma'].get(id(c), (None, []))[1]) for c in contribs}
    for rnd in range(int(rng.integers(1, 4))):
        cur = [g['mix'] for g in spec['gases'] if g['mol'] == victim][0]
        u = rng.random()
        if cur > 0.0 and u < 0.15:
            # a step a sampler takes near convergence: the new value is the old one a few parts in a billion away
            v = float(cur * (1.0 + float(rng.choice([-1.0, 1.0])) * 10 ** rng.uniform(-9, -6)))
            ctx.observe('live:write-a-few-parts-per-billion-away')
        elif u < 0.35:
            # a trace abundance: old and new value differ by far less than 1e-8 in absolute terms, by much in ratio
            v = float(10 ** rng.uniform(-12, -8.5))
            ctx.observe('live:write-trace-abundance-below-1e-8')
        elif cur == 0.0 or rng.random() < (0.4 if noble else 0.7):
            v = float(10 ** rng.uniform(-7, -1.5))
        else:
            v = 0.0
        if noble and rnd == 0:
            v = 0.0                                        # (... and have it written to exactly zero first)
        steps.append(v)
        model[victim] = v
        writes.append((victim, v))
        spec = dict(spec, gases=[dict(g, mix=v) if g['mol'] == victim else g for g in spec['gases']])
        forced = ctx.case['index'] % 4 == 1 and rnd == 0     # every fourth case on purpose: temperature written, the evaluation
        #                                                        after it rejected inside the chemistry, then evaluated
        if rng.random() < 0.5 or forced:
            # the temperature is written as well (a retrieval moves both); cross-sections have to follow it
            tn = [n for n, t in model.fittingParameters.items()
                  if (n == 'T' or n in ('T_irr', 'T_surface', 'T_top') or n.startswith('T_point')) and isinstance(t[2](), float)]
            if tn:
                n_ = str(tn[int(rng.integers(0, len(tn)))])
                tv = float(np.clip(float(model[n_]) * rng.uniform(0.7, 1.3), 120.0, 3200.0))
                model[n_] = tv
                writes.append((n_, tv))
                ctx.observe('live:temperature-written')
        if rng.random() < 0.3:
            # the documented global option is changed while the model lives: ``OpacityCache().set_interpolation``
            # empties the cache, the tables come back as NEW objects in the new mode (here: re-registered, as a reload
            # from ``xsec_path`` would), and the model's next evaluation has to use them
            from taurex.cache import OpacityCache
            cur_mode = spec0.get('interpolation', 'linear')
            new_mode = 'linear' if cur_mode == 'exp' else 'exp'
            if new_mode == 'linear' or all(float(np.min(t['xsec'])) > 0.0 for t in spec0['tables'].values()):
                OpacityCache().set_interpolation(new_mode)
                spec0 = dict(spec0, interpolation=new_mode)
                spec = dict(spec, interpolation=new_mode)
                ops.update(world.install_opacities(spec0))
                ctx.observe('live:interpolation-mode-switched-between-evaluations')
        if rng.random() < 0.45 or forced:
            site = faults.drive_into(ctx, rng, model.model, **({'sites': ['chemistry'], 'kmax': 1} if forced else {}))      # a rejected evaluation between write and evaluation
            if site == 'rejected':
                return
            if site:
                ctx.observe('live:fault-before-evaluation')
        live = base.run_model(ctx, model, build=False)
        if live is None:
            return
        if not np.all(np.isfinite(live['zb'])) or live['zb'][-1] > 2.0 * live['Rp']:
            # the temperature written above made the atmosphere run away (top above two planetary radii): outside the
            # quantifier, as in C01's re-run workload
            ctx.event('domain-skip:perturbed-atmosphere-unbound')
            return
        wn = live['wn']
        judge_components(ctx, model, contribs, ops, cias, spec, wn)
        base.oracle(ctx, live, spec)
        live_rec = [(type(c).__name__, np.array(_rec['sigma'][id(c)][0]), [(n, a.copy()) for n, a in _rec['sigma'][id(c)][1]])
                    for c in contribs if id(c) in _rec['sigma']]
        for k_, _, comps_ in live_rec:
            if not comps_ and yielded_before.get(k_):
                ctx.observe('live:contribution-yields-nothing-after-having-yielded')
            if comps_:
                yielded_before[k_] = True
        # the twin is built on the SAME cache contents (no reset: the live model must keep seeing the opacity objects
        # it has been using, as in a real process)
        m2 = world.build_model(spec0, 'transmission', new_path_method=spec0['new_method'])
        c2 = world.add_contributions(m2, spec0)
        m2.build()
        for n_, v_ in writes:               # the fresh twin gets the same writes before its first evaluation
            m2[n_] = v_
        fresh = base.run_model(ctx, m2, build=False)
        if fresh is None:
            return
        wit = dict(victim=victim, written=list(steps), round=rnd)
        ctx.close('live-equals-fresh:depth', live['depth'], fresh['depth'], 1e-12, **wit)
        ctx.close('live-equals-fresh:transmittance', live['ret_trans'], fresh['ret_trans'], 1e-12, atol=1e-300, **wit)
        fresh_rec = [(type(c).__name__, np.array(_rec['sigma'][id(c)][0]), [(n, a.copy()) for n, a in _rec['sigma'][id(c)][1]])
                     for c in c2 if id(c) in _rec['sigma']]
        ok = ctx.check('live-equals-fresh:contributions', [r[0] for r in live_rec] == [r[0] for r in fresh_rec],
                       live=[r[0] for r in live_rec], fresh=[r[0] for r in fresh_rec], **wit)
        if ok:
            for (k1, s1, comps1), (k2, s2, comps2) in zip(live_rec, fresh_rec):
                ctx.close('live-equals-fresh:sigma', s1, s2, 1e-12, contrib=k1, **wit)
                same = ctx.check('live-equals-fresh:component-names', [n for n, _ in comps1] == [n for n, _ in comps2],
                                 contrib=k1, live=[n for n, _ in comps1], fresh=[n for n, _ in comps2], **wit)
                if same:
                    for (n1, a1), (n2, a2) in zip(comps1, comps2):
                        ctx.close('live-equals-fresh:component', a1, a2, 1e-12, contrib=k1, component=n1, **wit)
        ctx.observe('live:write-%s' % ('to-zero' if v == 0.0 else ('from-zero' if cur == 0.0 else 'rescale')))
    ctx.sig('live', spec['nlayers'], spec['magnitude'], victim, tuple(steps), round(spec['planet_mass'], 6))


def wl_cia_pairs(ctx, rng):
    """Collision-induced absorption with several pairs in any order, partners at exactly zero abundance (everywhere, or
    in some layers only), pairs with trace-gas partners: every yielded pair component is judged against
    cross-section x x1 x x2 layer by layer, the summed opacity against the sum, and the transmittance by the oracle."""
    spec = make_case(rng, hion=False, n_active=int(rng.integers(1, 3)))
    if 'He' not in spec['fill_gases']:
        spec['fill_gases'] = ['H2', 'He']
        spec['fill_ratio'] = [float(10 ** rng.uniform(-3, 0))]
    partners = [g['mol'] for g in spec['gases']]
    pairs = ['H2-H2', 'H2-He'] + ['%s-%s' % (['H2', 'He'][rng.integers(0, 2)], m) for m in partners[:2]]
    pairs = [pairs[i] for i in rng.permutation(len(pairs))][:int(rng.integers(2, len(pairs) + 1))]
    how = ['he-zero', 'trace-zero', 'trace-zero-in-some-layers', 'none'][rng.integers(0, 4)]
    if how == 'he-zero':
        spec['fill_ratio'][spec['fill_gases'].index('He') - 1] = 0.0
    elif how in ('trace-zero', 'trace-zero-in-some-layers') and partners:
        v = partners[0]
        if how == 'trace-zero':
            spec['gases'] = [{'kind': 'constant', 'mol': v, 'mix': 0.0} if g['mol'] == v else g for g in spec['gases']]
        else:
            k = int(rng.integers(2, 6))
            arr = [float(x) for x in 10 ** rng.uniform(-8, -3, k)]
            arr[int(rng.integers(0, k))] = 0.0
            if rng.random() < 0.5:
                arr[0] = 0.0
            spec['gases'] = [{'kind': 'array', 'mol': v, 'mix': arr} if g['mol'] == v else g for g in spec['gases']]
    spec['contributions'] = [c for c in spec['contributions'] if (c if isinstance(c, str) else c['name']) != 'CIA']
    cia = {'name': 'CIA', 'cia_pairs': pairs}
    spec['contributions'].insert(int(rng.integers(0, len(spec['contributions']) + 1)), cia)
    observe_case(ctx, spec, 'transmission')
    ctx.observe('cia:pairs=%d' % len(pairs), 'cia:' + how)
    ctx.feature(pairs=pairs, zero=how)
    model, contribs, ops, cias = realise(spec)
    snap = base.run_model(ctx, model)
    if snap is None:
        return
    judge_components(ctx, model, contribs, ops, cias, spec, snap['wn'])
    base.oracle(ctx, snap, spec)
    ctx.sig('cia', tuple(pairs), how, spec['nlayers'], round(spec['planet_mass'], 6))


def wl_cia_sweep(ctx, rng):
    """A long history on ONE model with collision-induced absorption (a retrieval of the temperature): over a thousand
    evaluations at new temperatures, earlier temperatures coming back in between and at the end.  After every evaluation the
    yielded pair components are judged against cross-section x x1 x x2 and the summed opacity against their sum."""
    for _ in range(50):
        spec = make_case(rng, hion=False, n_active=1)
        spec['fill_gases'] = ['H2', 'He']
        spec['fill_ratio'] = [float(10 ** rng.uniform(-2, 0))]
        spec['temperature'] = {'kind': 'isothermal', 'T': float(rng.uniform(600, 1500))}
        mol_ = sorted(spec['tables'])[0]
        spec['tables'] = {mol_: spec['tables'][mol_]}
        spec['gases'] = [{'kind': 'constant', 'mol': mol_, 'mix': float(10 ** rng.uniform(-7, -3))}]
        spec.pop('makefree', None)
        spec['contributions'] = ['Absorption', {'name': 'CIA', 'cia_pairs': ['H2-H2', 'H2-He']}]
        if spec['gases'] and world.is_bound(dict(spec, temperature={'kind': 'isothermal', 'T': 2600.0})):
            break
    else:
        ctx.event('domain-skip:no-bound-isothermal-world')
        return
    observe_case(ctx, spec, 'transmission')
    model, contribs, ops, cias = realise(spec)
    snap = base.run_model(ctx, model)
    if snap is None:
        return
    judge_components(ctx, model, contribs, ops, cias, spec, snap['wn'])
    base.oracle(ctx, snap, spec)
    n = int(rng.integers(1080, 1300)) if ctx.tier == 'quick' else int(rng.integers(2500, 6000))
    temps = [float(rng.uniform(300, 2600)) for _ in range(n)]
    seq = []
    for j, t in enumerate(temps):
        seq.append(t)
        if j % 100 == 99:
            seq.append(temps[int(rng.integers(0, j // 2))])
    seq += [temps[int(k)] for k in rng.integers(0, 40, 4)] + [temps[int(k)] for k in rng.integers(0, n, 10)]
    judged = 0
    for j, t in enumerate(seq):
        model['T'] = t
        live = base.run_model(ctx, model, build=False)
        if live is None:
            continue
        judge_components(ctx, model, contribs, ops, cias, spec, live['wn'])
        if j % 100 == 0 or j >= len(seq) - 14:
            base.oracle(ctx, live, spec)
        judged += 1
    if judged > 1000:
        ctx.observe('history:one-model-a-thousand-temperatures-with-CIA')
    ctx.sig('cia-sweep', spec['nlayers'], len(seq), round(spec['planet_mass'], 6))


def wl_emission(ctx, rng):
    """(a)(b)(e)(f) on the emission / direct-image models."""
    kind = ['emission', 'directimage'][rng.integers(0, 2)]
    if rng.random() < 0.5:
        return wl_abundance(ctx, rng, kind=kind)
    from taurex.exceptions import InvalidModelException
    spec = make_case(rng, kind=kind)
    observe_case(ctx, spec, 'emission')
    model, contribs, ops, cias = realise(spec, kind)
    try:
        model.build()
        wn = np.array(model.model()[0])
    except InvalidModelException as e:
        if model.temperature.__class__.__name__ != 'Guillot2010':
            raise
        ctx.license(type(e).__name__)
        return
    judge_components(ctx, model, contribs, ops, cias, spec, wn)
    before = list(model.contribution_list)
    model.model_contrib()
    ctx.check('contribution-list-restored', model.contribution_list == before)
    model.model_full_contrib()
    ctx.check('contribution-list-restored', model.contribution_list == before)
    ctx.sig('emission', kind, spec['nlayers'], spec['magnitude'], tuple(world.spec_summary(spec)['contributions']),
            round(spec['planet_mass'], 6))


WORKLOADS = {'cia_sweep': wl_cia_sweep, 'compose': wl_compose, 'order': wl_order, 'abundance': wl_abundance, 'emission': wl_emission, 'live': wl_live, 'cia_pairs': wl_cia_pairs}

LEVEL_TEXT = ('Exploration by runtime monitoring: a generator tap copies every component a contribution yields at the moment '
              'it is yielded, taps on prepare/path_integral/contribute record the summed sigma, the per-layer '
              'transmittances and which contributions were integrated per layer; the recorded executions are judged '
              'against the statement\'s algebra (sigma = sum of components; component = cross-section x mixing ratio, '
              'x1*x2 for CIA; model = product of contributions = product of components in optical depth; all orders of '
              'add_contribution; zero abundance = absent; proportionality; contribution_list restored), with the tau>10 '
              'cut-off allowed only in layers where a skip was observed. Kernels run under NUMBA_BOUNDSCHECK=1.')
LEVEL_NOTE = ('Trusted: raw cross-sections from the real opacity/CIA/Rayleigh objects (C04/C14), per-species mixing profiles '
              'from fresh gas-profile objects (C10).')
TECHNIQUE = 'generator/call taps (copy-at-yield) + bounds-check sanitizer + algebraic composition oracle over recorded executions'
